#![no_main]
//! C08: raw bytes split at the first line `#####` into schema text and operation text; the whole
//! check + generate pipeline of vh::props::c08::run_pipeline.
use libfuzzer_sys::fuzz_target;
fuzz_target!(|data: &[u8]| {
    let Ok(text) = std::str::from_utf8(data) else { return };
    let (schema, op) = match text.split_once("\n#####\n") {
        Some(x) => x,
        None => return,
    };
    vh::fuzzglue::run("pipeline", || vh::fuzzglue::project(schema, op));
});
