#![no_main]
//! C19: the fuzzer's bytes are a history of loader calls (one byte per call, drawn from the big
//! alphabet of the model-based check: initiate / required / load / emit / free over live, freed and unknown
//! task ids and all file x source combinations, up to 32 calls). The reference model of vh-loader judges
//! every step (ids, required files, emitted modules, isolation); the process runs under AddressSanitizer and
//! a panic crossing the extern "C" boundary aborts it, so memory errors and traps are crashes libFuzzer keeps.
use libfuzzer_sys::fuzz_target;
use std::sync::OnceLock;
use vh_loader::c19::{alphabet, run_history, Op};

fn ops() -> &'static Vec<Op> {
    static A: OnceLock<Vec<Op>> = OnceLock::new();
    A.get_or_init(|| alphabet(4, 4, &[0, 1, 2, 3, 4, 5], &[0, 1, 2, 3, 4, 5], true))
}

fuzz_target!(|data: &[u8]| {
    let a = ops();
    let history: Vec<Op> = data.iter().take(32).map(|b| a[(*b as usize) % a.len()]).collect();
    if let Err(f) = run_history(&history) {
        eprintln!("FUZZ-FAILURE target=loader_history signature={} message={}", f.signature, f.message);
        std::process::abort();
    }
});
