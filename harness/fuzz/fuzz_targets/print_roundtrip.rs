#![no_main]
//! C16 (round trip): any text nitrogql parses is printed by GraphQLPrinter and re-parsed; the two abstract
//! documents must be equal (vh::fuzzglue::print_roundtrip; strings that hit an open known finding of the
//! printer are excluded by construction).
use libfuzzer_sys::fuzz_target;
fuzz_target!(|data: &[u8]| {
    let Ok(text) = std::str::from_utf8(data) else { return };
    vh::fuzzglue::run_for("C16", "print_roundtrip", || vh::fuzzglue::print_roundtrip(text));
});
