#![no_main]
//! C08: raw bytes as configuration text.
use libfuzzer_sys::fuzz_target;
fuzz_target!(|data: &[u8]| {
    let Ok(text) = std::str::from_utf8(data) else { return };
    vh::fuzzglue::run("config", || {
        let _ = nitrogql_config_file::parse_config(text);
        Ok(())
    });
});
