#![no_main]
//! C08: raw bytes as the single schema file of a project with a fixed valid operation.
use libfuzzer_sys::fuzz_target;
fuzz_target!(|data: &[u8]| {
    let Ok(text) = std::str::from_utf8(data) else { return };
    vh::fuzzglue::run("parse_schema", || vh::fuzzglue::project(text, "query Q { __typename }\n"));
});
