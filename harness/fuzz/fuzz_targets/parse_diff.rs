#![no_main]
//! C07 (differential): a text the reference parser accepts is a document of the language, so
//! nitrogql must accept it and build the same abstract document with token-true positions
//! (vh::fuzzglue::parse_diff; open known findings are excluded by construction).
use libfuzzer_sys::fuzz_target;
fuzz_target!(|data: &[u8]| {
    let Ok(text) = std::str::from_utf8(data) else { return };
    vh::fuzzglue::run_for("C07", "parse_diff", || vh::fuzzglue::parse_diff(text));
});
