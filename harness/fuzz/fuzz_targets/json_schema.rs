#![no_main]
//! C08: the schema text is an introspection result (what a `.json` schema file holds). Whatever the bytes are,
//! schema_from_introspection_json, type_system_to_ast, the operation check and (after a clean check) the printers
//! return values or errors - never a panic (vh::fuzzglue::json_schema; the open finding about results that are not
//! valid type systems is excluded by construction).
use libfuzzer_sys::fuzz_target;
fuzz_target!(|data: &[u8]| {
    let Ok(text) = std::str::from_utf8(data) else { return };
    vh::fuzzglue::run_for("C08", "json_schema", || vh::fuzzglue::json_schema(text));
});
