#![no_main]
//! C08/C07: raw bytes -> operation parser (+ the schema-free later stages). The oracle is in the
//! target: no unwind except panics listed as open known findings (vh::fuzzglue).
use libfuzzer_sys::fuzz_target;
fuzz_target!(|data: &[u8]| {
    let Ok(text) = std::str::from_utf8(data) else { return };
    vh::fuzzglue::run("parse_op", || vh::fuzzglue::parsers_only(text));
});
