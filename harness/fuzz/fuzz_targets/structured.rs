#![no_main]
//! C08: the fuzzer's bytes are the choice vector of the harness generators (valid-by-construction
//! projects + token/character mutations), so coverage feedback steers the structured generator.
use libfuzzer_sys::fuzz_target;
fuzz_target!(|data: &[u8]| {
    vh::fuzzglue::run("structured", || vh::fuzzglue::structured(data));
});
