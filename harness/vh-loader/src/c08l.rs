//! C08 (loader part) — the bundler-loader entry points never panic/abort, without a prior check.
//!
//! The worker process drives the extern "C" ABI natively in the order loader-core uses it
//! (load_config, initiate_task, {get_required_files, load_file}*, emit_js, free_task). A panic
//! inside an extern "C" function aborts the worker; the parent (main.rs) reports that as a
//! violation together with the in-flight case.

use crate::abi;
use serde_json::json;
use std::collections::BTreeMap;
use vh::choices::Choices;
use vh::gen_syntax::*;
use vh::model::*;
use vh::props::c08::*;
use vh::render::*;
use vh::runner::*;

const PATHS: [&str; 4] = ["/p/ops/main.graphql", "/p/ops/lib.graphql", "/p/ops/sub/deep.graphql", "/p/other.graphql"];
const IMPORT_SPELLINGS: [&str; 10] = [
    "./lib.graphql",
    "./sub/deep.graphql",
    "../other.graphql",
    "./main.graphql",
    "../ops/lib.graphql",
    "./x/../lib.graphql",
    "lib.graphql",
    "/p/other.graphql",
    "./missing.graphql",
    "",
];

fn gen_file(ch: &mut Choices, mch: &mut Choices, idx: usize) -> String {
    // a syntactic document (the loader has no schema), with imports of the other files
    let mut doc = g_op_doc(ch, false);
    let n_imports = mch.below(3);
    for _ in 0..n_imports {
        let targets = match mch.below(4) {
            0 => vec![None],
            1 => vec![Some(g_name(mch))],
            2 => vec![Some("F1".to_string()), Some("F1".to_string())],
            _ => vec![Some(g_name(mch)), None],
        };
        let path = IMPORT_SPELLINGS[mch.below(IMPORT_SPELLINGS.len())].to_string();
        doc.insert(0, MExecDef::Import(MImport { targets, path }));
    }
    let opts = if mch.chance(1, 2) { RenderOpts::wild() } else { RenderOpts::canonical() };
    let r = render_op_doc(&doc, opts, Some(ch));
    let text = match mch.below(if idx == 0 { 6 } else { 8 }) {
        0 | 1 | 2 => r.text,
        3 => {
            let mut toks = token_texts(&r);
            mutate_tokens(mch, &mut toks, &[]);
            join_tokens(mch, &toks)
        }
        4 => mutate_chars(mch, &r.text),
        5 => {
            if mch.chance(1, 2) {
                soup(mch, 30)
            } else {
                unicode_soup(mch)
            }
        }
        _ => r.text,
    };
    cap(text)
}

fn case_fn(case: &mut Case) -> CaseResult {
    abi::init_once();
    let mut mch = Choices::new((0..160).map(|_| case.ch.raw()).collect());
    // configuration: documented shapes, sometimes mutated (load_config returns false then)
    let cfg_text = match mch.below(5) {
        0 => mutate_chars(&mut mch, CONFIG_SEEDS[1]),
        1 => unicode_soup(&mut mch),
        k => CONFIG_SEEDS[k % CONFIG_SEEDS.len()].to_string(),
    };
    let mut files: BTreeMap<&str, String> = BTreeMap::new();
    let n_files = 1 + mch.below(PATHS.len());
    for (i, p) in PATHS.iter().enumerate().take(n_files) {
        files.insert(p, gen_file(&mut case.ch, &mut mch, i));
    }
    if files.values().any(|t| nesting(t) > 64) {
        case.discard("nesting beyond ordinary limits");
        return Ok(());
    }
    let detail = json!({"config": cfg_text, "files": files});
    if let Ok(p) = std::env::var("VH_INFLIGHT") {
        let _ = std::fs::write(&p, serde_json::to_string_pretty(&json!({"in_flight": detail, "choices": case.ch.data()})).unwrap());
    }
    let cfg_ok = abi::load_config(&cfg_text);
    case.label(if cfg_ok { "config-accepted" } else { "config-rejected" });
    let root = PATHS[0];
    // bundlers hand over absolute resource paths, which need not be normalised
    let root_name = match mch.below(5) {
        0 => "/p/ops/../ops/main.graphql",
        1 => "/p/ops/./main.graphql",
        2 => "/p/./ops/sub/../main.graphql",
        _ => root,
    };
    if root_name != root {
        case.label("root-name-not-normalised");
    }
    let mut emitted = false;
    match abi::initiate_task(root_name, &files[root]) {
        Err(_) => case.label("initiate-rejected"),
        Ok(id) => {
            let mut rounds = 0;
            let mut complete = true;
            loop {
                rounds += 1;
                match abi::get_required_files(id) {
                    Err(e) => {
                        return Err(Failure::new("required-files-error-on-live-task", format!("get_required_files failed on a live task: {e}"), detail));
                    }
                    Ok(req) if req.is_empty() => break,
                    Ok(req) => {
                        let mut progressed = false;
                        for f in req {
                            match files.get(f.as_str()) {
                                Some(text) => {
                                    progressed = true;
                                    if abi::load_file(id, &f, text).is_err() {
                                        case.label("load-rejected");
                                        complete = false;
                                    }
                                }
                                None => {
                                    case.label("required-file-missing");
                                    complete = false;
                                }
                            }
                        }
                        if !progressed || !complete || rounds > 8 {
                            break;
                        }
                    }
                }
            }
            // loader-core only emits after all files loaded; an eager bundler plugin may not:
            // emit is an entry point either way
            if complete || mch.chance(1, 2) {
                match abi::emit_js(id) {
                    Ok(js) => {
                        emitted = true;
                        case.label(if js.trim().is_empty() { "emitted-empty-module" } else { "emitted" });
                    }
                    Err(_) => case.label("emit-rejected"),
                }
            }
            abi::free_task(id);
        }
    }
    case.evals(1);
    if emitted {
        case.nontrivial(&files);
    }
    case.sample(|| json!({"root": files[root].chars().take(200).collect::<String>(), "emitted": emitted}));
    Ok(())
}

pub fn run(env: &Env) -> i32 {
    let mut rep = Report::new(
        env,
        "exploration",
        "loader ABI part of C08: 1-4 operation files at fixed paths, each a syntactic document (no schema; imports of the other files, of itself, of missing files, duplicate targets, bare/absolute/empty paths) rendered canonically or wildly, then left valid (50%), token-mutated, character-mutated or replaced by token/Unicode soup; configuration text valid or mutated. Calls in loader-core order: load_config, initiate_task, {get_required_files, load_file}*, emit_js (also before all requirements are met), free_task. Oracle: the worker process survives (a panic in an extern \"C\" function aborts it) and a live task never answers 'task not found'. Non-trivial: emit_js produced a module; distinct = file texts.",
    );
    rep.assume("strings are passed as loader-core passes them (alloc_string, copy, call, free_string), always valid UTF-8");
    rep.probe("C08-loader-missing-fragment", || {
        abi::init_once();
        abi::load_config("schema: s.graphql\n");
        let id = abi::initiate_task("/p/a.graphql", "query Q { ...Missing }\n").map_err(|e| Failure::new("initiate", e, json!(null)))?;
        let _ = abi::get_required_files(id);
        let _ = abi::emit_js(id);
        abi::free_task(id);
        Ok(())
    });
    rep.campaign("loader-pipeline", env.cases(20_000, 600_000), (80, 1200), case_fn);
    rep.finish()
}
