//! C19 — loader tasks are isolated and safe under any sequence of loader calls.

use crate::abi;
use serde_json::{json, Value};
use std::collections::{BTreeMap, BTreeSet};
use vh::model::MExecDef;
use vh::props::c20::ref_normalize;
use vh::refparse;
use vh::runner::*;

/// the three files live in different directories, so that a relative import means something
/// different depending on which file holds it
/// The fourth name is a non-normalised spelling: the loader identifies files by the strings it is given
/// (used by the random-long campaign and the libFuzzer target only, `n_files = 4`).
pub const FILES: [&str; 4] = ["/p/f1.graphql", "/p/d/f2.graphql", "/p/d/e/f3.graphql", "/p/x/../d/./f2b.graphql"];
pub const SOURCES: [&str; 6] = [
    "query A { a }\n",
    "#import F2 from \"./d/f2.graphql\"\nquery B { ...F2 }\n",
    "#import F3 from \"./x/../e/f3.graphql\"\nfragment F2 on Query { ...F3 }\n",
    "query {",
    "",
    "# caf\u{e9} \u{65e5}\u{672c}\nfragment F3 on Query { a(x: \"\u{65e5}\u{672c}\u{1F600}\") }\n",
];

#[derive(Clone, Copy, Debug, PartialEq, Eq, Hash, PartialOrd, Ord)]
pub enum TRef {
    /// k-th task created in this history
    K(usize),
    Unknown,
}

#[derive(Clone, Copy, Debug, PartialEq, Eq, Hash, PartialOrd, Ord)]
pub enum Op {
    Init { f: usize, src: usize },
    Required { t: TRef },
    Load { t: TRef, f: usize, src: usize },
    Emit { t: TRef },
    Free { t: TRef },
}

pub fn alphabet(n_tasks: usize, n_files: usize, init_sources: &[usize], load_sources: &[usize], unknown: bool) -> Vec<Op> {
    let mut trefs: Vec<TRef> = (0..n_tasks).map(TRef::K).collect();
    if unknown {
        trefs.push(TRef::Unknown);
    }
    let mut out = vec![];
    for f in 0..n_files {
        for &s in init_sources {
            out.push(Op::Init { f, src: s });
        }
    }
    for &t in &trefs {
        out.push(Op::Required { t });
        for f in 0..n_files {
            for &s in load_sources {
                out.push(Op::Load { t, f, src: s });
            }
        }
        out.push(Op::Emit { t });
        out.push(Op::Free { t });
    }
    out
}

fn parse_ok(src: usize) -> bool {
    refparse::parse_op_doc(SOURCES[src]).is_ok()
}

/// normalised import targets of a source placed at `path`
fn imports_of(src: usize, path: &str) -> Vec<String> {
    let Ok(doc) = refparse::parse_op_doc(SOURCES[src]) else { return vec![] };
    let dir: Vec<&str> = path.split('/').filter(|c| !c.is_empty()).collect();
    let dir = &dir[..dir.len() - 1];
    let mut out = vec![];
    for d in doc {
        if let MExecDef::Import(i) = d {
            let mut comps: Vec<&str> = dir.to_vec();
            comps.extend(i.path.split('/'));
            let n = ref_normalize(&comps).unwrap_or_default();
            out.push(format!("/{}", n.join("/")));
        }
    }
    out
}

#[derive(Clone, Debug, Default)]
struct MTask {
    root: usize,
    files: BTreeMap<usize, usize>, // file index -> source index (successfully parsed)
}

pub struct Model {
    pub next_id: usize,
    live: BTreeMap<usize, MTask>,
    created: Vec<usize>,
}

thread_local! {
    /// the loader's id counter is thread-local and cannot be reset: remember it per thread
    static NEXT_ID: std::cell::Cell<usize> = const { std::cell::Cell::new(1) };
}

impl Model {
    pub fn new() -> Model {
        Model { next_id: NEXT_ID.with(|c| c.get()), live: BTreeMap::new(), created: vec![] }
    }
    fn resolve(&self, t: TRef) -> usize {
        match t {
            TRef::K(k) => self.created.get(k).copied().unwrap_or(self.next_id + 1_000),
            TRef::Unknown => usize::MAX / 2,
        }
    }
    fn required(&self, id: usize) -> Option<BTreeSet<String>> {
        let t = self.live.get(&id)?;
        let mut out = BTreeSet::new();
        for (f, s) in &t.files {
            for target in imports_of(*s, FILES[*f]) {
                let loaded = FILES.iter().position(|p| *p == target).map(|i| t.files.contains_key(&i)).unwrap_or(false);
                if !loaded {
                    out.insert(target);
                }
            }
        }
        Some(out)
    }
}

impl Drop for Model {
    fn drop(&mut self) {
        // free whatever is still alive and remember the counter for the next history
        for id in self.live.keys() {
            abi::free_task(*id);
        }
        NEXT_ID.with(|c| c.set(self.next_id));
    }
}

fn fail(sig: &str, step: usize, history: &[Op], msg: String) -> Failure {
    Failure::new(
        sig,
        format!("step {step} ({:?}): {msg}", history[step]),
        json!({"history": history.iter().map(|o| format!("{o:?}")).collect::<Vec<_>>(), "step": step,
               "files": FILES, "sources": SOURCES}),
    )
}

/// emit of a fresh task given the same files (differential oracle); consumes one id
fn fresh_emit(m: &mut Model, t: &MTask) -> Result<String, String> {
    let root_src = t.files[&t.root];
    let id = abi::initiate_task(FILES[t.root], SOURCES[root_src]).map_err(|e| format!("fresh task could not be created: {e}"))?;
    m.next_id += 1;
    for (f, s) in &t.files {
        if *f != t.root {
            let _ = abi::load_file(id, FILES[*f], SOURCES[*s]);
        }
    }
    let r = abi::emit_js(id);
    abi::free_task(id);
    r
}

pub fn run_history(history: &[Op]) -> Result<HistoryInfo, Failure> {
    abi::init_once();
    let mut m = Model::new();
    let mut info = HistoryInfo::default();
    for (step, op) in history.iter().enumerate() {
        match *op {
            Op::Init { f, src } => {
                let r = abi::initiate_task(FILES[f], SOURCES[src]);
                match (parse_ok(src), r) {
                    (true, Ok(id)) => {
                        if id != m.next_id {
                            return Err(fail("task-id-not-monotonic", step, history, format!("new task got id {id}, expected {}", m.next_id)));
                        }
                        m.next_id += 1;
                        let mut t = MTask { root: f, files: BTreeMap::new() };
                        t.files.insert(f, src);
                        m.live.insert(id, t);
                        m.created.push(id);
                    }
                    (false, Err(msg)) => {
                        if msg.is_empty() {
                            return Err(fail("empty-error-message", step, history, "initiate_task failed without a message".into()));
                        }
                    }
                    (true, Err(msg)) => return Err(fail("initiate-rejects-valid", step, history, format!("valid source rejected: {msg}"))),
                    (false, Ok(id)) => return Err(fail("initiate-accepts-invalid", step, history, format!("unparsable source accepted as task {id}"))),
                }
            }
            Op::Required { t } => {
                let id = m.resolve(t);
                let r = abi::get_required_files(id);
                match (m.required(id), r) {
                    (Some(exp), Ok(got)) => {
                        let gotset: BTreeSet<String> = got.iter().cloned().collect();
                        if gotset.len() != got.len() || gotset != exp {
                            return Err(fail("required-files-differ", step, history, format!("task {id} asks for {got:?}, expected {exp:?}")));
                        }
                    }
                    (None, Err(msg)) => {
                        if msg != "Task not found" {
                            return Err(fail("unknown-task-message", step, history, format!("call on unknown/freed task {id} failed with {msg:?}")));
                        }
                        info.calls_on_dead += 1;
                    }
                    (Some(_), Err(msg)) => return Err(fail("required-fails-on-live-task", step, history, msg)),
                    (None, Ok(got)) => return Err(fail("dead-task-answers", step, history, format!("unknown/freed task {id} answered {got:?}"))),
                }
            }
            Op::Load { t, f, src } => {
                let id = m.resolve(t);
                let r = abi::load_file(id, FILES[f], SOURCES[src]);
                let live = m.live.contains_key(&id);
                match (live, parse_ok(src), r) {
                    (false, _, Err(msg)) => {
                        if msg != "Task not found" {
                            return Err(fail("unknown-task-message", step, history, format!("call on unknown/freed task {id} failed with {msg:?}")));
                        }
                        info.calls_on_dead += 1;
                    }
                    (false, _, Ok(())) => return Err(fail("dead-task-answers", step, history, format!("load_file on unknown/freed task {id} succeeded"))),
                    (true, true, Ok(())) => {
                        let t = m.live.get_mut(&id).unwrap();
                        if t.files.insert(f, src).is_some() {
                            info.resupplied += 1;
                        }
                    }
                    (true, false, Err(_)) => {}
                    (true, true, Err(msg)) => return Err(fail("load-rejects-valid", step, history, msg)),
                    (true, false, Ok(())) => return Err(fail("load-accepts-invalid", step, history, "unparsable source accepted".into())),
                }
            }
            Op::Emit { t } => {
                let id = m.resolve(t);
                let r = abi::emit_js(id);
                match m.live.get(&id).cloned() {
                    None => match r {
                        Err(msg) if msg == "Task not found" => info.calls_on_dead += 1,
                        Err(msg) => return Err(fail("unknown-task-message", step, history, format!("emit on unknown/freed task {id} failed with {msg:?}"))),
                        Ok(_) => return Err(fail("dead-task-answers", step, history, format!("emit on unknown/freed task {id} succeeded"))),
                    },
                    Some(task) => {
                        let fresh = fresh_emit(&mut m, &task);
                        if fresh != r {
                            return Err(fail(
                                "emit-differs-from-fresh-task",
                                step,
                                history,
                                format!("task {id} emitted {:?} but a fresh task given the same files emits {:?}", r, fresh),
                            ));
                        }
                        if r.is_ok() {
                            info.successful_emits += 1;
                        }
                        // asked again straight after a call that fails (and leaves its message as the last
                        // result), the task gives the same answer: nothing of what another call left behind
                        // may be taken for this task's module. The interpreter's own observation calls all
                        // succeed, so this sequence has to be made here.
                        let dead = usize::MAX / 2 + 1 + step;
                        let before = abi::emit_js(id);
                        if before != r {
                            return Err(fail("emit-again-differs", step, history, format!("task {id} emitted {:?}, then {:?}", r, before)));
                        }
                        match step % 3 {
                            0 => drop(abi::get_required_files(dead)),
                            1 => drop(abi::emit_js(dead)),
                            _ => drop(abi::load_file(dead, FILES[0], SOURCES[0])),
                        }
                        let again = abi::emit_js(id);
                        if again != r {
                            return Err(fail(
                                "emit-again-after-failed-call-differs",
                                step,
                                history,
                                format!("task {id} emitted {:?}, then - after a call on an unknown task failed - {:?}", r, again),
                            ));
                        }
                    }
                }
            }
            Op::Free { t } => {
                let id = m.resolve(t);
                abi::free_task(id);
                m.live.remove(&id);
            }
        }
        // isolation: every live task still answers according to its own files
        if m.live.len() >= 2 {
            info.interleaved = true;
        }
        let ids: Vec<usize> = m.live.keys().copied().collect();
        for id in ids {
            let exp = m.required(id).unwrap();
            match abi::get_required_files(id) {
                Ok(got) => {
                    let gotset: BTreeSet<String> = got.into_iter().collect();
                    if gotset != exp {
                        return Err(fail("isolation-required-files", step, history, format!("after this call task {id} asks for {gotset:?}, expected {exp:?}")));
                    }
                }
                Err(msg) => return Err(fail("isolation-live-task-fails", step, history, format!("live task {id}: {msg}"))),
            }
        }
    }
    // final differential for all live tasks
    let ids: Vec<usize> = m.live.keys().copied().collect();
    for id in ids {
        let task = m.live[&id].clone();
        let r = abi::emit_js(id);
        let fresh = fresh_emit(&mut m, &task);
        if r != fresh {
            return Err(fail("emit-differs-from-fresh-task", history.len() - 1, history, format!("at the end task {id} emits {:?}, a fresh task {:?}", r, fresh)));
        }
    }
    Ok(info)
}

#[derive(Default, Clone, Debug)]
pub struct HistoryInfo {
    pub interleaved: bool,
    pub calls_on_dead: usize,
    pub resupplied: usize,
    pub successful_emits: usize,
}

struct Histories {
    alphabet: Vec<Op>,
    len: usize,
    counter: Vec<usize>,
    done: bool,
}

impl Iterator for Histories {
    type Item = Vec<Op>;
    fn next(&mut self) -> Option<Vec<Op>> {
        if self.done {
            return None;
        }
        let h: Vec<Op> = self.counter.iter().map(|i| self.alphabet[*i]).collect();
        let mut i = 0;
        loop {
            if i == self.len {
                self.done = true;
                break;
            }
            self.counter[i] += 1;
            if self.counter[i] < self.alphabet.len() {
                break;
            }
            self.counter[i] = 0;
            i += 1;
        }
        Some(h)
    }
}

fn histories(alphabet: Vec<Op>, len: usize) -> Histories {
    Histories { alphabet, len, counter: vec![0; len], done: len == 0 }
}

fn classify(case: &mut Case, h: &[Op], info: &HistoryInfo) {
    if info.interleaved {
        case.label("two-live-tasks");
    }
    if info.calls_on_dead > 0 {
        case.label("call-on-freed-or-unknown-id");
    }
    if info.resupplied > 0 {
        case.label("file-resupplied");
    }
    if info.successful_emits > 0 {
        case.label("successful-emit");
    }
    if info.interleaved && info.calls_on_dead > 0 && info.resupplied > 0 {
        case.nontrivial(&h.to_vec());
    } else if h.len() <= 5 && (info.interleaved || info.calls_on_dead > 0 || info.resupplied > 0) {
        // short exhaustive histories: any of the three features counts
        case.nontrivial(&h.to_vec());
    }
}

pub fn run(env: &Env) -> i32 {
    let mut rep = Report::new(
        env,
        "exploration",
        "histories over {initiate(f,src), required(t), load(t,f,src), emit(t), free(t)} on the natively linked extern \"C\" ABI: bounded-exhaustive for |h| <= 3 over the full alphabet (2 task references + unknown id, 3 files, 6/4 sources; quick and thorough), |h| = 4 over a medium alphabet (45 operations) and |h| = 5 over a reduced alphabet (20 operations) in the thorough tier, random |h| <= 40 with up to 4 task references. Reference model: monotonically increasing ids never reused; required = not-yet-loaded normalised import targets of successfully loaded files (compared as a set); failed load keeps the previous version; calls on freed/unknown ids fail with 'Task not found'; emit equals (flag and text) the emit of a fresh task given the same final files; after every step all other live tasks still answer according to their own files. Non-trivial: >= 2 live tasks interleaved, a call on a freed/unknown id and a re-supplied file (any of them for |h| <= 5).",
    );
    rep.assume("files are supplied under the path the loader asked for (normalised), as loader-core does; RESULT is read only when the TypeScript caller reads it");
    rep.assume("sources never contain the C08 abort inputs (spread of an undefined fragment without import)");
    rep.assume("single-threaded histories: the loader state is thread-local and the wasm host is single-threaded; each worker thread owns an independent loader instance");

    let asan = std::env::var("VH_ASAN").is_ok();
    if asan {
        rep.note("this run executed under AddressSanitizer (nightly -Zsanitizer=address build of the loader and its dependencies; leak detection off: alloc_string leaks its Box<String> header by construction)");
    } else if let Ok(t) = std::fs::read_to_string(format!("{VERIF}/work/C19.asan.json")) {
        if let Ok(v) = serde_json::from_str::<Value>(&t) {
            rep.extra.insert("address_sanitizer_run".into(), json!({"evaluations": v["coverage"]["evaluations"], "violations": v["violations"], "campaigns": v["coverage"]["campaigns"]}));
        }
    }
    let full = alphabet(2, 3, &[0, 1, 2, 3, 4, 5], &[0, 2, 3, 5], true);
    rep.note(format!("full alphabet: {} operations", full.len()));
    for len in 1..=3 {
        let alpha = full.clone();
        rep.enumerate(&format!("exhaustive-len{len}"), true, histories(alpha, len), |case, h| {
            let info = run_history(h)?;
            case.evals(h.len() as u64);
            classify(case, h, &info);
            case.sample(|| json!(h.iter().map(|o| format!("{o:?}")).collect::<Vec<_>>()));
            Ok(())
        });
    }
    if env.is_thorough() && !asan {
        // |h| = 4 over a medium alphabet (2 task references + unknown id, 3 files, 3 sources)
        let medium = alphabet(2, 3, &[0, 1, 3], &[0, 2, 3], true);
        rep.note(format!("medium alphabet for |h| = 4: {} operations", medium.len()));
        rep.enumerate("exhaustive-len4-medium", true, histories(medium, 4), |case, h| {
            let info = run_history(h)?;
            case.evals(h.len() as u64);
            classify(case, h, &info);
            Ok(())
        });
        let reduced = alphabet(2, 2, &[0, 1, 3], &[0, 2], false);
        rep.note(format!("reduced alphabet for |h| = 5: {} operations", reduced.len()));
        rep.enumerate("exhaustive-len5-reduced", true, histories(reduced, 5), |case, h| {
            let info = run_history(h)?;
            case.evals(h.len() as u64);
            classify(case, h, &info);
            Ok(())
        });
    }
    let big = alphabet(4, 4, &[0, 1, 2, 3, 4, 5], &[0, 1, 2, 3, 4, 5], true);
    rep.campaign("random-long", env.cases(20_000, 600_000), (2, 45), move |case| {
        let n = case.ch.range(1, 40);
        let h: Vec<Op> = (0..n).map(|_| *case.ch.pick(&big)).collect();
        let info = run_history(&h)?;
        case.evals(h.len() as u64);
        classify(case, &h, &info);
        case.sample(|| json!(h.iter().map(|o| format!("{o:?}")).collect::<Vec<_>>()));
        Ok(())
    });
    rep.finish()
}

pub fn history_from_json(v: &Value) -> Vec<String> {
    v.as_array().map(|a| a.iter().filter_map(|x| x.as_str().map(String::from)).collect()).unwrap_or_default()
}
