//! C14 — declared exports match what the bundler loader exports at runtime.

use crate::abi;
use nitrogql_config_file::parse_config;
use nitrogql_printer::OperationTypePrinterOptions;
use serde_json::json;
use std::collections::BTreeMap;
use std::path::PathBuf;
use vh::choices::Choices;
use vh::gen_ops::*;
use vh::gen_schema::*;
use vh::gqljson;
use vh::model::*;
use vh::pipeline::*;
use vh::render::*;
use vh::runner::*;
use vh::tsmini::{self, Stmt};

#[derive(Clone, Debug, Default)]
pub struct Opts {
    pub mode: Option<&'static str>,
    pub default_export: Option<bool>,
    pub export_result: Option<bool>,
    pub export_variables: Option<bool>,
    pub capitalize: Option<bool>,
    pub suffixes: BTreeMap<&'static str, String>,
    /// custom scalars of the schema (the CLI's schema printer needs a TypeScript type for each)
    pub scalars: Vec<String>,
}

pub fn gen_opts(ch: &mut Choices) -> Opts {
    let mut o = Opts::default();
    if ch.chance(2, 3) {
        o.mode = Some(*ch.pick(&["with-loader-ts-5.0", "with-loader-ts-4.0", "standalone-ts-4.0"]));
    }
    if ch.chance(1, 2) {
        o.default_export = Some(ch.flip());
    }
    if ch.chance(1, 3) {
        o.export_result = Some(ch.flip());
    }
    if ch.chance(1, 3) {
        o.export_variables = Some(ch.flip());
    }
    if ch.chance(1, 2) {
        o.capitalize = Some(ch.flip());
    }
    for k in [
        "queryVariableSuffix",
        "mutationVariableSuffix",
        "subscriptionVariableSuffix",
        "fragmentVariableSuffix",
        "operationResultTypeSuffix",
        "variablesTypeSuffix",
        "fragmentTypeSuffix",
    ] {
        if ch.chance(1, 3) {
            o.suffixes.insert(k, ch.pick(&["", "Doc", "_x", "Q", "Operation"]).to_string());
        }
    }
    o
}

pub fn config_text(o: &Opts, as_json: bool) -> String {
    let mut generate = serde_json::Map::new();
    if let Some(m) = o.mode {
        generate.insert("mode".into(), json!(m));
    }
    generate.insert("schemaOutput".into(), json!("./schema.d.ts"));
    let mut export = serde_json::Map::new();
    if let Some(b) = o.default_export {
        export.insert("defaultExportForOperation".into(), json!(b));
    }
    if let Some(b) = o.export_result {
        export.insert("operationResultType".into(), json!(b));
    }
    if let Some(b) = o.export_variables {
        export.insert("variablesType".into(), json!(b));
    }
    if !export.is_empty() {
        generate.insert("export".into(), export.into());
    }
    let mut name = serde_json::Map::new();
    if let Some(b) = o.capitalize {
        name.insert("capitalizeOperationNames".into(), json!(b));
    }
    for (k, v) in &o.suffixes {
        name.insert((*k).into(), json!(v));
    }
    if !name.is_empty() {
        generate.insert("name".into(), name.into());
    }
    if !o.scalars.is_empty() {
        let m: serde_json::Map<String, serde_json::Value> = o.scalars.iter().map(|n| (n.clone(), json!("string"))).collect();
        generate.insert("type".into(), json!({"scalarTypes": m}));
    }
    let cfg = json!({"schema": "./schema.graphqls", "documents": "./**/*.graphql", "extensions": {"nitrogql": {"generate": generate}}});
    if as_json {
        serde_json::to_string_pretty(&cfg).unwrap()
    } else {
        // hand-written YAML rendering of the same structure
        fn y(v: &serde_json::Value, ind: usize, out: &mut String) {
            match v {
                serde_json::Value::Object(m) => {
                    for (k, x) in m {
                        out.push_str(&" ".repeat(ind));
                        out.push_str(k);
                        out.push(':');
                        match x {
                            serde_json::Value::Object(mm) if !mm.is_empty() => {
                                out.push('\n');
                                y(x, ind + 2, out);
                            }
                            _ => {
                                out.push(' ');
                                out.push_str(&x.to_string());
                                out.push('\n');
                            }
                        }
                    }
                }
                _ => {}
            }
        }
        let mut s = String::new();
        y(&cfg, 0, &mut s);
        s
    }
}

/// value exports of a module: exported name -> local const name; plus the const docs
pub struct Exports {
    pub names: BTreeMap<String, String>,
    pub consts: Vec<String>,
    pub docs: BTreeMap<String, MOpDoc>,
}

pub fn exports_of(src: &str) -> Result<Exports, String> {
    let stmts = tsmini::parse_module(src).map_err(|e| format!("module does not parse: {} at {}:{}", e.msg, e.line, e.col))?;
    let mut names = BTreeMap::new();
    let mut consts = vec![];
    let mut docs = BTreeMap::new();
    for s in &stmts {
        match s {
            Stmt::Const(c) => {
                consts.push(c.name.clone());
                if c.exported {
                    names.insert(c.name.clone(), c.name.clone());
                }
                if let Some(v) = &c.value {
                    if let Ok(d) = gqljson::r_document(v) {
                        docs.insert(c.name.clone(), d);
                    }
                }
            }
            Stmt::ExportList { items, type_only: false } => {
                for (a, b) in items {
                    names.insert(b.clone(), a.clone());
                }
            }
            _ => {}
        }
    }
    Ok(Exports { names, consts, docs })
}

fn case_fn(case: &mut Case) -> CaseResult {
    case_fn_mode(case, false)
}

/// `c12_mode`: judge the loader's module by the C12 oracle (every embedded document = the definition
/// followed by exactly the fragments it transitively spreads) instead of the C14 export oracle
fn case_fn_mode(case: &mut Case, c12_mode: bool) -> CaseResult {
    abi::init_once();
    let so = SchemaGenOpts::default();
    let gs = gen_schema(&mut case.ch, &so);
    let mut dopts = DocGenOpts::default();
    dopts.max_frags = 3;
    let (mut gd, _) = gen_doc(&mut case.ch, &gs.schema, &dopts);
    gd.doc = vh::props::c08::tame_exponential(case, &gs.schema, std::mem::take(&mut gd.doc));
    // lower-case some operation names so that capitalisation matters: the pools already mix
    let doc = gd.doc.clone();
    let mut opts = gen_opts(&mut case.ch);
    opts.scalars = gs.schema.of_kind(Kind::Scalar).iter().map(|t| t.name.clone()).collect();
    // precondition: every constant has a non-empty name. An anonymous operation is named by its
    // suffix alone, so an empty suffix is not a usable configuration for such a file.
    for d in &doc {
        if let MExecDef::Op(o) = d {
            if o.name.is_none() {
                let k = match o.op {
                    OpType::Query => "queryVariableSuffix",
                    OpType::Mutation => "mutationVariableSuffix",
                    OpType::Subscription => "subscriptionVariableSuffix",
                };
                for k in [k, "operationResultTypeSuffix", "variablesTypeSuffix"] {
                    if opts.suffixes.get(k).map(|s| s.is_empty()).unwrap_or(false) {
                        opts.suffixes.remove(k);
                    }
                }
            }
        }
    }
    let as_json = case.ch.chance(1, 3);
    let cfg_text = config_text(&opts, as_json);
    let schema_text = canon_ts(&gs.doc);
    // fragments (and some operations) are distributed over up to four files connected by #import lines
    // (chains, diamonds, cycles; by name or wildcard); the file under test is the main one
    let fsplit = vh::split::split_into_files(&mut case.ch, &doc);
    // a third of the projects are written with random legal trivia (block strings stay out: C07-block-string-raw)
    let wild = case.ch.chance(1, 3);
    if wild {
        case.label("source-with-random-trivia");
    }
    let files: Vec<(String, MOpDoc, String)> = fsplit
        .files
        .iter()
        .map(|(rel, m)| {
            let text = if wild {
                let mut r = RenderOpts::wild();
                r.allow_cooked_block = false;
                r.allow_block = false;
                        r.allow_shorthand = false;
                render_op_doc(m, r, Some(&mut case.ch)).text
            } else {
                canon_op(m)
            };
            (format!("/p/{rel}"), m.clone(), text)
        })
        .collect();
    let split = files.len() > 1;
    let main_doc: MOpDoc = files[0].1.clone();
    let main_text = files[0].2.clone();
    // every definition of the project (the models, not nitrogql's view)
    let all_defs: MOpDoc = files.iter().flat_map(|f| f.1.iter().filter(|d| !matches!(d, MExecDef::Import(_))).cloned()).collect();
    let files_json = json!(files.iter().map(|f| json!({"path": f.0, "text": f.2})).collect::<Vec<_>>());
    let detail = json!({"config": cfg_text, "schema": schema_text, "files": files_json});

    // declaration side, as cli/src/generate.rs builds it
    let config = guard(|| parse_config(&cfg_text)).map_err(|p| panic_failure("parse_config", &p, detail.clone()))?;
    let Some(config) = config else { return Err(Failure::new("harness:config-rejected", "generated config rejected", detail)) };
    let sfiles = vec![(PathBuf::from("/p/schema.graphql"), schema_text.clone())];
    let ofiles: Vec<(PathBuf, String)> = files.iter().map(|f| (PathBuf::from(&f.0), f.2.clone())).collect();
    let ss = schema_stage(&sfiles, &detail)?;
    if !ss.ok() {
        let d = ss.all_diags();
        return Err(Failure::new(format!("precondition:schema-rejected:{}", d[0].kind), format!("{:?}", d[0]), detail));
    }
    let sdoc = ss.doc.as_ref().unwrap();
    let os = op_stage(sdoc, 1, &ofiles, &detail)?;
    if let Some(d) = os.all_diags().first() {
        return Err(Failure::new(format!("precondition:document-rejected:{}", d.kind), format!("{:?}", d), detail));
    }
    let mut topts = OperationTypePrinterOptions::from_config(&config);
    topts.schema_source = "./schema.js".into();
    let mut dts = gen_operation_dts(sdoc, &os.files[0].doc, topts, None, &detail)?.buffer;
    // one case in four: the declaration file comes from the built CLI instead, regenerated in a directory that
    // already holds the output of another configuration (users change options and run `generate` again)
    if !c12_mode && std::path::Path::new(vh::cli::CLI_BIN).exists() && case.ch.chance(1, 4) {
        use vh::cli::{run_cli, Project};
        static BASE: std::sync::OnceLock<PathBuf> = std::sync::OnceLock::new();
        let base = BASE.get_or_init(|| vh::runner::work_dir("c14"));
        let proj = Project::new(base);
        let mut other_opts = gen_opts(&mut case.ch);
        other_opts.scalars = opts.scalars.clone();
        let other = config_text(&other_opts, false);
        proj.write("schema.graphqls", &schema_text);
        for f in &files {
            proj.write(f.0.trim_start_matches("/p/"), &f.2);
        }
        proj.write("graphql.config.yaml", &other);
        let r1 = run_cli(&proj.dir, &["generate", "--output-format", "json"]);
        // backdate nothing, change only the configuration
        proj.write("graphql.config.yaml", &if as_json { config_text(&opts, false) } else { cfg_text.clone() });
        // half of the second runs also give the schema output on the command line (the same path as in the
        // configuration): a documented way to start the command, which must not change any other option
        let with_flag = case.ch.flip();
        let r2 = if with_flag {
            case.label("cli-with-schema-output-flag");
            run_cli(&proj.dir, &["--schema-output", "./schema.d.ts", "generate", "--output-format", "json"])
        } else {
            run_cli(&proj.dir, &["generate", "--output-format", "json"])
        };
        let decl = match opts.mode.unwrap_or("with-loader-ts-5.0") {
            "with-loader-ts-5.0" => "main.d.graphql.ts",
            "with-loader-ts-4.0" => "main.graphql.d.ts",
            _ => "main.graphql.ts",
        };
        let text = proj.read(decl);
        let d2 = json!({"detail": detail, "first_config": other, "first_run": r1.stdout.chars().take(300).collect::<String>(), "second_run": r2.stdout.chars().take(300).collect::<String>(), "stderr": r2.stderr.chars().take(300).collect::<String>()});
        proj.remove();
        if r1.crashed() || r2.crashed() || r1.status != Some(0) || r2.status != Some(0) {
            return Err(Failure::new("cli-generate-failed", format!("generate exits {:?} then {:?} on a valid project", r1.status, r2.status), d2));
        }
        dts = text.ok_or_else(|| Failure::new("declaration-file-missing", format!("{decl} was not written"), d2))?;
        case.label("declaration-from-cli-after-config-change");
    }

    // loader side: same config text
    if !abi::load_config(&cfg_text) {
        return Err(Failure::new("loader-rejects-config", "load_config returned false for a config parse_config accepts", detail));
    }
    // bundlers process files concurrently: in half of the cases another file's task is started before this
    // one and finished (emitted, freed) while this one is still waiting for its imports, and a third one is
    // started after that; the module emitted for this file must not be affected
    let interleave = case.ch.flip();
    let other = if interleave {
        Some(abi::initiate_task("/p/other-a.graphql", "query AlphaOnly { __typename }\n").map_err(|e| Failure::new("loader-initiate-failed", e, detail.clone()))?)
    } else {
        None
    };
    let task = abi::initiate_task(&files[0].0, &main_text).map_err(|e| Failure::new("loader-initiate-failed", e, detail.clone()))?;
    let mut third = None;
    if let Some(o) = other {
        let _ = abi::get_required_files(o);
        let _ = abi::emit_js(o);
        abi::free_task(o);
        third = Some(abi::initiate_task("/p/other-c.graphql", "query GammaOnly { __typename }\n").map_err(|e| Failure::new("loader-initiate-failed", e, detail.clone()))?);
        case.label("interleaved-tasks");
    }
    let res = (|| -> Result<String, Failure> {
        let mut rounds = 0;
        loop {
            rounds += 1;
            let req = abi::get_required_files(task).map_err(|e| Failure::new("loader-required-failed", e, detail.clone()))?;
            if req.is_empty() {
                break;
            }
            if rounds > 12 {
                return Err(Failure::new("loader-required-files", format!("still asking for {req:?} after 12 rounds"), detail.clone()));
            }
            for r in req {
                let Some(f) = files.iter().find(|f| f.0 == r) else {
                    return Err(Failure::new("loader-required-files", format!("asked for {r}, which no import of the project denotes"), detail.clone()));
                };
                abi::load_file(task, &f.0, &f.2).map_err(|e| Failure::new("loader-load-failed", e, detail.clone()))?;
            }
        }
        abi::emit_js(task).map_err(|e| Failure::new("loader-emit-failed", e, detail.clone()))
    })();
    abi::free_task(task);
    if let Some(t) = third {
        abi::free_task(t);
    }
    let js = res?;
    let detail = json!({"config": cfg_text, "files": files_json, "dts": dts, "js": js});

    if c12_mode {
        use vh::props::c12::{check_embedded, embedded_documents};
        let source: Vec<MExecDef> = all_defs.clone();
        let frags = vh::gen_ops::frag_map(&source);
        let docs = embedded_documents(&js).map_err(|e| Failure::new("js-unreadable", e, detail.clone()))?;
        // (the module also holds constants for the imported fragments; each must satisfy the same oracle)
        let n_own = main_doc.iter().filter(|d| !matches!(d, MExecDef::Import(_))).count();
        if docs.len() < n_own {
            return Err(Failure::new("embedded-document-missing", format!("the loader's module embeds {} documents for {} definitions of the file", docs.len(), n_own), detail));
        }
        for (name, got) in &docs {
            case.evals(1);
            check_embedded(name, got, &source, &frags).map_err(|(sig, msg)| Failure::new(format!("{sig}:loader"), msg, detail.clone()))?;
        }
        if split {
            case.label("imported-fragments");
        }
        if interleave {
            case.label("interleaved-tasks");
        }
        if docs.iter().any(|(_, d)| d.len() >= 2) {
            case.nontrivial(&(&cfg_text, &main_text));
        }
        case.sample(|| json!({"config": cfg_text, "main.graphql": main_text, "embedded": docs.iter().map(|(n, d)| format!("{n}: {} definitions", d.len())).collect::<Vec<_>>()}));
        return Ok(());
    }
    let d_ex = exports_of(&dts).map_err(|e| Failure::new("dts-unreadable", e, detail.clone()))?;
    let j_ex = exports_of(&js).map_err(|e| Failure::new("js-unreadable", e, detail.clone()))?;
    // resolved document of the main file, in definition order
    let resolved: Vec<MExecDef> = {
        let order = vh::conv::c_op_doc(&os.files[0].doc, &mut vh::conv::PosSink::default());
        let mut out = vec![];
        for d in &order {
            let m = all_defs.iter().find(|x| match (x, d) {
                (MExecDef::Op(a), MExecDef::Op(b)) => a.name == b.name && a.op == b.op,
                (MExecDef::Frag(a), MExecDef::Frag(b)) => a.name == b.name,
                _ => false,
            });
            match m {
                Some(m) => out.push(m.clone()),
                None => return Err(Failure::new("resolved-definition-unknown", format!("the resolved main document holds {:?}, which no file defines", def_name(d)), detail)),
            }
        }
        out
    };
    {
        let mut seen = std::collections::BTreeSet::new();
        if d_ex.consts.iter().any(|c| !seen.insert(c.clone())) {
            // two definitions map to one constant name under this naming configuration
            // (e.g. query A with an empty suffix next to fragment A): not a usable configuration
            case.discard("constant-name-collision");
            return Ok(());
        }
    }
    if d_ex.consts.len() != resolved.len() {
        return Err(Failure::new(
            "dts-constant-count",
            format!("declaration file declares {} constants for {} definitions", d_ex.consts.len(), resolved.len()),
            detail,
        ));
    }
    for (exported, local) in &d_ex.names {
        case.evals(1);
        let Some(j_local) = j_ex.names.get(exported) else {
            return Err(Failure::new(
                if exported == "default" { "default-export-missing-at-runtime".to_string() } else { "named-export-missing-at-runtime".to_string() },
                format!("the declaration file exports value `{exported}` but the loader's module does not (it exports {:?})", j_ex.names.keys().collect::<Vec<_>>()),
                detail,
            ));
        };
        // which definition does the declared constant stand for? (k-th constant <-> k-th definition)
        let k = d_ex.consts.iter().position(|c| c == local).ok_or_else(|| Failure::new("dts-export-of-unknown-const", format!("export {exported} refers to undeclared {local}"), detail.clone()))?;
        let expected_def = &resolved[k];
        let Some(jdoc) = j_ex.docs.get(j_local) else {
            return Err(Failure::new("runtime-export-without-document", format!("runtime export `{exported}` carries no document"), detail));
        };
        let same = match (jdoc.first(), expected_def) {
            (Some(MExecDef::Op(a)), MExecDef::Op(b)) => a.name == b.name && a.op == b.op,
            (Some(MExecDef::Frag(a)), MExecDef::Frag(b)) => a.name == b.name,
            _ => false,
        };
        if !same {
            return Err(Failure::new(
                "export-carries-other-definition",
                format!("`{exported}` is declared for {:?} but at runtime carries {:?}", def_name(expected_def), jdoc.first().map(def_name)),
                detail,
            ));
        }
    }
    let non_default = [opts.mode.is_some(), opts.default_export.is_some(), opts.capitalize.is_some(), opts.export_result.is_some(), !opts.suffixes.is_empty()]
        .iter()
        .filter(|b| **b)
        .count();
    let has_both = doc.iter().any(|d| matches!(d, MExecDef::Frag(_))) && doc.iter().any(|d| matches!(d, MExecDef::Op(_)));
    if d_ex.names.contains_key("default") {
        case.label("default-export");
    }
    if split {
        case.label("imported-fragments");
    }
    if opts.capitalize == Some(false) {
        case.label("no-capitalisation");
    }
    if non_default >= 2 && has_both {
        case.nontrivial(&(&cfg_text, &main_text));
    }
    case.sample(|| json!({"config": cfg_text, "main.graphql": main_text, "declared_exports": d_ex.names, "runtime_exports": j_ex.names}));
    Ok(())
}

fn def_name(d: &MExecDef) -> String {
    match d {
        MExecDef::Op(o) => format!("{} {}", o.op.as_str(), o.name.clone().unwrap_or("<anonymous>".into())),
        MExecDef::Frag(f) => format!("fragment {}", f.name),
        MExecDef::Import(_) => "import".into(),
    }
}

pub fn run(env: &Env) -> i32 {
    let mut rep = Report::new(
        env,
        "exploration",
        "generated valid operation files (one or several operations, anonymous operation, fragments, optionally fragments imported from a second file) x configuration text drawn from the product mode(3) x defaultExportForOperation x capitalizeOperationNames x seven name suffixes in {default, \"\", custom} x operationResultType x variablesType, written as YAML or JSON. The same text goes to parse_config + OperationTypePrinterOptions::from_config (declaration side, as generate.rs) and to the loader's load_config (runtime side, through the native ABI). Oracle: every value export of the declaration file (named constants, default) is exported under the same name by the loader's module and carries the document whose first definition is the operation/fragment it was declared for. Non-trivial: >= 2 non-default options and the file has both an operation and a fragment.",
    );
    rep.assume("the k-th constant of the declaration file stands for the k-th definition of the resolved document (both printers share one traversal)");
    rep.campaign("configs", env.cases(15_000, 150_000), (300, 1500), case_fn);
    let _ = std::fs::remove_dir_all(format!("{}/work/c14-{}", vh::runner::VERIF, std::process::id()));
    rep.finish()
}

/// C12, loader route: the JSON documents embedded in the loader's JavaScript
pub fn run_c12(env: &Env) -> i32 {
    let mut rep = Report::new(
        env,
        "exploration",
        "loader route of C12: the generated valid operation files and configurations of the C14 check (fragments local or imported from a second file), emitted by the loader through the native ABI, in half of the cases while tasks for other files are started, finished and freed in between. Oracle: every document embedded in the module is one definition of the file followed by exactly the fragments it transitively spreads, each once and equal to its source (the C12 oracle of the in-process check, via the same independent graphql-js JSON reader). Non-trivial: an embedded document with >= 2 definitions.",
    );
    rep.campaign("loader-embedded-documents", env.cases(8_000, 100_000), (300, 1500), |case| case_fn_mode(case, true));
    rep.finish()
}
