//! vh-loader: checks that drive the bundler loader's extern "C" ABI (C14, C19).
//! A panic inside an extern "C" function aborts the process, so the checks run in a worker
//! subprocess; an abnormal worker exit is reported by the parent.

use vh_loader::{c08l, c13l, c14, c19};

use std::process::Command;
use vh::runner::{install_panic_hook, start_watchdog, Env, Tier, VERIF};

fn main() {
    let args: Vec<String> = std::env::args().collect();
    if args.len() < 2 {
        eprintln!("usage: vh-loader <C08|C14|C19> [--tier quick|thorough] [--replay FILE]");
        std::process::exit(2);
    }
    let prop = args[1].to_uppercase();
    if !args.iter().any(|a| a == "--worker") {
        // parent
        let status = Command::new(std::env::current_exe().unwrap()).args(&args[1..]).arg("--worker").status().expect("spawn worker");
        match status.code() {
            Some(c) if c != 77 => std::process::exit(c),
            _ => {
                // killed by a signal (abort): find the in-flight case by re-running with tracing
                println!("  worker died abnormally ({status}); re-running with in-flight tracing");
                let inflight = format!("{VERIF}/work/inflight-{}.json", std::process::id());
                let _ = std::fs::create_dir_all(format!("{VERIF}/work"));
                let st2 = Command::new(std::env::current_exe().unwrap())
                    .args(&args[1..])
                    .arg("--worker")
                    .env("VH_INFLIGHT", &inflight)
                    .env("VERIF_THREADS", "1")
                    .status()
                    .expect("spawn worker");
                let dir = format!("{VERIF}/replays/{prop}");
                let _ = std::fs::create_dir_all(&dir);
                let replay = format!("{dir}/abort-{}.json", std::process::id());
                if st2.code().is_none() || st2.code() == Some(77) {
                    let _ = std::fs::copy(&inflight, &replay);
                } else {
                    let _ = std::fs::write(&replay, "{\"note\": \"worker aborted; not reproduced single-threaded\"}");
                }
                let _ = std::fs::remove_file(&inflight);
                println!("  failure[abort] the loader ABI trapped/aborted the process (a panic crossing extern \"C\" or a memory fault)");
                println!("VIOLATION property={prop} replay={replay}");
                std::process::exit(1);
            }
        }
    }
    let rest: Vec<String> = args[2..].iter().filter(|a| *a != "--worker").cloned().collect();
    let env = Env::from_args(&prop, &rest);
    install_panic_hook();
    start_watchdog(if env.tier == Tier::Quick { 900 } else { 7200 }, &prop);
    println!("== {} tier={:?} seed={} threads={} ==", prop, env.tier, env.seed, env.threads);
    let code = match prop.as_str() {
        "C08" => c08l::run(&env),
        "C12" => c14::run_c12(&env),
        "C13" => c13l::run(&env),
        "C14" => c14::run(&env),
        "C19" => c19::run(&env),
        _ => {
            eprintln!("unknown property {prop}");
            2
        }
    };
    std::process::exit(code);
}
