//! C13 (loader route) — the bundler loader asks for exactly the files the import graph reaches and
//! emits iff the imports resolve.
//!
//! The same random import graphs as `vh C13` (cycles, diamonds, six path spellings, equal base names in
//! different directories, dangling targets, missing names) are driven through the loader ABI in
//! loader-core order: initiate_task(root), {get_required_files, load_file}*, emit_js. Oracle:
//! (1) every path the loader asks for is a file the reference reaches from the root by following import
//! lines resolved against the *importing* file (normalised), and every such file is asked for;
//! (2) emit_js succeeds iff the reference closure exists (no reachable dangling file, no missing name).

use crate::abi;
use serde_json::json;
use std::collections::BTreeSet;
use vh::props::c13::{file_paths_of, import_target_path, random_specs, ref_closure, render_file};
use vh::runner::*;

fn case_fn(case: &mut Case) -> CaseResult {
    abi::init_once();
    let (specs, paths) = random_specs(case);
    let n = specs.len();
    let texts: Vec<String> = (0..n).map(|i| render_file(i, &specs[i], &paths)).collect();
    let root = case.ch.below(n);
    let path_str = |i: usize| paths[i].to_string_lossy().to_string();
    let detail = json!({"files": (0..n).map(|i| json!({"path": path_str(i), "text": texts[i]})).collect::<Vec<_>>(), "root": root});
    if let Ok(p) = std::env::var("VH_INFLIGHT") {
        let _ = std::fs::write(&p, serde_json::to_string_pretty(&json!({"in_flight": detail, "choices": case.ch.data()})).unwrap());
    }
    // reference: files reachable from the root (by index, or a dangling path)
    let mut reach: BTreeSet<String> = BTreeSet::new();
    let mut dangling_reached = false;
    let mut stack = vec![root];
    let mut seen = BTreeSet::new();
    while let Some(i) = stack.pop() {
        if !seen.insert(i) {
            continue;
        }
        for l in &specs[i].imports {
            let p = import_target_path(l, &paths);
            if l.dangling {
                dangling_reached = true;
                reach.insert(p.to_string_lossy().to_string());
            } else {
                if l.target != root {
                    reach.insert(path_str(l.target));
                }
                stack.push(l.target);
            }
        }
    }
    let expected_ok = ref_closure(&specs, root).is_ok();
    abi::load_config("schema: s.graphql\n");
    let id = match abi::initiate_task(&path_str(root), &texts[root]) {
        Ok(id) => id,
        Err(e) => return Err(Failure::new("loader-rejects-root", format!("initiate_task failed on a parsable file: {e}"), detail)),
    };
    let mut asked: BTreeSet<String> = BTreeSet::new();
    let mut unreadable = false;
    let mut rounds = 0;
    loop {
        rounds += 1;
        let req = match abi::get_required_files(id) {
            Ok(r) => r,
            Err(e) => {
                abi::free_task(id);
                return Err(Failure::new("required-files-error", format!("get_required_files failed on a live task: {e}"), detail));
            }
        };
        if req.is_empty() || rounds > 20 {
            break;
        }
        let mut progressed = false;
        for f in req {
            if !asked.insert(f.clone()) {
                continue;
            }
            if !reach.contains(&f) {
                abi::free_task(id);
                return Err(Failure::new(
                    "loader-asks-for-unreachable-file",
                    format!("the loader asks for {f}, which no import line reachable from {} denotes (expected one of {reach:?})", path_str(root)),
                    detail,
                ));
            }
            match file_paths_of(&paths, &f) {
                Some(i) => {
                    progressed = true;
                    if let Err(e) = abi::load_file(id, &f, &texts[i]) {
                        abi::free_task(id);
                        return Err(Failure::new("loader-rejects-file", format!("load_file({f}) failed on a parsable file: {e}"), detail));
                    }
                }
                None => unreadable = true, // loader-core would fail to read it: the build stops here
            }
        }
        if !progressed {
            break;
        }
    }
    case.evals(1);
    if !unreadable {
        // every reachable file must have been asked for
        if let Some(m) = reach.iter().find(|r| !asked.contains(*r)) {
            abi::free_task(id);
            return Err(Failure::new("loader-never-asks-for-file", format!("{m} is imported (transitively) but the loader never asks for it"), detail));
        }
        let emitted = abi::emit_js(id);
        match (expected_ok, &emitted) {
            (true, Err(e)) => {
                abi::free_task(id);
                return Err(Failure::new("loader-spurious-import-error", format!("emit_js failed on a resolvable graph: {e}"), detail));
            }
            (false, Ok(_)) => {
                abi::free_task(id);
                return Err(Failure::new("loader-missed-import-error", "emit_js succeeded although an import names a missing fragment".to_string(), detail));
            }
            _ => {}
        }
        case.label(if expected_ok { "emitted" } else { "import-error" });
    } else {
        debug_assert!(dangling_reached);
        case.label("dangling-file");
    }
    abi::free_task(id);
    if reach.len() >= 2 {
        case.nontrivial(&(texts.clone(), root));
    }
    case.sample(|| detail.clone());
    Ok(())
}

pub fn run(env: &Env) -> i32 {
    let mut rep = Report::new(
        env,
        "exploration",
        "loader route of C13: random import graphs over 2-8 files (as vh C13: cycles, diamonds, self imports, specific and wildcard targets, six path spellings, equal base names in different directories, dangling targets, missing names), a random file as root, driven through the loader ABI in loader-core order. Oracle: the loader asks exactly for the files the reference reaches from the root (each import resolved against the importing file), and emit_js succeeds iff the reference closure exists. Non-trivial: >= 2 files reached.",
    );
    rep.assume("a file the loader asks for that is not among the documents cannot be supplied (loader-core fails to read it): the case ends there");
    rep.campaign("loader-graphs", env.cases(40_000, 600_000), (20, 400), case_fn);
    rep.finish()
}
