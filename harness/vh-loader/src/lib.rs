//! Library face of vh-loader: the loader-ABI wrappers, models and campaigns, shared by the `vh-loader`
//! binary and by the cargo-fuzz target `loader_history`.

pub mod abi;
pub mod c08l;
pub mod c13l;
pub mod c14;
pub mod c19;
