//! Safe wrappers around the loader's extern "C" ABI, passing strings exactly as
//! packages/loader-core does (alloc_string -> copy -> call -> free_string).

use std::sync::Once;

static INIT: Once = Once::new();

pub fn init_once() {
    INIT.call_once(|| loader_native::init(0));
}

struct Passed {
    ptr: *mut u8,
    len: usize,
}

impl Passed {
    fn new(s: &str) -> Passed {
        let len = s.len();
        let ptr = loader_native::alloc_string(len);
        unsafe { std::ptr::copy_nonoverlapping(s.as_ptr(), ptr, len) };
        Passed { ptr, len }
    }
}

impl Drop for Passed {
    fn drop(&mut self) {
        unsafe { loader_native::free_string(self.ptr, self.len) };
    }
}

/// read RESULT (only valid after a call that stored one)
pub fn read_result() -> String {
    let ptr = loader_native::get_result_ptr();
    let len = loader_native::get_result_size();
    let bytes = unsafe { std::slice::from_raw_parts(ptr, len) };
    String::from_utf8_lossy(bytes).into_owned()
}

pub fn load_config(text: &str) -> bool {
    let p = Passed::new(text);
    loader_native::load_config(p.ptr, p.len)
}

/// Ok(task id) or Err(message)
pub fn initiate_task(file: &str, source: &str) -> Result<usize, String> {
    let f = Passed::new(file);
    let s = Passed::new(source);
    let id = loader_native::initiate_task(f.ptr, f.len, s.ptr, s.len);
    if id == 0 { Err(read_result()) } else { Ok(id) }
}

pub fn get_required_files(task: usize) -> Result<Vec<String>, String> {
    if loader_native::get_required_files(task) {
        Ok(read_result().split('\n').filter(|s| !s.is_empty()).map(String::from).collect())
    } else {
        Err(read_result())
    }
}

pub fn load_file(task: usize, file: &str, source: &str) -> Result<(), String> {
    let f = Passed::new(file);
    let s = Passed::new(source);
    if loader_native::load_file(task, f.ptr, f.len, s.ptr, s.len) { Ok(()) } else { Err(read_result()) }
}

pub fn emit_js(task: usize) -> Result<String, String> {
    if loader_native::emit_js(task) { Ok(read_result()) } else { Err(read_result()) }
}

pub fn free_task(task: usize) {
    loader_native::free_task(task)
}
