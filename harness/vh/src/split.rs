//! Distribute one operation document over several files connected by `#import` lines.
//!
//! The input is a single-file document (valid or with injected faults); the output is a set of
//! files such that resolving the imports of any of them yields, for every operation, exactly
//! the fragments it needs: each file imports what its own definitions spread directly (by name: together
//! with the same-file fragments those spread, since a named import brings one definition only), so
//! chains (main -> lib0 -> lib1), diamonds (main -> lib0 -> lib1 and main -> lib1) and files in
//! different directories arise naturally. Fragment names stay unique across the project.

use crate::choices::Choices;
use crate::model::*;
use std::collections::{BTreeMap, BTreeSet};
use std::path::Path;

#[derive(Clone, Debug)]
pub struct FileSplit {
    /// (path relative to the operations directory, document) — file 0 holds the operations
    pub files: Vec<(String, MOpDoc)>,
    /// longest import chain (0 = no imports)
    pub max_chain: usize,
    /// some file is reachable from the main file along two different paths
    pub diamond: bool,
    pub specific_imports: bool,
    pub wildcard_imports: bool,
}

// the same base name in nested directories: equal specifier texts ("./sub/lib.graphql", "../lib.graphql") then denote
// different files depending on the importing file
const LIB_PATHS: [&str; 3] = ["lib.graphql", "sub/lib.graphql", "sub/sub/lib.graphql"];

fn direct_spreads(sels: &[MSelection], out: &mut BTreeSet<String>) {
    for s in sels {
        match s {
            MSelection::Field(f) => {
                if let Some(s) = &f.sel {
                    direct_spreads(s, out)
                }
            }
            MSelection::Spread { name, .. } => {
                out.insert(name.clone());
            }
            MSelection::Inline { sel, .. } => direct_spreads(sel, out),
        }
    }
}

/// spelling of the path of `to` as seen from file `from` (both relative to the same base)
fn spell(ch: &mut Choices, from: &str, to: &str) -> String {
    let rel = crate::props::c20::ref_relative(Path::new(&format!("/o/{from}")), Path::new(&format!("/o/{to}")));
    match ch.below(5) {
        0 | 1 | 2 => rel,
        3 => match rel.strip_prefix("./") {
            Some(r) => format!("./zz/../{r}"),
            None => rel,
        },
        _ => match rel.strip_prefix("./") {
            // bare path: relative to the importing file all the same
            Some(r) => r.to_string(),
            None => rel,
        },
    }
}

pub fn split_into_files(ch: &mut Choices, doc: &MOpDoc) -> FileSplit {
    split_into_files_forced(ch, doc, &[])
}

/// `forced`: (fragment name, library index 1..=3) pairs whose home file is fixed
pub fn split_into_files_forced(ch: &mut Choices, doc: &MOpDoc, forced: &[(String, usize)]) -> FileSplit {
    split_into_files_opts(ch, doc, forced, true)
}

/// `may_move_operations = false` keeps every operation in the main file (for callers whose oracle speaks about
/// one document, e.g. duplicate operation names)
pub fn split_into_files_opts(ch: &mut Choices, doc: &MOpDoc, forced: &[(String, usize)], may_move_operations: bool) -> FileSplit {
    let frag_names: Vec<String> = doc.iter().filter_map(|d| if let MExecDef::Frag(f) = d { Some(f.name.clone()) } else { None }).collect();
    let has_ops = doc.iter().any(|d| matches!(d, MExecDef::Op(_)));
    // with fragments present: a single file in 1 of 5 cases, else 1-3 library files
    let k = if frag_names.is_empty() || !has_ops || (forced.is_empty() && ch.chance(1, 5)) { 0 } else { (1 + ch.below(LIB_PATHS.len())).min(frag_names.len()) };
    let k = k.max(forced.iter().map(|f| f.1).max().unwrap_or(0)).min(LIB_PATHS.len());
    if k == 0 {
        return FileSplit { files: vec![("main.graphql".into(), doc.clone())], max_chain: 0, diamond: false, specific_imports: false, wildcard_imports: false };
    }
    // home file of each fragment: 0 = main, 1..=k = libs
    let mut home: BTreeMap<String, usize> = BTreeMap::new();
    // later fragments may spread earlier ones: placing them in definition order into ever deeper library
    // files (half of the time) makes import chains deep -> frags -> top, whose "../lib.graphql" specifiers
    // are textually equal but denote different files
    let ordered = ch.flip();
    // one time in six: fragments alternate between the main file and the libraries, so that several library
    // files import (different) fragments back from the main file while it is being expanded
    let back_refs = k >= 2 && ch.chance(1, 6);
    for (i, n) in frag_names.iter().enumerate() {
        let h = if back_refs {
            if i % 2 == 0 { 0 } else { 1 + (i / 2) % k }
        } else if ch.chance(1, 6) {
            0
        } else if ordered {
            // earlier fragments deeper: main -> sub/lib ("./sub/lib.graphql") -> sub/sub/lib ("./sub/lib.graphql")
            k - i.min(k - 1)
        } else {
            1 + ch.below(k)
        };
        let h = forced.iter().find(|f| &f.0 == n).map(|f| f.1).unwrap_or(h);
        home.insert(n.clone(), h);
    }
    let path_of = |i: usize| -> String { if i == 0 { "main.graphql".to_string() } else { LIB_PATHS[i - 1].to_string() } };
    let mut defs: Vec<MOpDoc> = vec![vec![]; k + 1];
    // operations live in the main file, except that (one time in four) the operations after the first go to
    // library files, ahead of the fragments there (an imported file may hold operations too; their names live
    // in another name space than fragment names)
    let spread_ops = may_move_operations && ch.chance(1, 4);
    let mut n_ops = 0;
    for d in doc {
        match d {
            MExecDef::Op(_) => {
                n_ops += 1;
                if spread_ops && n_ops > 1 {
                    let h = 1 + ch.below(k);
                    defs[h].insert(0, d.clone());
                } else {
                    defs[0].push(d.clone());
                }
            }
            MExecDef::Frag(f) => defs[home[&f.name]].push(d.clone()),
            // imports of the original document (none for generated ones) stay in the main file
            MExecDef::Import(_) => defs[0].push(d.clone()),
        }
    }
    // needs[f][g] = names defined in g that f spreads directly
    let mut needs: Vec<BTreeMap<usize, BTreeSet<String>>> = vec![BTreeMap::new(); k + 1];
    for (f, ds) in defs.iter().enumerate() {
        let mut spread = BTreeSet::new();
        for d in ds {
            match d {
                MExecDef::Op(o) => direct_spreads(&o.sel, &mut spread),
                MExecDef::Frag(fr) => direct_spreads(&fr.sel, &mut spread),
                MExecDef::Import(_) => {}
            }
        }
        for n in spread {
            if let Some(&g) = home.get(&n) {
                if g != f {
                    needs[f].entry(g).or_default().insert(n);
                }
            }
        }
    }
    let mut specific_imports = false;
    let mut wildcard_imports = false;
    let mut files = vec![];
    for f in 0..=k {
        if f != 0 && defs[f].is_empty() {
            continue;
        }
        let mut out: MOpDoc = vec![];
        for (g, names) in &needs[f] {
            let targets: Vec<Option<String>> = if ch.chance(1, 3) {
                wildcard_imports = true;
                vec![None]
            } else {
                specific_imports = true;
                // importing a fragment by name brings that definition only (plus whatever the imported
                // file itself imports): the fragments of the same file it spreads must be named too
                let mut closure: BTreeSet<String> = names.clone();
                loop {
                    let mut add = BTreeSet::new();
                    for d in &defs[*g] {
                        if let MExecDef::Frag(fr) = d {
                            if closure.contains(&fr.name) {
                                let mut sp = BTreeSet::new();
                                direct_spreads(&fr.sel, &mut sp);
                                for n in sp {
                                    if home.get(&n) == Some(g) && !closure.contains(&n) {
                                        add.insert(n);
                                    }
                                }
                            }
                        }
                    }
                    if add.is_empty() {
                        break;
                    }
                    closure.extend(add);
                }
                closure.into_iter().map(Some).collect()
            };
            out.push(MExecDef::Import(MImport { targets, path: spell(ch, &path_of(f), &path_of(*g)) }));
        }
        out.extend(defs[f].iter().cloned());
        files.push((path_of(f), out));
    }
    // graph statistics over file indices
    let succ = |f: usize| -> Vec<usize> { needs[f].keys().copied().collect() };
    fn longest(f: usize, succ: &dyn Fn(usize) -> Vec<usize>, seen: &mut Vec<usize>) -> usize {
        if seen.contains(&f) {
            return 0;
        }
        seen.push(f);
        let m = succ(f).into_iter().map(|g| 1 + longest(g, succ, seen)).max().unwrap_or(0);
        seen.pop();
        m
    }
    let max_chain = longest(0, &succ, &mut vec![]);
    // number of distinct simple paths from main to each file
    fn count_paths(f: usize, target: usize, succ: &dyn Fn(usize) -> Vec<usize>, seen: &mut Vec<usize>) -> usize {
        if f == target {
            return 1;
        }
        if seen.contains(&f) {
            return 0;
        }
        seen.push(f);
        let n = succ(f).into_iter().map(|g| count_paths(g, target, succ, seen)).sum();
        seen.pop();
        n
    }
    let diamond = (1..=k).any(|t| count_paths(0, t, &succ, &mut vec![]) >= 2);
    FileSplit { files, max_chain, diamond, specific_imports, wildcard_imports }
}
