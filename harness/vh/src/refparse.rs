//! Reference GraphQL lexer / parser written from the October-2021 specification
//! (+ `\u{...}` escapes of the current draft, + nitrogql's `#import` extension).
//! Independent of nitrogql's pest grammar; produces the abstract model and a token table.

use crate::model::*;

#[derive(Clone, Debug, PartialEq, Eq)]
pub enum T {
    Punct(&'static str),
    Name(String),
    Int(String),
    Float(String),
    Str(String),
    /// `#import` line start (only when the extension is enabled)
    ImportHash,
    Star,
    Eof,
}

#[derive(Clone, Debug)]
pub struct LTok {
    pub t: T,
    pub line: usize,
    pub col: usize,
    pub col16: usize,
    pub byte: usize,
    pub len_chars: usize,
    pub len16: usize,
    pub raw: String,
}

#[derive(Clone, Debug, PartialEq, Eq)]
pub struct PErr {
    pub msg: String,
    pub line: usize,
    pub col: usize,
}

struct Lexer<'a> {
    chars: Vec<char>,
    i: usize,
    line: usize,
    col: usize,
    col16: usize,
    byte: usize,
    ext_import: bool,
    /// byte offsets of `#` characters whose line is a plain comment even though it reads as an import statement
    /// (import-like lines inside a definition; decided by the parser, see `parse_op_doc`)
    forced_comment: std::collections::BTreeSet<usize>,
    _src: &'a str,
}

fn is_name_start(c: char) -> bool {
    c.is_ascii_alphabetic() || c == '_'
}
fn is_name_cont(c: char) -> bool {
    c.is_ascii_alphanumeric() || c == '_'
}

impl<'a> Lexer<'a> {
    fn peek(&self, k: usize) -> Option<char> {
        self.chars.get(self.i + k).copied()
    }
    fn adv(&mut self) -> Option<char> {
        let c = self.chars.get(self.i).copied()?;
        self.i += 1;
        self.byte += c.len_utf8();
        match c {
            '\n' => {
                self.line += 1;
                self.col = 0;
                self.col16 = 0;
            }
            '\r' => {
                if self.peek(0) == Some('\n') {
                    self.col += 1;
                    self.col16 += 1;
                } else {
                    self.line += 1;
                    self.col = 0;
                    self.col16 = 0;
                }
            }
            c => {
                self.col += 1;
                self.col16 += c.len_utf16();
            }
        }
        Some(c)
    }
    fn err<X>(&self, msg: &str) -> Result<X, PErr> {
        Err(PErr { msg: msg.to_string(), line: self.line, col: self.col })
    }

    /// does the comment body starting at self.i (just after '#') look like an import line?
    /// nitrogql: "#" " "* import <targets> from <string>
    fn import_ahead(&self) -> bool {
        if !self.ext_import {
            return false;
        }
        let mut k = 0;
        while self.peek(k) == Some(' ') {
            k += 1;
        }
        let word: String = (0..6).filter_map(|j| self.peek(k + j)).collect();
        if word != "import" {
            return false;
        }
        if let Some(c) = self.peek(k + 6) {
            if is_name_cont(c) {
                return false;
            }
        }
        // mini-lexer over the rest of the line: (Name | '*')+ 'from' '"'
        let mut j = k + 6;
        let mut targets = 0;
        loop {
            while matches!(self.peek(j), Some(' ') | Some('\t') | Some(',') | Some('\u{FEFF}')) {
                j += 1;
            }
            match self.peek(j) {
                Some('*') => {
                    targets += 1;
                    j += 1;
                }
                Some(c) if is_name_start(c) => {
                    let mut w = String::new();
                    while let Some(c) = self.peek(j) {
                        if is_name_cont(c) {
                            w.push(c);
                            j += 1;
                        } else {
                            break;
                        }
                    }
                    // `from` is always the keyword (nitrogql: a fragment of that name cannot be imported by name)
                    if w == "from" {
                        if targets == 0 {
                            return false;
                        }
                        while matches!(self.peek(j), Some(' ') | Some('\t') | Some(',') | Some('\u{FEFF}')) {
                            j += 1;
                        }
                        return self.peek(j) == Some('"');
                    }
                    targets += 1;
                }
                _ => return false,
            }
        }
    }

    fn lex(mut self) -> Result<Vec<LTok>, PErr> {
        let mut out: Vec<LTok> = vec![];
        self.lex_into(&mut out)?;
        Ok(out)
    }

    /// tokens lexed before a lexical error stay in `out`
    fn lex_into(&mut self, out: &mut Vec<LTok>) -> Result<(), PErr> {
        let mut in_import_line = false;
        loop {
            // ignored
            loop {
                match self.peek(0) {
                    Some('\u{FEFF}') | Some('\t') | Some(' ') | Some(',') => {
                        self.adv();
                    }
                    Some('\n') | Some('\r') => {
                        in_import_line = false;
                        self.adv();
                    }
                    Some('#') => {
                        // comment or import
                        // (a second statement may follow on the same line: nitrogql takes an import statement
                        // wherever a definition may start, not only at the start of a line)
                        if !self.forced_comment.contains(&self.byte) && {
                            let save = self.i;
                            self.i += 1;
                            let r = self.import_ahead();
                            self.i = save;
                            r
                        } {
                            break;
                        }
                        while let Some(c) = self.peek(0) {
                            if c == '\n' || c == '\r' {
                                break;
                            }
                            self.adv();
                        }
                    }
                    _ => break,
                }
            }
            let (line, col, col16, byte, start_i) = (self.line, self.col, self.col16, self.byte, self.i);
            let Some(c) = self.peek(0) else {
                out.push(LTok { t: T::Eof, line, col, col16, byte, len_chars: 0, len16: 0, raw: String::new() });
                return Ok(());
            };
            let t = match c {
                '#' => {
                    self.adv();
                    in_import_line = true;
                    T::ImportHash
                }
                '*' if in_import_line => {
                    self.adv();
                    T::Star
                }
                '!' => { self.adv(); T::Punct("!") }
                '$' => { self.adv(); T::Punct("$") }
                '&' => { self.adv(); T::Punct("&") }
                '(' => { self.adv(); T::Punct("(") }
                ')' => { self.adv(); T::Punct(")") }
                ':' => { self.adv(); T::Punct(":") }
                '=' => { self.adv(); T::Punct("=") }
                '@' => { self.adv(); T::Punct("@") }
                '[' => { self.adv(); T::Punct("[") }
                ']' => { self.adv(); T::Punct("]") }
                '{' => { self.adv(); T::Punct("{") }
                '|' => { self.adv(); T::Punct("|") }
                '}' => { self.adv(); T::Punct("}") }
                '.' => {
                    if self.peek(1) == Some('.') && self.peek(2) == Some('.') {
                        self.adv(); self.adv(); self.adv();
                        T::Punct("...")
                    } else {
                        return self.err("unexpected '.'");
                    }
                }
                c if is_name_start(c) => {
                    let mut s = String::new();
                    while let Some(c) = self.peek(0) {
                        if is_name_cont(c) { s.push(c); self.adv(); } else { break; }
                    }
                    T::Name(s)
                }
                c if c == '-' || c.is_ascii_digit() => self.number()?,
                '"' => self.string()?,
                _ => return self.err(&format!("unexpected character {c:?}")),
            };
            let raw: String = self.chars[start_i..self.i].iter().collect();
            out.push(LTok {
                t,
                line,
                col,
                col16,
                byte,
                len_chars: self.i - start_i,
                len16: raw.encode_utf16().count(),
                raw,
            });
        }
    }

    fn number(&mut self) -> Result<T, PErr> {
        let mut s = String::new();
        if self.peek(0) == Some('-') {
            s.push('-');
            self.adv();
        }
        match self.peek(0) {
            Some('0') => {
                s.push('0');
                self.adv();
                if matches!(self.peek(0), Some(c) if c.is_ascii_digit()) {
                    return self.err("leading zero");
                }
            }
            Some(c) if c.is_ascii_digit() => {
                while let Some(c) = self.peek(0) {
                    if c.is_ascii_digit() { s.push(c); self.adv(); } else { break; }
                }
            }
            _ => return self.err("digit expected"),
        }
        let mut is_float = false;
        if self.peek(0) == Some('.') {
            // FractionalPart: . Digit+
            if !matches!(self.peek(1), Some(c) if c.is_ascii_digit()) {
                return self.err("digit expected after '.'");
            }
            is_float = true;
            s.push('.');
            self.adv();
            while let Some(c) = self.peek(0) {
                if c.is_ascii_digit() { s.push(c); self.adv(); } else { break; }
            }
        }
        if matches!(self.peek(0), Some('e') | Some('E')) {
            is_float = true;
            s.push(self.adv().unwrap());
            if matches!(self.peek(0), Some('+') | Some('-')) {
                s.push(self.adv().unwrap());
            }
            if !matches!(self.peek(0), Some(c) if c.is_ascii_digit()) {
                return self.err("digit expected in exponent");
            }
            while let Some(c) = self.peek(0) {
                if c.is_ascii_digit() { s.push(c); self.adv(); } else { break; }
            }
        }
        // lookahead restriction
        if let Some(c) = self.peek(0) {
            if c == '.' || is_name_start(c) || c.is_ascii_digit() {
                return self.err("invalid character after number");
            }
        }
        Ok(if is_float { T::Float(s) } else { T::Int(s) })
    }

    fn hex4(&mut self) -> Result<u32, PErr> {
        let mut v = 0u32;
        for _ in 0..4 {
            let Some(c) = self.peek(0) else { return self.err("eof in escape") };
            let Some(d) = c.to_digit(16) else { return self.err("bad hex digit") };
            v = v * 16 + d;
            self.adv();
        }
        Ok(v)
    }

    fn string(&mut self) -> Result<T, PErr> {
        // at '"'
        if self.peek(1) == Some('"') && self.peek(2) == Some('"') {
            self.adv(); self.adv(); self.adv();
            let mut raw = String::new();
            loop {
                match self.peek(0) {
                    None => return self.err("unterminated block string"),
                    Some('"') if self.peek(1) == Some('"') && self.peek(2) == Some('"') => {
                        self.adv(); self.adv(); self.adv();
                        break;
                    }
                    Some('\\') if self.peek(1) == Some('"') && self.peek(2) == Some('"') && self.peek(3) == Some('"') => {
                        self.adv(); self.adv(); self.adv(); self.adv();
                        raw.push_str("\"\"\"");
                    }
                    Some(c) => {
                        raw.push(c);
                        self.adv();
                    }
                }
            }
            return Ok(T::Str(block_string_value(&raw)));
        }
        self.adv();
        let mut s = String::new();
        loop {
            let Some(c) = self.peek(0) else { return self.err("unterminated string") };
            match c {
                '"' => {
                    self.adv();
                    break;
                }
                '\n' | '\r' => return self.err("line terminator in string"),
                '\\' => {
                    self.adv();
                    let Some(e) = self.adv() else { return self.err("eof in escape") };
                    match e {
                        '"' => s.push('"'),
                        '\\' => s.push('\\'),
                        '/' => s.push('/'),
                        'b' => s.push('\u{8}'),
                        'f' => s.push('\u{c}'),
                        'n' => s.push('\n'),
                        'r' => s.push('\r'),
                        't' => s.push('\t'),
                        'u' => {
                            if self.peek(0) == Some('{') {
                                self.adv();
                                let mut v: u32 = 0;
                                let mut n = 0;
                                loop {
                                    let Some(c) = self.adv() else { return self.err("eof in escape") };
                                    if c == '}' { break; }
                                    let Some(d) = c.to_digit(16) else { return self.err("bad hex digit") };
                                    v = v.saturating_mul(16).saturating_add(d);
                                    n += 1;
                                }
                                if n == 0 { return self.err("empty \\u{}"); }
                                match char::from_u32(v) {
                                    Some(ch) => s.push(ch),
                                    None => return self.err("invalid code point"),
                                }
                            } else {
                                let v = self.hex4()?;
                                if (0xD800..0xDC00).contains(&v) {
                                    // leading surrogate: must be followed by \uDC00-\uDFFF
                                    if self.peek(0) == Some('\\') && self.peek(1) == Some('u') {
                                        self.adv(); self.adv();
                                        let lo = self.hex4()?;
                                        if !(0xDC00..0xE000).contains(&lo) {
                                            return self.err("invalid surrogate pair");
                                        }
                                        let cp = 0x10000 + ((v - 0xD800) << 10) + (lo - 0xDC00);
                                        s.push(char::from_u32(cp).unwrap());
                                    } else {
                                        return self.err("lone leading surrogate");
                                    }
                                } else if (0xDC00..0xE000).contains(&v) {
                                    return self.err("lone trailing surrogate");
                                } else {
                                    s.push(char::from_u32(v).unwrap());
                                }
                            }
                        }
                        _ => return self.err("unknown escape"),
                    }
                }
                c => {
                    s.push(c);
                    self.adv();
                }
            }
        }
        Ok(T::Str(s))
    }
}

/// BlockStringValue(rawValue) of the specification.
pub fn block_string_value(raw: &str) -> String {
    // split on line terminators \r\n | \n | \r
    let mut lines: Vec<String> = vec![];
    let mut cur = String::new();
    let cs: Vec<char> = raw.chars().collect();
    let mut i = 0;
    while i < cs.len() {
        match cs[i] {
            '\r' => {
                if cs.get(i + 1) == Some(&'\n') {
                    i += 1;
                }
                lines.push(std::mem::take(&mut cur));
            }
            '\n' => lines.push(std::mem::take(&mut cur)),
            c => cur.push(c),
        }
        i += 1;
    }
    lines.push(cur);
    let is_ws = |c: char| c == ' ' || c == '\t';
    let mut common: Option<usize> = None;
    for l in lines.iter().skip(1) {
        let len = l.chars().count();
        let indent = l.chars().take_while(|c| is_ws(*c)).count();
        if indent < len && common.map_or(true, |c| indent < c) {
            common = Some(indent);
        }
    }
    if let Some(c) = common {
        for l in lines.iter_mut().skip(1) {
            let n = l.chars().count().min(c);
            // remove min(c, len) characters (they are all whitespace when line is blank-short)
            let byte = l.char_indices().nth(n).map(|x| x.0).unwrap_or(l.len());
            *l = l[byte..].to_string();
        }
    }
    while lines.first().map(|l| l.chars().all(is_ws)).unwrap_or(false) {
        lines.remove(0);
    }
    while lines.last().map(|l| l.chars().all(is_ws)).unwrap_or(false) {
        lines.pop();
    }
    lines.join("\n")
}

/// Token table of a text. With `ext_import`, every line that reads as an import statement yields import tokens
/// (callers that need the parser's view of such lines inside definitions use `parse_op_doc`).
pub fn lex(src: &str, ext_import: bool) -> Result<Vec<LTok>, PErr> {
    Lexer {
        chars: src.chars().collect(),
        i: 0,
        line: 0,
        col: 0,
        col16: 0,
        byte: 0,
        ext_import,
        forced_comment: Default::default(),
        _src: src,
    }
    .lex()
}

fn lex_partial(src: &str, forced: &std::collections::BTreeSet<usize>) -> (Vec<LTok>, Option<PErr>) {
    let mut lx = Lexer { chars: src.chars().collect(), i: 0, line: 0, col: 0, col16: 0, byte: 0, ext_import: true, forced_comment: forced.clone(), _src: src };
    let mut out = vec![];
    let e = lx.lex_into(&mut out).err();
    if e.is_some() {
        out.push(LTok { t: T::Eof, line: lx.line, col: lx.col, col16: lx.col16, byte: lx.byte, len_chars: 0, len16: 0, raw: String::new() });
    }
    (out, e)
}

// ---------------------------------------------------------------------------

pub struct Parser {
    toks: Vec<LTok>,
    i: usize,
    /// byte offset of an import-like line met where no definition can start
    nested_import: std::cell::Cell<Option<usize>>,
}

type R<X> = Result<X, PErr>;

impl Parser {
    fn peek(&self) -> &T {
        &self.toks[self.i].t
    }
    fn peek_at(&self, k: usize) -> &T {
        &self.toks[(self.i + k).min(self.toks.len() - 1)].t
    }
    fn err<X>(&self, msg: &str) -> R<X> {
        let t = &self.toks[self.i];
        if t.t == T::ImportHash && self.nested_import.get().is_none() {
            self.nested_import.set(Some(t.byte));
        }
        Err(PErr { msg: format!("{msg}, found {:?}", t.t), line: t.line, col: t.col })
    }
    fn bump(&mut self) -> T {
        let t = self.toks[self.i].t.clone();
        if self.i + 1 < self.toks.len() {
            self.i += 1;
        }
        t
    }
    fn is_p(&self, p: &str) -> bool {
        matches!(self.peek(), T::Punct(q) if *q == p)
    }
    fn eat_p(&mut self, p: &str) -> bool {
        if self.is_p(p) {
            self.bump();
            true
        } else {
            false
        }
    }
    fn expect_p(&mut self, p: &str) -> R<()> {
        if self.eat_p(p) { Ok(()) } else { self.err(&format!("expected '{p}'")) }
    }
    fn is_kw(&self, k: &str) -> bool {
        matches!(self.peek(), T::Name(n) if n == k)
    }
    fn eat_kw(&mut self, k: &str) -> bool {
        if self.is_kw(k) {
            self.bump();
            true
        } else {
            false
        }
    }
    fn expect_kw(&mut self, k: &str) -> R<()> {
        if self.eat_kw(k) { Ok(()) } else { self.err(&format!("expected '{k}'")) }
    }
    fn name(&mut self) -> R<String> {
        match self.peek().clone() {
            T::Name(n) => {
                self.bump();
                Ok(n)
            }
            _ => self.err("expected Name"),
        }
    }

    fn ty(&mut self) -> R<MType> {
        let inner = if self.eat_p("[") {
            let t = self.ty()?;
            self.expect_p("]")?;
            MType::List(Box::new(t))
        } else {
            MType::Named(self.name()?)
        };
        if self.eat_p("!") {
            Ok(MType::NonNull(Box::new(inner)))
        } else {
            Ok(inner)
        }
    }

    fn value(&mut self, is_const: bool) -> R<MValue> {
        match self.peek().clone() {
            T::Punct("$") => {
                if is_const {
                    return self.err("variable in const context");
                }
                self.bump();
                Ok(MValue::Var(self.name()?))
            }
            T::Int(s) => {
                self.bump();
                Ok(MValue::Int(s))
            }
            T::Float(s) => {
                self.bump();
                Ok(MValue::Float(s))
            }
            T::Str(s) => {
                self.bump();
                Ok(MValue::Str(s))
            }
            T::Name(n) => {
                self.bump();
                Ok(match n.as_str() {
                    "true" => MValue::Bool(true),
                    "false" => MValue::Bool(false),
                    "null" => MValue::Null,
                    _ => MValue::Enum(n),
                })
            }
            T::Punct("[") => {
                self.bump();
                let mut vs = vec![];
                while !self.is_p("]") {
                    vs.push(self.value(is_const)?);
                }
                self.bump();
                Ok(MValue::List(vs))
            }
            T::Punct("{") => {
                self.bump();
                let mut fs = vec![];
                while !self.is_p("}") {
                    let k = self.name()?;
                    self.expect_p(":")?;
                    fs.push((k, self.value(is_const)?));
                }
                self.bump();
                Ok(MValue::Object(fs))
            }
            _ => self.err("expected Value"),
        }
    }

    fn args(&mut self, is_const: bool) -> R<MArgs> {
        let mut out = vec![];
        if self.eat_p("(") {
            if self.is_p(")") {
                return self.err("empty arguments");
            }
            while !self.is_p(")") {
                let k = self.name()?;
                self.expect_p(":")?;
                out.push((k, self.value(is_const)?));
            }
            self.bump();
        }
        Ok(out)
    }

    fn directives(&mut self, is_const: bool) -> R<Vec<MDirective>> {
        let mut out = vec![];
        while self.eat_p("@") {
            let name = self.name()?;
            out.push(MDirective { name, args: self.args(is_const)? });
        }
        Ok(out)
    }

    fn selection_set(&mut self) -> R<Vec<MSelection>> {
        self.expect_p("{")?;
        if self.is_p("}") {
            return self.err("empty selection set");
        }
        let mut out = vec![];
        while !self.is_p("}") {
            if self.eat_p("...") {
                if self.is_kw("on") {
                    self.bump();
                    let on = self.name()?;
                    let directives = self.directives(false)?;
                    let sel = self.selection_set()?;
                    out.push(MSelection::Inline { on: Some(on), directives, sel });
                } else if matches!(self.peek(), T::Name(_)) {
                    let name = self.name()?;
                    out.push(MSelection::Spread { name, directives: self.directives(false)? });
                } else {
                    let directives = self.directives(false)?;
                    let sel = self.selection_set()?;
                    out.push(MSelection::Inline { on: None, directives, sel });
                }
            } else {
                let first = self.name()?;
                let (alias, name) = if self.eat_p(":") {
                    (Some(first), self.name()?)
                } else {
                    (None, first)
                };
                let args = self.args(false)?;
                let directives = self.directives(false)?;
                let sel = if self.is_p("{") { Some(self.selection_set()?) } else { None };
                out.push(MSelection::Field(MFieldSel { alias, name, args, directives, sel }));
            }
        }
        self.bump();
        Ok(out)
    }

    fn exec_def(&mut self) -> R<MExecDef> {
        match self.peek().clone() {
            T::ImportHash => {
                self.bump();
                self.expect_kw("import")?;
                let mut targets = vec![];
                loop {
                    match self.peek().clone() {
                        T::Star => {
                            self.bump();
                            targets.push(None);
                        }
                        T::Name(n) if n == "from" && !targets.is_empty() => break,
                        T::Name(n) => {
                            self.bump();
                            targets.push(Some(n));
                        }
                        _ => return self.err("expected import target"),
                    }
                }
                self.expect_kw("from")?;
                match self.bump() {
                    T::Str(p) => Ok(MExecDef::Import(MImport { targets, path: p })),
                    _ => self.err("expected import path"),
                }
            }
            T::Punct("{") => Ok(MExecDef::Op(MOperation {
                op: OpType::Query,
                name: None,
                vars: vec![],
                directives: vec![],
                sel: self.selection_set()?,
                shorthand: false,
            })),
            T::Name(n) if n == "fragment" => {
                self.bump();
                let name = self.name()?;
                if name == "on" {
                    return self.err("fragment cannot be named 'on'");
                }
                self.expect_kw("on")?;
                let on = self.name()?;
                let directives = self.directives(false)?;
                let sel = self.selection_set()?;
                Ok(MExecDef::Frag(MFragment { name, on, directives, sel }))
            }
            T::Name(n) if n == "query" || n == "mutation" || n == "subscription" => {
                self.bump();
                let op = match n.as_str() {
                    "query" => OpType::Query,
                    "mutation" => OpType::Mutation,
                    _ => OpType::Subscription,
                };
                let name = if matches!(self.peek(), T::Name(_)) { Some(self.name()?) } else { None };
                let mut vars = vec![];
                if self.eat_p("(") {
                    if self.is_p(")") {
                        return self.err("empty variable definitions");
                    }
                    while !self.is_p(")") {
                        self.expect_p("$")?;
                        let vname = self.name()?;
                        self.expect_p(":")?;
                        let ty = self.ty()?;
                        let default = if self.eat_p("=") { Some(self.value(true)?) } else { None };
                        let directives = self.directives(true)?;
                        vars.push(MVarDef { name: vname, ty, default, directives });
                    }
                    self.bump();
                }
                let directives = self.directives(false)?;
                let sel = self.selection_set()?;
                Ok(MExecDef::Op(MOperation { op, name, vars, directives, sel, shorthand: false }))
            }
            _ => self.err("expected executable definition"),
        }
    }

    fn desc(&mut self) -> Option<String> {
        if let T::Str(s) = self.peek().clone() {
            self.bump();
            Some(s)
        } else {
            None
        }
    }

    fn input_value(&mut self) -> R<MInputValue> {
        let desc = self.desc();
        let name = self.name()?;
        self.expect_p(":")?;
        let ty = self.ty()?;
        let default = if self.eat_p("=") { Some(self.value(true)?) } else { None };
        let directives = self.directives(true)?;
        Ok(MInputValue { desc, name, ty, default, directives })
    }

    fn arg_defs(&mut self) -> R<Vec<MInputValue>> {
        let mut out = vec![];
        if self.eat_p("(") {
            if self.is_p(")") {
                return self.err("empty arguments definition");
            }
            while !self.is_p(")") {
                out.push(self.input_value()?);
            }
            self.bump();
        }
        Ok(out)
    }

    fn fields_def(&mut self) -> R<Vec<MField>> {
        let mut out = vec![];
        if self.eat_p("{") {
            if self.is_p("}") {
                return self.err("empty fields definition");
            }
            while !self.is_p("}") {
                let desc = self.desc();
                let name = self.name()?;
                let args = self.arg_defs()?;
                self.expect_p(":")?;
                let ty = self.ty()?;
                let directives = self.directives(true)?;
                out.push(MField { desc, name, args, ty, directives });
            }
            self.bump();
        }
        Ok(out)
    }

    fn implements(&mut self) -> R<Vec<String>> {
        let mut out = vec![];
        if self.eat_kw("implements") {
            self.eat_p("&");
            out.push(self.name()?);
            while self.eat_p("&") {
                out.push(self.name()?);
            }
        }
        Ok(out)
    }

    fn roots(&mut self) -> R<Vec<(OpType, String)>> {
        let mut out = vec![];
        if self.eat_p("{") {
            if self.is_p("}") {
                return self.err("empty root operation types");
            }
            while !self.is_p("}") {
                let op = match self.name()?.as_str() {
                    "query" => OpType::Query,
                    "mutation" => OpType::Mutation,
                    "subscription" => OpType::Subscription,
                    _ => return self.err("expected operation type"),
                };
                self.expect_p(":")?;
                out.push((op, self.name()?));
            }
            self.bump();
        }
        Ok(out)
    }

    fn type_body(&mut self, kind: Kind, desc: Option<String>, is_ext: bool) -> R<MTypeDef> {
        let name = self.name()?;
        let mut t = MTypeDef::new(kind, &name);
        t.desc = desc;
        match kind {
            Kind::Scalar => {
                t.directives = self.directives(true)?;
                if is_ext && t.directives.is_empty() {
                    return self.err("scalar extension without directives");
                }
            }
            Kind::Object | Kind::Interface => {
                t.implements = self.implements()?;
                t.directives = self.directives(true)?;
                t.fields = self.fields_def()?;
                if is_ext && t.implements.is_empty() && t.directives.is_empty() && t.fields.is_empty() {
                    return self.err("empty extension");
                }
            }
            Kind::Union => {
                t.directives = self.directives(true)?;
                if self.eat_p("=") {
                    self.eat_p("|");
                    t.members.push(self.name()?);
                    while self.eat_p("|") {
                        t.members.push(self.name()?);
                    }
                }
                if is_ext && t.directives.is_empty() && t.members.is_empty() {
                    return self.err("empty extension");
                }
            }
            Kind::Enum => {
                t.directives = self.directives(true)?;
                if self.eat_p("{") {
                    if self.is_p("}") {
                        return self.err("empty enum values");
                    }
                    while !self.is_p("}") {
                        let desc = self.desc();
                        let name = self.name()?;
                        if name == "true" || name == "false" || name == "null" {
                            return self.err("reserved enum value");
                        }
                        let directives = self.directives(true)?;
                        t.values.push(MEnumValue { desc, name, directives });
                    }
                    self.bump();
                }
                if is_ext && t.directives.is_empty() && t.values.is_empty() {
                    return self.err("empty extension");
                }
            }
            Kind::Input => {
                t.directives = self.directives(true)?;
                if self.eat_p("{") {
                    if self.is_p("}") {
                        return self.err("empty input fields");
                    }
                    while !self.is_p("}") {
                        t.input_fields.push(self.input_value()?);
                    }
                    self.bump();
                }
                if is_ext && t.directives.is_empty() && t.input_fields.is_empty() {
                    return self.err("empty extension");
                }
            }
        }
        Ok(t)
    }

    fn kind_kw(&self) -> Option<Kind> {
        match self.peek() {
            T::Name(n) => match n.as_str() {
                "scalar" => Some(Kind::Scalar),
                "type" => Some(Kind::Object),
                "interface" => Some(Kind::Interface),
                "union" => Some(Kind::Union),
                "enum" => Some(Kind::Enum),
                "input" => Some(Kind::Input),
                _ => None,
            },
            _ => None,
        }
    }

    fn ts_def(&mut self) -> R<MTsDef> {
        if self.is_kw("extend") && !matches!(self.peek_at(1), T::Punct(_) | T::Eof) {
            self.bump();
            if self.eat_kw("schema") {
                let directives = self.directives(true)?;
                let roots = self.roots()?;
                if directives.is_empty() && roots.is_empty() {
                    return self.err("empty schema extension");
                }
                return Ok(MTsDef::SchemaExt(MSchemaDef { desc: None, directives, roots }));
            }
            let Some(kind) = self.kind_kw() else { return self.err("expected type kind after extend") };
            self.bump();
            return Ok(MTsDef::TypeExt(self.type_body(kind, None, true)?));
        }
        let desc = self.desc();
        if self.eat_kw("schema") {
            let directives = self.directives(true)?;
            let roots = self.roots()?;
            if roots.is_empty() {
                return self.err("schema definition without root operation types");
            }
            return Ok(MTsDef::Schema(MSchemaDef { desc, directives, roots }));
        }
        if self.eat_kw("directive") {
            self.expect_p("@")?;
            let name = self.name()?;
            let args = self.arg_defs()?;
            let repeatable = self.eat_kw("repeatable");
            self.expect_kw("on")?;
            self.eat_p("|");
            let mut locations = vec![self.name()?];
            while self.eat_p("|") {
                locations.push(self.name()?);
            }
            for l in &locations {
                if !crate::gen_syntax::EXEC_LOCS.contains(&l.as_str())
                    && !crate::gen_syntax::TS_LOCS.contains(&l.as_str())
                {
                    return self.err("unknown directive location");
                }
            }
            return Ok(MTsDef::Directive(MDirectiveDef { desc, name, args, repeatable, locations }));
        }
        let Some(kind) = self.kind_kw() else { return self.err("expected type system definition") };
        self.bump();
        Ok(MTsDef::Type(self.type_body(kind, desc, false)?))
    }
}

/// A line that reads as an import statement is one only where a definition can start; inside a definition it is
/// an ordinary comment. The lexer cannot know, so the parser asks for the text to be lexed again with that line
/// forced to a comment whenever it meets import tokens elsewhere.
pub fn parse_op_doc(src: &str) -> R<MOpDoc> {
    parse_op_doc_toks(src).map(|x| x.0)
}

/// the document together with the token table the parser ended up with
pub fn parse_op_doc_toks(src: &str) -> R<(MOpDoc, Vec<LTok>)> {
    let mut forced = std::collections::BTreeSet::new();
    loop {
        let (toks, lexerr) = lex_partial(src, &forced);
        let mut p = Parser { toks, i: 0, nested_import: Default::default() };
        let r = (|| {
            let mut out = vec![];
            if matches!(p.peek(), T::Eof) {
                return p.err("empty document");
            }
            while !matches!(p.peek(), T::Eof) {
                out.push(p.exec_def()?);
            }
            Ok(out)
        })();
        if let Some(b) = p.nested_import.get() {
            if forced.insert(b) {
                continue;
            }
        }
        if let Some(e) = lexerr {
            return Err(e);
        }
        return r.map(|d| (d, p.toks));
    }
}

pub fn parse_ts_doc(src: &str) -> R<MTsDoc> {
    let toks = lex(src, false)?;
    let mut p = Parser { toks, i: 0, nested_import: Default::default() };
    let mut out = vec![];
    if matches!(p.peek(), T::Eof) {
        return p.err("empty document");
    }
    while !matches!(p.peek(), T::Eof) {
        out.push(p.ts_def()?);
    }
    Ok(out)
}
