//! Mini TypeScript: strict lexer/parser for the subset nitrogql emits, and an evaluator of
//! types to a small semantic domain with a membership function over abstract values.

use std::cell::RefCell;
use std::collections::BTreeMap;
use std::rc::Rc;

// ---------------------------------------------------------------------------
// lexer

#[derive(Clone, Debug, PartialEq)]
pub enum Tk {
    Ident(String),
    Str(String),
    Num(String),
    P(&'static str),
    Template(String),
    Eof,
}

#[derive(Clone, Debug)]
pub struct Token {
    pub tk: Tk,
    pub line: usize,
    pub col16: usize,
    pub offset: usize,
}

#[derive(Debug, Clone)]
pub struct TsError {
    pub msg: String,
    pub line: usize,
    pub col: usize,
}

const PUNCTS: &[&str] = &[
    "=>", "...", "{", "}", "(", ")", "[", "]", "<", ">", ",", ";", ":", "?", "|", "&", "=", ".", "*", "-",
];

pub fn lex(src: &str) -> Result<Vec<Token>, TsError> {
    let cs: Vec<char> = src.chars().collect();
    let mut i = 0;
    let mut line = 0;
    let mut col16 = 0;
    let mut out = vec![];
    let mut offset = 0usize;
    macro_rules! adv {
        () => {{
            let c = cs[i];
            i += 1;
            offset += c.len_utf8();
            if c == '\n' {
                line += 1;
                col16 = 0;
            } else {
                col16 += c.len_utf16();
            }
            c
        }};
    }
    while i < cs.len() {
        let c = cs[i];
        if c.is_whitespace() {
            adv!();
            continue;
        }
        if c == '/' && cs.get(i + 1) == Some(&'/') {
            while i < cs.len() && cs[i] != '\n' {
                adv!();
            }
            continue;
        }
        if c == '/' && cs.get(i + 1) == Some(&'*') {
            let (l0, c0) = (line, col16);
            adv!();
            adv!();
            loop {
                if i >= cs.len() {
                    return Err(TsError { msg: "unterminated comment".into(), line: l0, col: c0 });
                }
                if cs[i] == '*' && cs.get(i + 1) == Some(&'/') {
                    adv!();
                    adv!();
                    break;
                }
                adv!();
            }
            continue;
        }
        let (tl, tc, to) = (line, col16, offset);
        if c.is_ascii_alphabetic() || c == '_' || c == '$' {
            let mut s = String::new();
            while i < cs.len() && (cs[i].is_ascii_alphanumeric() || cs[i] == '_' || cs[i] == '$') {
                s.push(adv!());
            }
            out.push(Token { tk: Tk::Ident(s), line: tl, col16: tc, offset: to });
            continue;
        }
        if c.is_ascii_digit() {
            let mut s = String::new();
            while i < cs.len() && (cs[i].is_ascii_alphanumeric() || cs[i] == '.' || cs[i] == '+' || cs[i] == '-') {
                // crude: numbers like 1e+3; stop '-' unless after e/E
                if (cs[i] == '+' || cs[i] == '-') && !matches!(s.chars().last(), Some('e') | Some('E')) {
                    break;
                }
                s.push(adv!());
            }
            out.push(Token { tk: Tk::Num(s), line: tl, col16: tc, offset: to });
            continue;
        }
        if c == '"' || c == '\'' {
            let q = adv!();
            let mut s = String::new();
            loop {
                if i >= cs.len() {
                    return Err(TsError { msg: "unterminated string".into(), line: tl, col: tc });
                }
                let c = adv!();
                if c == q {
                    break;
                }
                if c == '\n' {
                    return Err(TsError { msg: "newline in string literal".into(), line: tl, col: tc });
                }
                if c == '\\' {
                    if i >= cs.len() {
                        return Err(TsError { msg: "unterminated escape".into(), line: tl, col: tc });
                    }
                    let e = adv!();
                    match e {
                        'n' => s.push('\n'),
                        'r' => s.push('\r'),
                        't' => s.push('\t'),
                        'b' => s.push('\u{8}'),
                        'f' => s.push('\u{c}'),
                        'u' => {
                            let mut v = 0u32;
                            if i < cs.len() && cs[i] == '{' {
                                adv!();
                                while i < cs.len() && cs[i] != '}' {
                                    v = v * 16 + adv!().to_digit(16).ok_or(TsError { msg: "bad \\u{}".into(), line: tl, col: tc })?;
                                }
                                if i < cs.len() {
                                    adv!();
                                }
                            } else {
                                for _ in 0..4 {
                                    if i >= cs.len() {
                                        return Err(TsError { msg: "bad \\u".into(), line: tl, col: tc });
                                    }
                                    v = v * 16 + adv!().to_digit(16).ok_or(TsError { msg: "bad \\u".into(), line: tl, col: tc })?;
                                }
                            }
                            s.push(char::from_u32(v).unwrap_or('\u{fffd}'));
                        }
                        other => s.push(other),
                    }
                } else {
                    s.push(c);
                }
            }
            out.push(Token { tk: Tk::Str(s), line: tl, col16: tc, offset: to });
            continue;
        }
        if c == '`' {
            adv!();
            let mut raw = String::new();
            loop {
                if i >= cs.len() {
                    return Err(TsError { msg: "unterminated template literal".into(), line: tl, col: tc });
                }
                let c = adv!();
                if c == '`' {
                    break;
                }
                if c == '\\' {
                    raw.push(c);
                    if i < cs.len() {
                        raw.push(adv!());
                    }
                    continue;
                }
                if c == '$' && i < cs.len() && cs[i] == '{' {
                    return Err(TsError { msg: "template substitution ${ in template literal".into(), line, col: col16 });
                }
                raw.push(c);
            }
            out.push(Token { tk: Tk::Template(raw), line: tl, col16: tc, offset: to });
            continue;
        }
        let mut matched = false;
        for p in PUNCTS {
            let pc: Vec<char> = p.chars().collect();
            if cs[i..].starts_with(&pc) {
                for _ in 0..pc.len() {
                    adv!();
                }
                out.push(Token { tk: Tk::P(p), line: tl, col16: tc, offset: to });
                matched = true;
                break;
            }
        }
        if !matched {
            return Err(TsError { msg: format!("unexpected character {c:?}"), line: tl, col: tc });
        }
    }
    out.push(Token { tk: Tk::Eof, line, col16, offset });
    Ok(out)
}

/// ECMAScript template literal cooking: TV of a no-substitution template
pub fn cook_template(raw: &str) -> Result<String, String> {
    let cs: Vec<char> = raw.chars().collect();
    let mut out = String::new();
    let mut i = 0;
    while i < cs.len() {
        let c = cs[i];
        if c == '\r' {
            // CR and CRLF are normalised to LF
            if cs.get(i + 1) == Some(&'\n') {
                i += 1;
            }
            out.push('\n');
            i += 1;
            continue;
        }
        if c != '\\' {
            out.push(c);
            i += 1;
            continue;
        }
        i += 1;
        let Some(&e) = cs.get(i) else { return Err("dangling backslash".into()) };
        i += 1;
        match e {
            'n' => out.push('\n'),
            'r' => out.push('\r'),
            't' => out.push('\t'),
            'b' => out.push('\u{8}'),
            'f' => out.push('\u{c}'),
            'v' => out.push('\u{b}'),
            '0' if !matches!(cs.get(i), Some(c) if c.is_ascii_digit()) => out.push('\0'),
            '\r' => {
                if cs.get(i) == Some(&'\n') {
                    i += 1;
                }
            }
            '\n' | '\u{2028}' | '\u{2029}' => {}
            'x' => {
                let h: String = cs.iter().skip(i).take(2).collect();
                let v = u32::from_str_radix(&h, 16).map_err(|_| "bad \\x escape".to_string())?;
                if h.len() != 2 {
                    return Err("bad \\x escape".into());
                }
                out.push(char::from_u32(v).unwrap());
                i += 2;
            }
            'u' => {
                if cs.get(i) == Some(&'{') {
                    let mut j = i + 1;
                    let mut v = 0u32;
                    while j < cs.len() && cs[j] != '}' {
                        v = v * 16 + cs[j].to_digit(16).ok_or("bad \\u{} escape")?;
                        j += 1;
                    }
                    out.push(char::from_u32(v).ok_or("bad code point")?);
                    i = j + 1;
                } else {
                    let h: String = cs.iter().skip(i).take(4).collect();
                    if h.len() != 4 {
                        return Err("bad \\u escape".into());
                    }
                    let v = u32::from_str_radix(&h, 16).map_err(|_| "bad \\u escape".to_string())?;
                    out.push(char::from_u32(v).unwrap_or('\u{fffd}'));
                    i += 4;
                }
            }
            c if c.is_ascii_digit() => return Err("octal escape in template".into()),
            other => out.push(other),
        }
    }
    Ok(out)
}

// ---------------------------------------------------------------------------
// AST

#[derive(Clone, Debug, PartialEq)]
pub enum Ty {
    Ref(Vec<String>, Vec<Ty>),
    StrLit(String),
    NumLit(String),
    Obj(Vec<Prop>),
    Mapped { var: String, src: Box<Ty>, optional: bool, readonly: bool, body: Box<Ty> },
    Array(Box<Ty>),
    ReadonlyArray(Box<Ty>),
    Union(Vec<Ty>),
    Inter(Vec<Ty>),
    Keyof(Box<Ty>),
    Index(Box<Ty>, Box<Ty>),
    Cond { check: Box<Ty>, ext: Box<Ty>, then: Box<Ty>, els: Box<Ty> },
    Infer(String),
    Fn { params: Vec<(String, Ty)>, ret: Box<Ty> },
    Paren(Box<Ty>),
}

#[derive(Clone, Debug, PartialEq)]
pub struct Prop {
    pub key: String,
    pub ty: Ty,
    pub optional: bool,
    pub readonly: bool,
    /// position of the key token
    pub line: usize,
    pub col16: usize,
}

#[derive(Clone, Debug)]
pub struct TypeDecl {
    pub name: String,
    pub params: Vec<String>,
    pub ty: Ty,
    pub exported: bool,
    pub line: usize,
    pub col16: usize,
}

#[derive(Clone, Debug)]
pub enum JsVal {
    Null,
    Bool(bool),
    Num(String),
    Str(String),
    Arr(Vec<JsVal>),
    Obj(Vec<(String, JsVal)>),
}

#[derive(Clone, Debug)]
pub struct ConstDecl {
    pub name: String,
    pub ty: Option<Ty>,
    pub value: Option<JsVal>,
    pub template: Option<String>,
    pub exported: bool,
    pub declared: bool,
    pub as_const: bool,
    pub line: usize,
    pub col16: usize,
}

#[derive(Clone, Debug)]
pub enum Stmt {
    ImportNamed { names: Vec<String>, from: String },
    ImportNs { name: String, from: String },
    Type(TypeDecl),
    Namespace { name: String, body: Vec<Stmt>, exported: bool },
    /// `export type { a as b }` (type-only) or `export { a as b }`
    ExportList { items: Vec<(String, String)>, type_only: bool },
    Const(ConstDecl),
}

pub struct Parser {
    toks: Vec<Token>,
    i: usize,
}

type PR<T> = Result<T, TsError>;

impl Parser {
    fn peek(&self) -> &Tk {
        &self.toks[self.i].tk
    }
    fn peek_at(&self, k: usize) -> &Tk {
        &self.toks[(self.i + k).min(self.toks.len() - 1)].tk
    }
    fn err<T>(&self, msg: &str) -> PR<T> {
        let t = &self.toks[self.i];
        Err(TsError { msg: format!("{msg}; found {:?}", t.tk), line: t.line, col: t.col16 })
    }
    fn bump(&mut self) -> Token {
        let t = self.toks[self.i].clone();
        if self.i + 1 < self.toks.len() {
            self.i += 1;
        }
        t
    }
    fn is_p(&self, p: &str) -> bool {
        matches!(self.peek(), Tk::P(q) if *q == p)
    }
    fn eat_p(&mut self, p: &str) -> bool {
        if self.is_p(p) {
            self.bump();
            true
        } else {
            false
        }
    }
    fn expect_p(&mut self, p: &str) -> PR<()> {
        if self.eat_p(p) { Ok(()) } else { self.err(&format!("expected '{p}'")) }
    }
    fn is_kw(&self, k: &str) -> bool {
        matches!(self.peek(), Tk::Ident(s) if s == k)
    }
    fn eat_kw(&mut self, k: &str) -> bool {
        if self.is_kw(k) {
            self.bump();
            true
        } else {
            false
        }
    }
    fn expect_kw(&mut self, k: &str) -> PR<()> {
        if self.eat_kw(k) { Ok(()) } else { self.err(&format!("expected '{k}'")) }
    }
    fn ident(&mut self) -> PR<String> {
        match self.peek().clone() {
            Tk::Ident(s) => {
                self.bump();
                Ok(s)
            }
            _ => self.err("expected identifier"),
        }
    }
    fn string(&mut self) -> PR<String> {
        match self.peek().clone() {
            Tk::Str(s) => {
                self.bump();
                Ok(s)
            }
            _ => self.err("expected string literal"),
        }
    }

    // ----- types
    pub fn ty(&mut self) -> PR<Ty> {
        // function type?
        if self.is_p("(") && self.looks_like_fn() {
            return self.fn_type();
        }
        let check = self.union()?;
        if self.is_kw("extends") {
            self.bump();
            let ext = self.union()?;
            self.expect_p("?")?;
            let then = self.ty()?;
            self.expect_p(":")?;
            let els = self.ty()?;
            return Ok(Ty::Cond { check: Box::new(check), ext: Box::new(ext), then: Box::new(then), els: Box::new(els) });
        }
        Ok(check)
    }
    fn looks_like_fn(&self) -> bool {
        // scan to the matching ')' and see whether '=>' follows
        let mut depth = 0;
        let mut k = 0;
        loop {
            match self.peek_at(k) {
                Tk::P("(") => depth += 1,
                Tk::P(")") => {
                    depth -= 1;
                    if depth == 0 {
                        return matches!(self.peek_at(k + 1), Tk::P("=>"));
                    }
                }
                Tk::Eof => return false,
                _ => {}
            }
            k += 1;
            if k > 4000 {
                return false;
            }
        }
    }
    fn fn_type(&mut self) -> PR<Ty> {
        self.expect_p("(")?;
        let mut params = vec![];
        while !self.is_p(")") {
            let n = self.ident()?;
            self.eat_p("?");
            self.expect_p(":")?;
            let t = self.ty()?;
            params.push((n, t));
            if !self.eat_p(",") {
                break;
            }
        }
        self.expect_p(")")?;
        self.expect_p("=>")?;
        let ret = self.ty()?;
        Ok(Ty::Fn { params, ret: Box::new(ret) })
    }
    fn union(&mut self) -> PR<Ty> {
        self.eat_p("|");
        let mut items = vec![self.inter()?];
        while self.eat_p("|") {
            items.push(self.inter()?);
        }
        Ok(if items.len() == 1 { items.pop().unwrap() } else { Ty::Union(items) })
    }
    fn inter(&mut self) -> PR<Ty> {
        self.eat_p("&");
        let mut items = vec![self.postfix()?];
        while self.eat_p("&") {
            items.push(self.postfix()?);
        }
        Ok(if items.len() == 1 { items.pop().unwrap() } else { Ty::Inter(items) })
    }
    fn postfix(&mut self) -> PR<Ty> {
        if self.is_kw("keyof") {
            self.bump();
            let t = self.postfix()?;
            return Ok(Ty::Keyof(Box::new(t)));
        }
        if self.is_kw("readonly") {
            self.bump();
            let t = self.postfix()?;
            return match t {
                Ty::Array(inner) => Ok(Ty::ReadonlyArray(inner)),
                _ => self.err("readonly must be followed by an array type"),
            };
        }
        if self.is_kw("infer") {
            self.bump();
            return Ok(Ty::Infer(self.ident()?));
        }
        let mut t = self.primary()?;
        loop {
            if self.is_p("[") {
                if matches!(self.peek_at(1), Tk::P("]")) {
                    self.bump();
                    self.bump();
                    t = Ty::Array(Box::new(t));
                } else {
                    self.bump();
                    let k = self.ty()?;
                    self.expect_p("]")?;
                    t = Ty::Index(Box::new(t), Box::new(k));
                }
            } else {
                break;
            }
        }
        Ok(t)
    }
    fn primary(&mut self) -> PR<Ty> {
        match self.peek().clone() {
            Tk::P("(") => {
                self.bump();
                let t = self.ty()?;
                self.expect_p(")")?;
                Ok(Ty::Paren(Box::new(t)))
            }
            Tk::P("{") => self.object_type(),
            // a tuple type that consists of one rest element, `[...T[]]`, denotes `T[]`; other tuple types
            // are outside this interpreter's fragment
            Tk::P("[") if matches!(self.peek_at(1), Tk::P("...")) => {
                self.bump();
                self.bump();
                let t = self.ty()?;
                self.expect_p("]")?;
                match t {
                    Ty::Array(_) | Ty::ReadonlyArray(_) => Ok(t),
                    _ => self.err("rest element of a non-array type"),
                }
            }
            Tk::Str(s) => {
                self.bump();
                Ok(Ty::StrLit(s))
            }
            Tk::Num(n) => {
                self.bump();
                Ok(Ty::NumLit(n))
            }
            Tk::Ident(_) => {
                let mut path = vec![self.ident()?];
                while self.is_p(".") {
                    self.bump();
                    path.push(self.ident()?);
                }
                let mut args = vec![];
                if self.is_p("<") {
                    self.bump();
                    loop {
                        args.push(self.ty()?);
                        if !self.eat_p(",") {
                            break;
                        }
                    }
                    self.expect_p(">")?;
                }
                Ok(Ty::Ref(path, args))
            }
            _ => self.err("expected a type"),
        }
    }
    fn object_type(&mut self) -> PR<Ty> {
        self.expect_p("{")?;
        // mapped type?
        let save = self.i;
        let ro = self.eat_kw("readonly");
        if self.is_p("[") {
            if let (Tk::Ident(_), Tk::Ident(inn)) = (self.peek_at(1).clone(), self.peek_at(2).clone()) {
                if inn == "in" {
                    self.bump();
                    let var = self.ident()?;
                    self.expect_kw("in")?;
                    let src = self.ty()?;
                    self.expect_p("]")?;
                    let optional = self.eat_p("?");
                    self.expect_p(":")?;
                    let body = self.ty()?;
                    self.eat_p(";");
                    self.eat_p(",");
                    self.expect_p("}")?;
                    return Ok(Ty::Mapped { var, src: Box::new(src), optional, readonly: ro, body: Box::new(body) });
                }
            }
        }
        self.i = save;
        let mut props = vec![];
        while !self.is_p("}") {
            let mut readonly = false;
            if self.is_kw("readonly") && !matches!(self.peek_at(1), Tk::P(":") | Tk::P("?")) {
                self.bump();
                readonly = true;
            }
            let kt = self.toks[self.i].clone();
            let key = match self.peek().clone() {
                Tk::Ident(s) => {
                    self.bump();
                    s
                }
                Tk::Str(s) => {
                    self.bump();
                    s
                }
                _ => return self.err("expected property name"),
            };
            let optional = self.eat_p("?");
            self.expect_p(":")?;
            let ty = self.ty()?;
            if !(self.eat_p(";") || self.eat_p(",")) && !self.is_p("}") {
                return self.err("expected ';' after property");
            }
            props.push(Prop { key, ty, optional, readonly, line: kt.line, col16: kt.col16 });
        }
        self.expect_p("}")?;
        Ok(Ty::Obj(props))
    }

    // ----- values
    fn js_value(&mut self) -> PR<JsVal> {
        match self.peek().clone() {
            Tk::P("{") => {
                self.bump();
                let mut fs = vec![];
                while !self.is_p("}") {
                    let k = match self.peek().clone() {
                        Tk::Str(s) | Tk::Ident(s) => {
                            self.bump();
                            s
                        }
                        _ => return self.err("expected object key"),
                    };
                    self.expect_p(":")?;
                    fs.push((k, self.js_value()?));
                    if !self.eat_p(",") {
                        break;
                    }
                }
                self.expect_p("}")?;
                Ok(JsVal::Obj(fs))
            }
            Tk::P("[") => {
                self.bump();
                let mut vs = vec![];
                while !self.is_p("]") {
                    vs.push(self.js_value()?);
                    if !self.eat_p(",") {
                        break;
                    }
                }
                self.expect_p("]")?;
                Ok(JsVal::Arr(vs))
            }
            Tk::Str(s) => {
                self.bump();
                Ok(JsVal::Str(s))
            }
            Tk::P("-") => {
                self.bump();
                match self.peek().clone() {
                    Tk::Num(n) => {
                        self.bump();
                        Ok(JsVal::Num(format!("-{n}")))
                    }
                    _ => self.err("expected number"),
                }
            }
            Tk::Num(n) => {
                self.bump();
                Ok(JsVal::Num(n))
            }
            Tk::Ident(s) if s == "true" || s == "false" => {
                self.bump();
                Ok(JsVal::Bool(s == "true"))
            }
            Tk::Ident(s) if s == "null" => {
                self.bump();
                Ok(JsVal::Null)
            }
            _ => self.err("expected a JSON-like value"),
        }
    }

    // ----- statements
    fn type_decl(&mut self, exported: bool) -> PR<Stmt> {
        // after `type`
        let nt = self.toks[self.i].clone();
        let name = self.ident()?;
        let mut params = vec![];
        if self.eat_p("<") {
            loop {
                params.push(self.ident()?);
                if self.eat_kw("extends") {
                    let _constraint = self.union()?;
                }
                if !self.eat_p(",") {
                    break;
                }
            }
            self.expect_p(">")?;
        }
        self.expect_p("=")?;
        let ty = self.ty()?;
        self.expect_p(";")?;
        Ok(Stmt::Type(TypeDecl { name, params, ty, exported, line: nt.line, col16: nt.col16 }))
    }

    fn export_list(&mut self, type_only: bool) -> PR<Stmt> {
        self.expect_p("{")?;
        let mut items = vec![];
        while !self.is_p("}") {
            let a = self.ident()?;
            let b = if self.eat_kw("as") { self.ident()? } else { a.clone() };
            items.push((a, b));
            if !self.eat_p(",") {
                break;
            }
        }
        self.expect_p("}")?;
        self.expect_p(";")?;
        Ok(Stmt::ExportList { items, type_only })
    }

    fn const_decl(&mut self, exported: bool, declared: bool) -> PR<Stmt> {
        let nt = self.toks[self.i].clone();
        let name = self.ident()?;
        let ty = if self.eat_p(":") { Some(self.ty()?) } else { None };
        let mut value = None;
        let mut template = None;
        let mut as_const = false;
        if self.eat_p("=") {
            if let Tk::Template(raw) = self.peek().clone() {
                self.bump();
                template = Some(raw);
            } else {
                value = Some(self.js_value()?);
            }
            while self.eat_kw("as") {
                if self.eat_kw("const") {
                    as_const = true;
                } else if self.eat_kw("unknown") {
                } else {
                    let _ = self.ty()?;
                }
            }
        } else if ty.is_none() {
            return self.err("const without type or initializer");
        }
        self.expect_p(";")?;
        Ok(Stmt::Const(ConstDecl { name, ty, value, template, exported, declared, as_const, line: nt.line, col16: nt.col16 }))
    }

    fn stmt(&mut self, in_namespace: bool) -> PR<Stmt> {
        if self.is_kw("import") && !in_namespace {
            self.bump();
            self.expect_kw("type")?;
            if self.eat_p("*") {
                self.expect_kw("as")?;
                let name = self.ident()?;
                self.expect_kw("from")?;
                let from = self.string()?;
                self.expect_p(";")?;
                return Ok(Stmt::ImportNs { name, from });
            }
            self.expect_p("{")?;
            let mut names = vec![];
            while !self.is_p("}") {
                names.push(self.ident()?);
                if !self.eat_p(",") {
                    break;
                }
            }
            self.expect_p("}")?;
            self.expect_kw("from")?;
            let from = self.string()?;
            self.expect_p(";")?;
            return Ok(Stmt::ImportNamed { names, from });
        }
        let exported = self.eat_kw("export");
        if exported && self.is_p("{") {
            return self.export_list(false);
        }
        let declared = self.eat_kw("declare");
        if self.is_kw("type") {
            self.bump();
            if exported && self.is_p("{") {
                return self.export_list(true);
            }
            return self.type_decl(exported);
        }
        if self.is_kw("namespace") {
            self.bump();
            let name = self.ident()?;
            self.expect_p("{")?;
            let mut body = vec![];
            while !self.is_p("}") {
                if matches!(self.peek(), Tk::Eof) {
                    return self.err("unterminated namespace");
                }
                body.push(self.stmt(true)?);
            }
            self.expect_p("}")?;
            return Ok(Stmt::Namespace { name, body, exported });
        }
        if self.is_kw("const") {
            self.bump();
            return self.const_decl(exported, declared);
        }
        self.err("expected a statement (import/export/type/namespace/const)")
    }
}

pub fn parse_module(src: &str) -> Result<Vec<Stmt>, TsError> {
    let toks = lex(src)?;
    let mut p = Parser { toks, i: 0 };
    let mut out = vec![];
    while !matches!(p.peek(), Tk::Eof) {
        out.push(p.stmt(false)?);
    }
    Ok(out)
}

pub fn parse_type(src: &str) -> Result<Ty, TsError> {
    let toks = lex(src)?;
    let mut p = Parser { toks, i: 0 };
    let t = p.ty()?;
    if !matches!(p.peek(), Tk::Eof) {
        return p.err("trailing tokens after type");
    }
    Ok(t)
}

// ---------------------------------------------------------------------------
// semantic domain

#[derive(Debug)]
pub struct Scope {
    pub name: String,
    pub types: BTreeMap<String, Rc<TypeDecl>>,
    /// exported name -> local name
    pub exports: BTreeMap<String, String>,
    pub namespaces: BTreeMap<String, Rc<Scope>>,
    /// namespace imports: local name -> module
    pub ns_imports: RefCell<BTreeMap<String, Rc<Scope>>>,
    pub named_imports: Vec<String>,
    pub parent: RefCell<Option<Rc<Scope>>>,
    pub consts: Vec<ConstDecl>,
    pub value_exports: BTreeMap<String, String>,
}

pub fn build_scope(name: &str, stmts: &[Stmt]) -> Rc<Scope> {
    fn build(name: &str, stmts: &[Stmt]) -> Scope {
        let mut s = Scope {
            name: name.to_string(),
            types: BTreeMap::new(),
            exports: BTreeMap::new(),
            namespaces: BTreeMap::new(),
            ns_imports: RefCell::new(BTreeMap::new()),
            named_imports: vec![],
            parent: RefCell::new(None),
            consts: vec![],
            value_exports: BTreeMap::new(),
        };
        for st in stmts {
            match st {
                Stmt::Type(t) => {
                    s.types.insert(t.name.clone(), Rc::new(t.clone()));
                    if t.exported {
                        s.exports.insert(t.name.clone(), t.name.clone());
                    }
                }
                Stmt::ExportList { items, type_only } => {
                    for (a, b) in items {
                        if *type_only {
                            s.exports.insert(b.clone(), a.clone());
                        } else {
                            s.value_exports.insert(b.clone(), a.clone());
                        }
                    }
                }
                Stmt::Namespace { name, body, .. } => {
                    let child = build(name, body);
                    s.namespaces.insert(name.clone(), Rc::new(child));
                }
                Stmt::ImportNamed { names, .. } => s.named_imports.extend(names.iter().cloned()),
                Stmt::ImportNs { .. } => {}
                Stmt::Const(c) => {
                    s.consts.push(c.clone());
                    if c.exported {
                        s.value_exports.insert(c.name.clone(), c.name.clone());
                    }
                }
            }
        }
        s
    }
    let root = Rc::new(build(name, stmts));
    for (_, ns) in root.namespaces.iter() {
        *ns.parent.borrow_mut() = Some(root.clone());
    }
    root
}

#[derive(Clone)]
pub enum Lazy {
    Thunk(Rc<Ty>, Env),
    Done(Rc<Sem>),
}

#[derive(Clone)]
pub struct Env {
    pub scope: Rc<Scope>,
    pub vars: Rc<BTreeMap<String, Lazy>>,
}

impl Env {
    pub fn root(scope: Rc<Scope>) -> Env {
        Env { scope, vars: Rc::new(BTreeMap::new()) }
    }
    fn with(&self, k: &str, v: Lazy) -> Env {
        let mut m = (*self.vars).clone();
        m.insert(k.to_string(), v);
        Env { scope: self.scope.clone(), vars: Rc::new(m) }
    }
}

#[derive(Clone)]
pub struct SProp {
    pub key: String,
    pub ty: Lazy,
    pub optional: bool,
    pub readonly: bool,
}

pub enum Sem {
    Never,
    Unknown,
    Null,
    Undefined,
    /// string | number | boolean | bigint
    Prim(&'static str),
    /// opaque global (Date, Promise<..>, unresolved identifiers, external imports)
    Opaque(String),
    StrLit(String),
    BoolLit(bool),
    NumLit(String),
    Array(Lazy, bool),
    Object(Vec<SProp>),
    Union(Vec<Rc<Sem>>),
    Inter(Vec<Rc<Sem>>),
    Fn(Vec<Lazy>, Lazy),
    /// placeholder produced by `infer V` inside an extends pattern
    Infer(String),
}

#[derive(Debug, Clone)]
pub struct Unsupported(pub String);

type ER<T> = Result<T, Unsupported>;

const MAX_DEPTH: usize = 200;

pub fn force(l: &Lazy, depth: usize) -> ER<Rc<Sem>> {
    match l {
        Lazy::Done(s) => Ok(s.clone()),
        Lazy::Thunk(t, env) => eval(t, env, depth + 1),
    }
}

fn union_of(items: Vec<Rc<Sem>>) -> Rc<Sem> {
    let mut flat: Vec<Rc<Sem>> = vec![];
    for i in items {
        match &*i {
            Sem::Never => {}
            Sem::Union(xs) => flat.extend(xs.iter().cloned()),
            _ => flat.push(i),
        }
    }
    if flat.iter().any(|x| matches!(**x, Sem::Unknown)) {
        return Rc::new(Sem::Unknown);
    }
    match flat.len() {
        0 => Rc::new(Sem::Never),
        1 => flat.pop().unwrap(),
        _ => Rc::new(Sem::Union(flat)),
    }
}

fn lookup_type(scope: &Rc<Scope>, path: &[String]) -> Option<(Rc<TypeDecl>, Rc<Scope>)> {
    // resolve the first segment lexically
    let first = &path[0];
    let mut cur: Option<Rc<Scope>> = Some(scope.clone());
    while let Some(sc) = cur {
        if path.len() == 1 {
            if let Some(t) = sc.types.get(first) {
                return Some((t.clone(), sc.clone()));
            }
        } else {
            if let Some(ns) = sc.namespaces.get(first) {
                return lookup_exported(ns, &path[1..]);
            }
            if let Some(m) = sc.ns_imports.borrow().get(first) {
                return lookup_exported(m, &path[1..]);
            }
        }
        cur = sc.parent.borrow().clone();
    }
    None
}

fn lookup_exported(scope: &Rc<Scope>, path: &[String]) -> Option<(Rc<TypeDecl>, Rc<Scope>)> {
    if path.len() == 1 {
        let local = scope.exports.get(&path[0])?;
        let t = scope.types.get(local)?;
        return Some((t.clone(), scope.clone()));
    }
    let ns = scope.namespaces.get(&path[0])?;
    lookup_exported(ns, &path[1..])
}

pub fn props_of(s: &Rc<Sem>, depth: usize) -> ER<Option<Vec<SProp>>> {
    match &**s {
        Sem::Object(ps) => Ok(Some(ps.clone())),
        Sem::Inter(items) => {
            let mut out: Vec<SProp> = vec![];
            for it in items {
                let Some(ps) = props_of(it, depth + 1)? else { return Ok(None) };
                for p in ps {
                    if let Some(ex) = out.iter_mut().find(|x| x.key == p.key) {
                        let a = force(&ex.ty, depth)?;
                        let b = force(&p.ty, depth)?;
                        ex.ty = Lazy::Done(Rc::new(Sem::Inter(vec![a, b])));
                        ex.optional = ex.optional && p.optional;
                        ex.readonly = ex.readonly || p.readonly;
                    } else {
                        out.push(p);
                    }
                }
            }
            Ok(Some(out))
        }
        _ => Ok(None),
    }
}

fn str_lits(s: &Rc<Sem>) -> Option<Vec<String>> {
    match &**s {
        Sem::StrLit(x) => Some(vec![x.clone()]),
        Sem::Never => Some(vec![]),
        Sem::Union(xs) => {
            let mut out = vec![];
            for x in xs {
                out.extend(str_lits(x)?);
            }
            Some(out)
        }
        _ => None,
    }
}

fn keyof(s: &Rc<Sem>, depth: usize) -> ER<Rc<Sem>> {
    match &**s {
        Sem::Union(items) => {
            // keys common to all members
            let mut common: Option<Vec<String>> = None;
            for it in items {
                let k = keyof(it, depth + 1)?;
                let ks = str_lits(&k).unwrap_or_default();
                common = Some(match common {
                    None => ks,
                    Some(c) => c.into_iter().filter(|x| ks.contains(x)).collect(),
                });
            }
            Ok(union_of(common.unwrap_or_default().into_iter().map(|k| Rc::new(Sem::StrLit(k))).collect()))
        }
        _ => match props_of(s, depth)? {
            Some(ps) => Ok(union_of(ps.into_iter().map(|p| Rc::new(Sem::StrLit(p.key))).collect())),
            None => match &**s {
                Sem::Unknown | Sem::Never | Sem::Null | Sem::Undefined => Ok(Rc::new(Sem::Never)),
                _ => Err(Unsupported("keyof of a non-object type".into())),
            },
        },
    }
}

fn index(s: &Rc<Sem>, k: &Rc<Sem>, depth: usize) -> ER<Rc<Sem>> {
    let Some(keys) = str_lits(k) else { return Err(Unsupported("indexed access with a non-literal key".into())) };
    if let Sem::Union(items) = &**s {
        let mut out = vec![];
        for it in items {
            out.push(index(it, k, depth + 1)?);
        }
        return Ok(union_of(out));
    }
    let Some(ps) = props_of(s, depth)? else { return Err(Unsupported("indexed access on a non-object type".into())) };
    let mut out = vec![];
    for key in keys {
        match ps.iter().find(|p| p.key == key) {
            Some(p) => {
                out.push(force(&p.ty, depth)?);
                if p.optional {
                    out.push(Rc::new(Sem::Undefined));
                }
            }
            None => return Err(Unsupported(format!("indexed access: no property {key}"))),
        }
    }
    Ok(union_of(out))
}

/// is `a` assignable to `b`? Only the fragment needed by Extract / simple conditionals.
fn assignable(a: &Rc<Sem>, b: &Rc<Sem>, depth: usize) -> ER<bool> {
    Ok(match (&**a, &**b) {
        (_, Sem::Unknown) => true,
        (Sem::Never, _) => true,
        (_, Sem::Union(bs)) => {
            for x in bs {
                if assignable(a, x, depth + 1)? {
                    return Ok(true);
                }
            }
            false
        }
        (Sem::Union(xs), _) => {
            for x in xs {
                if !assignable(x, b, depth + 1)? {
                    return Ok(false);
                }
            }
            true
        }
        (Sem::StrLit(x), Sem::StrLit(y)) => x == y,
        (Sem::StrLit(_), Sem::Prim("string")) => true,
        (Sem::Prim(x), Sem::Prim(y)) => x == y,
        (Sem::Null, Sem::Null) | (Sem::Undefined, Sem::Undefined) => true,
        (Sem::Opaque(x), Sem::Opaque(y)) => x == y,
        (Sem::StrLit(_), _) | (Sem::Prim(_), _) | (Sem::Null, _) | (Sem::Undefined, _) => false,
        _ => return Err(Unsupported("assignability between structured types".into())),
    })
}

/// `check extends pattern` with `infer` variables; returns bindings on success
fn match_extends(check: &Rc<Sem>, pattern: &Rc<Sem>, binds: &mut BTreeMap<String, Rc<Sem>>, depth: usize) -> ER<bool> {
    match &**pattern {
        Sem::Infer(v) => {
            binds.insert(v.clone(), check.clone());
            Ok(true)
        }
        Sem::Object(pps) => {
            let cps = match props_of(check, depth)? {
                Some(p) => p,
                None => match &**check {
                    Sem::Unknown | Sem::Null | Sem::Undefined | Sem::Never => return Ok(false),
                    _ => return Err(Unsupported("extends: non-object checked against an object pattern".into())),
                },
            };
            for pp in pps {
                let pt = force(&pp.ty, depth)?;
                match cps.iter().find(|c| c.key == pp.key) {
                    Some(cp) => {
                        let mut ct = force(&cp.ty, depth)?;
                        if cp.optional {
                            ct = union_of(vec![ct, Rc::new(Sem::Undefined)]);
                        }
                        if cp.optional && !pp.optional {
                            return Ok(false);
                        }
                        if !match_extends(&ct, &pt, binds, depth + 1)? {
                            return Ok(false);
                        }
                    }
                    None => {
                        if !pp.optional {
                            return Ok(false);
                        }
                        // no inference candidate: TypeScript infers `unknown`
                        if let Sem::Infer(v) = &*pt {
                            binds.insert(v.clone(), Rc::new(Sem::Unknown));
                        }
                    }
                }
            }
            Ok(true)
        }
        _ => assignable(check, pattern, depth),
    }
}

pub fn eval(t: &Ty, env: &Env, depth: usize) -> ER<Rc<Sem>> {
    if depth > MAX_DEPTH {
        return Err(Unsupported("type evaluation too deep".into()));
    }
    let lazy = |t: &Ty| Lazy::Thunk(Rc::new(t.clone()), env.clone());
    Ok(match t {
        Ty::Paren(t) => eval(t, env, depth + 1)?,
        Ty::StrLit(s) => Rc::new(Sem::StrLit(s.clone())),
        Ty::NumLit(n) => Rc::new(Sem::NumLit(n.clone())),
        Ty::Infer(v) => Rc::new(Sem::Infer(v.clone())),
        Ty::Obj(props) => Rc::new(Sem::Object(
            props.iter().map(|p| SProp { key: p.key.clone(), ty: lazy(&p.ty), optional: p.optional, readonly: p.readonly }).collect(),
        )),
        Ty::Array(t) => Rc::new(Sem::Array(lazy(t), false)),
        Ty::ReadonlyArray(t) => Rc::new(Sem::Array(lazy(t), true)),
        Ty::Union(items) => {
            let mut out = vec![];
            for i in items {
                out.push(eval(i, env, depth + 1)?);
            }
            union_of(out)
        }
        Ty::Inter(items) => {
            let mut out = vec![];
            for i in items {
                let s = eval(i, env, depth + 1)?;
                match &*s {
                    Sem::Unknown => {}
                    Sem::Inter(xs) => out.extend(xs.iter().cloned()),
                    _ => out.push(s),
                }
            }
            if out.iter().any(|x| matches!(**x, Sem::Never)) {
                return Ok(Rc::new(Sem::Never));
            }
            match out.len() {
                0 => Rc::new(Sem::Unknown),
                1 => out.pop().unwrap(),
                _ => Rc::new(Sem::Inter(out)),
            }
        }
        Ty::Fn { params, ret } => Rc::new(Sem::Fn(params.iter().map(|(_, t)| lazy(t)).collect(), lazy(ret))),
        Ty::Keyof(t) => {
            let s = eval(t, env, depth + 1)?;
            keyof(&s, depth)?
        }
        Ty::Index(t, k) => {
            let s = eval(t, env, depth + 1)?;
            let ks = eval(k, env, depth + 1)?;
            index(&s, &ks, depth)?
        }
        Ty::Mapped { var, src, optional, readonly, body } => {
            // homomorphic: src is `keyof X`
            let homo: Option<Rc<Sem>> = match &**src {
                Ty::Keyof(x) => Some(eval(x, env, depth + 1)?),
                _ => None,
            };
            if let Some(h) = &homo {
                if let Sem::Union(items) = &**h {
                    // distribute over a union source (only when X is a type parameter; this is
                    // what TypeScript does for homomorphic mapped types)
                    if let Ty::Keyof(x) = &**src {
                        if let Ty::Ref(p, a) = &**x {
                            if p.len() == 1 && a.is_empty() && env.vars.contains_key(&p[0]) {
                                let mut out = vec![];
                                for it in items {
                                    let env2 = env.with(&p[0], Lazy::Done(it.clone()));
                                    out.push(eval(t, &env2, depth + 1)?);
                                }
                                return Ok(union_of(out));
                            }
                        }
                    }
                }
            }
            let keys_sem = eval(src, env, depth + 1)?;
            let Some(keys) = str_lits(&keys_sem) else { return Err(Unsupported("mapped type over non-literal keys".into())) };
            let orig_props = match &homo {
                Some(h) => props_of(h, depth)?,
                None => None,
            };
            let mut props = vec![];
            for k in keys {
                let env2 = env.with(var, Lazy::Done(Rc::new(Sem::StrLit(k.clone()))));
                let (o_opt, o_ro) = orig_props
                    .as_ref()
                    .and_then(|ps| ps.iter().find(|p| p.key == k).map(|p| (p.optional, p.readonly)))
                    .unwrap_or((false, false));
                props.push(SProp {
                    key: k,
                    ty: Lazy::Thunk(Rc::new((**body).clone()), env2),
                    optional: *optional || o_opt,
                    readonly: *readonly || o_ro,
                });
            }
            Rc::new(Sem::Object(props))
        }
        Ty::Cond { check, ext, then, els } => {
            let c = eval(check, env, depth + 1)?;
            // distributive over a naked type parameter bound to a union
            if let (Ty::Ref(p, a), Sem::Union(items)) = (&**check, &*c) {
                if p.len() == 1 && a.is_empty() && env.vars.contains_key(&p[0]) {
                    let mut out = vec![];
                    for it in items {
                        let env2 = env.with(&p[0], Lazy::Done(it.clone()));
                        out.push(eval(t, &env2, depth + 1)?);
                    }
                    return Ok(union_of(out));
                }
            }
            let pat = eval(ext, env, depth + 1)?;
            // force pattern properties one level (they may hold `infer`)
            let mut binds = BTreeMap::new();
            if match_extends(&c, &pat, &mut binds, depth)? {
                let mut env2 = env.clone();
                for (k, v) in binds {
                    env2 = env2.with(&k, Lazy::Done(v));
                }
                eval(then, &env2, depth + 1)?
            } else {
                eval(els, env, depth + 1)?
            }
        }
        Ty::Ref(path, args) => {
            if path.len() == 1 {
                if let Some(v) = env.vars.get(&path[0]) {
                    if !args.is_empty() {
                        return Err(Unsupported("type arguments on a type parameter".into()));
                    }
                    return force(v, depth);
                }
            }
            if let Some((decl, scope)) = lookup_type(&env.scope, path) {
                if decl.params.len() != args.len() {
                    return Err(Unsupported(format!("wrong number of type arguments for {}", decl.name)));
                }
                let mut vars = BTreeMap::new();
                for (p, a) in decl.params.iter().zip(args.iter()) {
                    vars.insert(p.clone(), Lazy::Thunk(Rc::new(a.clone()), env.clone()));
                }
                let env2 = Env { scope, vars: Rc::new(vars) };
                return eval(&decl.ty, &env2, depth + 1);
            }
            if path.len() == 1 {
                match (path[0].as_str(), args.len()) {
                    ("string", 0) => return Ok(Rc::new(Sem::Prim("string"))),
                    ("number", 0) => return Ok(Rc::new(Sem::Prim("number"))),
                    ("boolean", 0) => return Ok(Rc::new(Sem::Prim("boolean"))),
                    ("bigint", 0) => return Ok(Rc::new(Sem::Prim("bigint"))),
                    ("null", 0) => return Ok(Rc::new(Sem::Null)),
                    ("undefined", 0) | ("void", 0) => return Ok(Rc::new(Sem::Undefined)),
                    ("never", 0) => return Ok(Rc::new(Sem::Never)),
                    ("unknown", 0) | ("any", 0) => return Ok(Rc::new(Sem::Unknown)),
                    ("true", 0) => return Ok(Rc::new(Sem::BoolLit(true))),
                    ("false", 0) => return Ok(Rc::new(Sem::BoolLit(false))),
                    ("Pick", 2) => {
                        let o = eval(&args[0], env, depth + 1)?;
                        let k = eval(&args[1], env, depth + 1)?;
                        let Some(keys) = str_lits(&k) else { return Err(Unsupported("Pick with non-literal keys".into())) };
                        let Some(ps) = props_of(&o, depth)? else { return Err(Unsupported("Pick on a non-object".into())) };
                        return Ok(Rc::new(Sem::Object(ps.into_iter().filter(|p| keys.contains(&p.key)).collect())));
                    }
                    ("Omit", 2) => {
                        let o = eval(&args[0], env, depth + 1)?;
                        let k = eval(&args[1], env, depth + 1)?;
                        let Some(keys) = str_lits(&k) else { return Err(Unsupported("Omit with non-literal keys".into())) };
                        let Some(ps) = props_of(&o, depth)? else { return Err(Unsupported("Omit on a non-object".into())) };
                        return Ok(Rc::new(Sem::Object(ps.into_iter().filter(|p| !keys.contains(&p.key)).collect())));
                    }
                    ("Extract", 2) | ("Exclude", 2) => {
                        let a = eval(&args[0], env, depth + 1)?;
                        let b = eval(&args[1], env, depth + 1)?;
                        let members: Vec<Rc<Sem>> = match &*a {
                            Sem::Union(xs) => xs.clone(),
                            Sem::Never => vec![],
                            _ => vec![a.clone()],
                        };
                        let want = path[0] == "Extract";
                        let mut out = vec![];
                        for m in members {
                            if assignable(&m, &b, depth)? == want {
                                out.push(m);
                            }
                        }
                        return Ok(union_of(out));
                    }
                    ("Partial", 1) => {
                        let o = eval(&args[0], env, depth + 1)?;
                        let Some(ps) = props_of(&o, depth)? else { return Err(Unsupported("Partial on a non-object".into())) };
                        return Ok(Rc::new(Sem::Object(ps.into_iter().map(|mut p| { p.optional = true; p }).collect())));
                    }
                    _ => {}
                }
            }
            // unresolved: an opaque global / external type
            Rc::new(Sem::Opaque(path.join(".")))
        }
    })
}

// ---------------------------------------------------------------------------
// abstract values and membership

#[derive(Clone, Debug, PartialEq, Eq, PartialOrd, Ord, Hash)]
pub enum Val {
    Null,
    /// `undefined` == property absent
    Undefined,
    Str(String),
    Num,
    Bool(bool),
    BigInt,
    /// instance of an opaque global (e.g. "Date"), or "function"
    Opaque(String),
    List(Vec<Val>),
    Obj(BTreeMap<String, Val>),
}

impl Val {
    pub fn to_json(&self) -> serde_json::Value {
        use serde_json::json;
        match self {
            Val::Null => json!(null),
            Val::Undefined => json!("<undefined>"),
            Val::Str(s) => json!(s),
            Val::Num => json!(1),
            Val::Bool(b) => json!(b),
            Val::BigInt => json!("<bigint>"),
            Val::Opaque(o) => json!(format!("<{o}>")),
            Val::List(v) => json!(v.iter().map(|x| x.to_json()).collect::<Vec<_>>()),
            Val::Obj(m) => serde_json::Value::Object(m.iter().map(|(k, v)| (k.clone(), v.to_json())).collect()),
        }
    }
}

pub fn member(v: &Val, s: &Rc<Sem>, depth: usize) -> ER<bool> {
    if depth > MAX_DEPTH {
        return Err(Unsupported("membership too deep".into()));
    }
    Ok(match &**s {
        Sem::Unknown => true,
        Sem::Never => false,
        Sem::Null => *v == Val::Null,
        Sem::Undefined => *v == Val::Undefined,
        Sem::Prim("string") => matches!(v, Val::Str(_)),
        Sem::Prim("number") => *v == Val::Num,
        Sem::Prim("boolean") => matches!(v, Val::Bool(_)),
        Sem::Prim("bigint") => *v == Val::BigInt,
        Sem::Prim(_) => false,
        Sem::Opaque(g) => matches!(v, Val::Opaque(x) if x == g),
        Sem::StrLit(x) => matches!(v, Val::Str(y) if x == y),
        Sem::BoolLit(b) => *v == Val::Bool(*b),
        Sem::NumLit(_) => *v == Val::Num,
        Sem::Array(t, _) => match v {
            Val::List(items) => {
                let ts = force(t, depth)?;
                for it in items {
                    if !member(it, &ts, depth + 1)? {
                        return Ok(false);
                    }
                }
                true
            }
            _ => false,
        },
        Sem::Object(props) => {
            if props.is_empty() {
                return Ok(!matches!(v, Val::Null | Val::Undefined));
            }
            let Val::Obj(m) = v else { return Ok(false) };
            for p in props {
                let x = m.get(&p.key).cloned().unwrap_or(Val::Undefined);
                if x == Val::Undefined && p.optional {
                    continue;
                }
                let ts = force(&p.ty, depth)?;
                if !member(&x, &ts, depth + 1)? {
                    return Ok(false);
                }
            }
            true
        }
        Sem::Union(items) => {
            for it in items {
                if member(v, it, depth + 1)? {
                    return Ok(true);
                }
            }
            false
        }
        Sem::Inter(items) => {
            for it in items {
                if !member(v, it, depth + 1)? {
                    return Ok(false);
                }
            }
            true
        }
        Sem::Fn(..) => matches!(v, Val::Opaque(x) if x == "function"),
        Sem::Infer(_) => return Err(Unsupported("infer outside extends".into())),
    })
}

/// Sample inhabitants of a semantic type (bounded), used for the "nothing extra" direction.
pub fn inhabitants(s: &Rc<Sem>, budget: &mut usize, depth: usize) -> ER<Vec<Val>> {
    if depth > 12 || *budget == 0 {
        return Ok(vec![]);
    }
    Ok(match &**s {
        Sem::Unknown => vec![Val::Str("anything".into()), Val::Num, Val::Null],
        Sem::Never => vec![],
        Sem::Null => vec![Val::Null],
        Sem::Undefined => vec![Val::Undefined],
        Sem::Prim("string") => vec![Val::Str("some string".into())],
        Sem::Prim("number") => vec![Val::Num],
        Sem::Prim("boolean") => vec![Val::Bool(true)],
        Sem::Prim("bigint") => vec![Val::BigInt],
        Sem::Prim(_) => vec![],
        Sem::Opaque(g) => vec![Val::Opaque(g.clone())],
        Sem::StrLit(x) => vec![Val::Str(x.clone())],
        Sem::BoolLit(b) => vec![Val::Bool(*b)],
        Sem::NumLit(_) => vec![Val::Num],
        Sem::Array(t, _) => {
            let ts = force(t, depth)?;
            let inner = inhabitants(&ts, budget, depth + 1)?;
            let mut out = vec![Val::List(vec![])];
            for i in inner.iter().take(3) {
                out.push(Val::List(vec![i.clone()]));
            }
            out
        }
        Sem::Object(props) => {
            // cartesian product, bounded: vary one property at a time around a base
            let mut per: Vec<(String, Vec<Val>)> = vec![];
            for p in props {
                let ts = force(&p.ty, depth)?;
                let mut vs = inhabitants(&ts, budget, depth + 1)?;
                if p.optional && !vs.contains(&Val::Undefined) {
                    vs.push(Val::Undefined);
                }
                if vs.is_empty() {
                    return Ok(vec![]); // a required property of type never
                }
                per.push((p.key.clone(), vs));
            }
            let mut out = vec![];
            let base: BTreeMap<String, Val> = per.iter().map(|(k, vs)| (k.clone(), vs[0].clone())).collect();
            let clean = |m: &BTreeMap<String, Val>| -> Val { Val::Obj(m.iter().filter(|(_, v)| **v != Val::Undefined).map(|(k, v)| (k.clone(), v.clone())).collect()) };
            out.push(clean(&base));
            for (k, vs) in &per {
                for v in vs.iter().skip(1).take(4) {
                    if *budget == 0 {
                        break;
                    }
                    *budget -= 1;
                    let mut m = base.clone();
                    m.insert(k.clone(), v.clone());
                    out.push(clean(&m));
                }
            }
            out
        }
        Sem::Union(items) => {
            let mut out = vec![];
            for it in items {
                out.extend(inhabitants(it, budget, depth + 1)?);
            }
            out
        }
        Sem::Inter(_) => match props_of(s, depth)? {
            Some(ps) => inhabitants(&Rc::new(Sem::Object(ps)), budget, depth + 1)?,
            None => vec![],
        },
        Sem::Fn(..) => vec![Val::Opaque("function".into())],
        Sem::Infer(_) => vec![],
    })
}

/// Convenience: a set of parsed modules linked by namespace imports.
pub struct Program {
    pub modules: BTreeMap<String, Rc<Scope>>,
}

impl Program {
    pub fn new() -> Self {
        Program { modules: BTreeMap::new() }
    }
    pub fn add_module(&mut self, name: &str, src: &str) -> Result<Rc<Scope>, TsError> {
        let stmts = parse_module(src)?;
        let scope = build_scope(name, &stmts);
        // link namespace imports by local name to already-added modules with the given key
        for st in &stmts {
            if let Stmt::ImportNs { name: local, .. } = st {
                if let Some(m) = self.modules.get(local) {
                    scope.ns_imports.borrow_mut().insert(local.clone(), m.clone());
                }
            }
        }
        self.modules.insert(name.to_string(), scope.clone());
        Ok(scope)
    }
    /// evaluate an exported (or local) alias of a module
    pub fn alias(&self, module: &str, path: &[&str]) -> ER<Rc<Sem>> {
        let scope = self.modules.get(module).ok_or(Unsupported(format!("no module {module}")))?;
        let p: Vec<String> = path.iter().map(|s| s.to_string()).collect();
        let found = if p.len() == 1 { scope.types.get(&p[0]).map(|t| (t.clone(), scope.clone())) } else { lookup_type(scope, &p) };
        let (decl, sc) = found.ok_or(Unsupported(format!("alias {path:?} not found in {module}")))?;
        if !decl.params.is_empty() {
            return Err(Unsupported("generic alias needs arguments".into()));
        }
        eval(&decl.ty, &Env::root(sc), 0)
    }
}
