//! Syntactic generators: abstract documents covering every production of the grammar
//! (not necessarily semantically valid). Used by C07, C08, C11, C16-B.

use crate::choices::Choices;
use crate::model::*;

pub const NAMES: &[&str] = &[
    "a", "b", "c", "id", "name", "user", "User", "Post", "Node", "Query", "x1", "_y", "__z",
    "type", "input", "on", "query", "fragment", "schema", "extend", "implements", "enum",
    "union", "interface", "scalar", "directive", "repeatable", "mutation", "subscription",
    "import", "from", "trueish", "nullable", "falsey", "Int", "String", "E", "FIELD", "A_B",
    // names that merely start with a keyword (keyword guards such as !NameContinue matter)
    "fromCache", "from_", "importAll", "onUser", "typeOf", "queryX", "fragmentX", "extendX",
    "implementsX", "schemaX", "inputX", "nullX", "true_", "falseX", "repeatableX", "directiveX",
];
pub const TYPE_NAMES: &[&str] = &[
    "Int", "String", "Boolean", "ID", "Float", "User", "Post", "Node", "Query", "T", "U", "E",
    "In", "Date", "type", "on", "input",
];
pub const ENUM_VALUES: &[&str] = &[
    "A", "B", "RED", "green", "trueish", "NULL", "True", "on", "type", "falsey", "null_", "E1",
];
pub const EXEC_LOCS: &[&str] = &[
    "QUERY",
    "MUTATION",
    "SUBSCRIPTION",
    "FIELD",
    "FRAGMENT_DEFINITION",
    "FRAGMENT_SPREAD",
    "INLINE_FRAGMENT",
    "VARIABLE_DEFINITION",
];
pub const TS_LOCS: &[&str] = &[
    "SCHEMA",
    "SCALAR",
    "OBJECT",
    "FIELD_DEFINITION",
    "ARGUMENT_DEFINITION",
    "INTERFACE",
    "UNION",
    "ENUM",
    "ENUM_VALUE",
    "INPUT_OBJECT",
    "INPUT_FIELD_DEFINITION",
];
pub const INTS: &[&str] = &["0", "1", "-1", "42", "-0", "1234567890123456789012", "7"];
pub const FLOATS: &[&str] = &[
    "1.5", "0.0", "-1.25", "1e3", "1E3", "1e+3", "1.5e-3", "-0.0e0", "6.02E+23", "3.14159",
    // exponents with leading zeros (printf style)
    "1e-05", "2.5E+07", "3e00",
];

/// strings: plain, hostile ASCII, Unicode
pub const STRINGS: &[&str] = &[
    "",
    "a",
    "hello world",
    "say \"hi\"",
    "back\\slash",
    "tab\there",
    "line1\nline2",
    "cr\rlf",
    "`tick` ${x}",
    "*/ close /* open",
    "caf\u{e9}",
    "\u{3042}\u{3044}",
    "\u{1F600} astral",
    // supplementary planes other than 1 (surrogate-pair arithmetic differs per plane)
    "\u{20BB7}\u{2A6D6} plane 2",
    "\u{10FFFD}\u{E0001} planes 16 and 14",
    "quote\"\"\"triple",
    "  indented",
    "a\n  b\n  c",
    "trailing \\",
    "ends with quote\"",
    "\u{8}\u{c}ctl",
    "/slash/",
    "\u{FEFF}bom",
    "x\n\ny",
    "@deprecated",
    "#import x from \"y\"",
    // control characters other than the ones with a short escape (an ANSI colour sequence, NUL, DEL, unit separator)
    "\u{1b}[1mbold\u{1b}[0m",
    "nul\u{0}char",
    "del\u{7f}end\u{1f}",
    "two */ closers */ on a line",
    "line\u{2028}and\u{2029}paragraph separators",
];

pub fn g_name(ch: &mut Choices) -> String {
    ch.pick(NAMES).to_string()
}
pub fn g_type_name(ch: &mut Choices) -> String {
    ch.pick(TYPE_NAMES).to_string()
}
pub fn g_string(ch: &mut Choices) -> String {
    if ch.chance(1, 6) {
        // composed string
        let n = ch.range(1, 3);
        let mut s = String::new();
        for _ in 0..n {
            s.push_str(*ch.pick(STRINGS));
        }
        s
    } else {
        ch.pick(STRINGS).to_string()
    }
}

pub fn g_type(ch: &mut Choices, depth: usize) -> MType {
    let k = if depth >= 3 { 0 } else { ch.weighted(&[4, 2, 2]) };
    match k {
        0 => MType::Named(g_type_name(ch)),
        1 => MType::List(Box::new(g_type(ch, depth + 1))),
        _ => {
            // NonNull of named or list (never NonNull of NonNull)
            let inner = if depth < 3 && ch.flip() {
                MType::List(Box::new(g_type(ch, depth + 1)))
            } else {
                MType::Named(g_type_name(ch))
            };
            MType::NonNull(Box::new(inner))
        }
    }
}

pub fn g_value(ch: &mut Choices, depth: usize, allow_var: bool) -> MValue {
    let max = if depth >= 3 { 7 } else { 9 };
    match ch.below(max) {
        0 => MValue::Int(ch.pick(INTS).to_string()),
        1 => MValue::Str(g_string(ch)),
        2 => MValue::Bool(ch.flip()),
        3 => MValue::Null,
        4 => MValue::Enum(ch.pick(ENUM_VALUES).to_string()),
        5 => MValue::Float(ch.pick(FLOATS).to_string()),
        6 => {
            if allow_var {
                MValue::Var(g_name(ch))
            } else {
                MValue::Int("3".into())
            }
        }
        7 => {
            let n = ch.below(4);
            MValue::List((0..n).map(|_| g_value(ch, depth + 1, allow_var)).collect())
        }
        _ => {
            let n = ch.below(4);
            MValue::Object(
                (0..n)
                    .map(|_| (g_name(ch), g_value(ch, depth + 1, allow_var)))
                    .collect(),
            )
        }
    }
}

pub fn g_args(ch: &mut Choices, allow_var: bool) -> MArgs {
    if !ch.chance(1, 3) {
        return vec![];
    }
    let n = ch.range(1, 3);
    (0..n).map(|_| (g_name(ch), g_value(ch, 0, allow_var))).collect()
}

pub fn g_directives(ch: &mut Choices, allow_var: bool) -> Vec<MDirective> {
    if !ch.chance(1, 4) {
        return vec![];
    }
    let n = ch.range(1, 2);
    (0..n)
        .map(|_| MDirective {
            name: ch.pick(&["skip", "include", "deprecated", "d", "on", "type", "model"]).to_string(),
            args: g_args(ch, allow_var),
        })
        .collect()
}

pub fn g_selections(ch: &mut Choices, depth: usize) -> Vec<MSelection> {
    let n = ch.range(1, if depth >= 3 { 2 } else { 4 });
    (0..n)
        .map(|_| {
            let k = if depth >= 3 { ch.weighted(&[6, 1, 0]) } else { ch.weighted(&[6, 1, 2]) };
            match k {
                0 => MSelection::Field(MFieldSel {
                    alias: if ch.chance(1, 4) { Some(g_name(ch)) } else { None },
                    name: g_name(ch),
                    args: g_args(ch, true),
                    directives: g_directives(ch, true),
                    sel: if depth < 3 && ch.chance(1, 3) {
                        Some(g_selections(ch, depth + 1))
                    } else {
                        None
                    },
                }),
                1 => {
                    let mut name = g_name(ch);
                    if name == "on" {
                        name = "onn".into();
                    }
                    MSelection::Spread {
                        name,
                        directives: g_directives(ch, true),
                    }
                }
                _ => MSelection::Inline {
                    on: if ch.chance(2, 3) { Some(g_type_name(ch)) } else { None },
                    directives: g_directives(ch, true),
                    sel: g_selections(ch, depth + 1),
                },
            }
        })
        .collect()
}

pub fn g_op_doc(ch: &mut Choices, allow_import: bool) -> MOpDoc {
    let n = ch.range(1, 4);
    let mut doc = vec![];
    for _ in 0..n {
        let k = ch.weighted(&[5, 3, if allow_import { 2 } else { 0 }]);
        match k {
            0 => {
                let op = *ch.pick(&[OpType::Query, OpType::Mutation, OpType::Subscription]);
                let name = if ch.chance(3, 4) { Some(g_name(ch)) } else { None };
                let nv = if ch.chance(1, 3) { ch.range(1, 3) } else { 0 };
                let vars = (0..nv)
                    .map(|_| MVarDef {
                        name: g_name(ch),
                        ty: g_type(ch, 0),
                        default: if ch.chance(1, 3) { Some(g_value(ch, 0, false)) } else { None },
                        directives: g_directives(ch, false),
                    })
                    .collect::<Vec<_>>();
                let directives = g_directives(ch, true);
                let shorthand = op == OpType::Query
                    && name.is_none()
                    && vars.is_empty()
                    && directives.is_empty()
                    && ch.chance(1, 2);
                doc.push(MExecDef::Op(MOperation {
                    op,
                    name,
                    vars,
                    directives,
                    sel: g_selections(ch, 0),
                    shorthand,
                }));
            }
            1 => {
                let mut name = g_name(ch);
                if name == "on" {
                    name = "On".into();
                }
                doc.push(MExecDef::Frag(MFragment {
                    name,
                    on: g_type_name(ch),
                    directives: g_directives(ch, true),
                    sel: g_selections(ch, 0),
                }));
            }
            _ => {
                let targets = if ch.chance(1, 3) {
                    vec![None]
                } else {
                    let n = ch.range(1, 3);
                    let mut t: Vec<Option<String>> = vec![];
                    for _ in 0..n {
                        let mut nm = g_name(ch);
                        if nm == "from" {
                            nm = "From".into();
                        }
                        t.push(Some(nm));
                    }
                    t
                };
                // mostly path-like, sometimes any string value (quotes, backslashes, line breaks, astral characters)
                let path = if ch.chance(1, 4) {
                    g_string(ch)
                } else {
                    ch.pick(&["./a.graphql", "../b/c.graphql", "x", "./d/../e.graphql", "/abs/f.graphql", "./caf\u{e9}.graphql"]).to_string()
                };
                doc.push(MExecDef::Import(MImport { targets, path }));
            }
        }
    }
    doc
}

pub fn g_desc(ch: &mut Choices) -> Option<String> {
    if ch.chance(1, 4) { Some(g_string(ch)) } else { None }
}

pub fn g_input_value(ch: &mut Choices) -> MInputValue {
    MInputValue {
        desc: g_desc(ch),
        name: g_name(ch),
        ty: g_type(ch, 0),
        default: if ch.chance(1, 3) { Some(g_value(ch, 0, false)) } else { None },
        directives: g_directives(ch, false),
    }
}

pub fn g_field_def(ch: &mut Choices) -> MField {
    let na = if ch.chance(1, 3) { ch.range(1, 3) } else { 0 };
    MField {
        desc: g_desc(ch),
        name: g_name(ch),
        args: (0..na).map(|_| g_input_value(ch)).collect(),
        ty: g_type(ch, 0),
        directives: g_directives(ch, false),
    }
}

/// body of a definition (`is_ext` = extension: at least one component must be present
/// and there is no description)
#[derive(Clone, Copy, Debug, Default)]
pub struct SynOpts {
    /// `type X` / `type X implements I` without directives and fields (spec-legal)
    pub bare_object: bool,
    /// `union U` / `union U @d` without `= members` (spec-legal)
    pub bare_union: bool,
}

pub fn g_type_def(ch: &mut Choices, kind: Kind, name: &str, is_ext: bool) -> MTypeDef {
    g_type_def_with(ch, kind, name, is_ext, SynOpts::default())
}

pub fn g_type_def_with(ch: &mut Choices, kind: Kind, name: &str, is_ext: bool, so: SynOpts) -> MTypeDef {
    let mut t = MTypeDef::new(kind, name);
    if !is_ext {
        t.desc = g_desc(ch);
    }
    t.directives = g_directives(ch, false);
    match kind {
        Kind::Scalar => {
            if is_ext && t.directives.is_empty() {
                t.directives = vec![MDirective { name: "d".into(), args: vec![] }];
            }
        }
        Kind::Object | Kind::Interface => {
            if ch.chance(1, 3) {
                let n = ch.range(1, 3);
                t.implements = (0..n).map(|_| g_type_name(ch)).collect();
            }
            // fields optional: `type X @d` / `extend type X implements I` are legal
            let nf = if ch.chance(5, 6) { ch.range(1, 4) } else { 0 };
            t.fields = (0..nf).map(|_| g_field_def(ch)).collect();
            if t.fields.is_empty() && t.directives.is_empty() {
                if is_ext && !t.implements.is_empty() {
                    // legal: extend type X implements I
                } else if kind == Kind::Interface && !is_ext {
                    // `interface X` alone is accepted by nitrogql's grammar and by the spec
                } else if kind == Kind::Object && !is_ext && so.bare_object {
                    // `type X` alone: legal per spec
                } else {
                    t.fields = vec![g_field_def(ch)];
                }
            }
        }
        Kind::Union => {
            let n = if ch.chance(5, 6) { ch.range(1, 3) } else { 0 };
            t.members = (0..n).map(|_| g_type_name(ch)).collect();
            if t.members.is_empty() && (is_ext && t.directives.is_empty()) {
                t.members = vec![g_type_name(ch)];
            }
            if t.members.is_empty() && !is_ext && !so.bare_union {
                // spec: `union U` (no `=`) is legal; `union U =` is not. Renderer prints no `=`.
                // nitrogql's grammar requires `=`: avoid the memberless definition here.
                t.members = vec![g_type_name(ch)];
            }
        }
        Kind::Enum => {
            let n = if ch.chance(5, 6) { ch.range(1, 4) } else { 0 };
            t.values = (0..n)
                .map(|_| MEnumValue {
                    desc: g_desc(ch),
                    name: ch.pick(ENUM_VALUES).to_string(),
                    directives: g_directives(ch, false),
                })
                .collect();
            if is_ext && t.values.is_empty() && t.directives.is_empty() {
                t.directives = vec![MDirective { name: "d".into(), args: vec![] }];
            }
        }
        Kind::Input => {
            let n = if ch.chance(5, 6) { ch.range(1, 4) } else { 0 };
            t.input_fields = (0..n).map(|_| g_input_value(ch)).collect();
            if is_ext && t.input_fields.is_empty() && t.directives.is_empty() {
                t.directives = vec![MDirective { name: "d".into(), args: vec![] }];
            }
        }
    }
    t
}

pub fn g_schema_def(ch: &mut Choices, is_ext: bool) -> MSchemaDef {
    let mut s = MSchemaDef {
        desc: if is_ext { None } else { g_desc(ch) },
        directives: g_directives(ch, false),
        roots: vec![],
    };
    let n = if is_ext && !s.directives.is_empty() { ch.below(3) } else { ch.range(1, 3) };
    let ops = [OpType::Query, OpType::Mutation, OpType::Subscription];
    for i in 0..n {
        s.roots.push((ops[(i + ch.below(3)) % 3], g_type_name(ch)));
    }
    s
}

pub fn g_directive_def(ch: &mut Choices) -> MDirectiveDef {
    let na = if ch.chance(1, 2) { ch.range(1, 3) } else { 0 };
    let nl = ch.range(1, 4);
    MDirectiveDef {
        desc: g_desc(ch),
        name: ch.pick(&["d", "e", "auth", "on", "model", "deprecated"]).to_string(),
        args: (0..na).map(|_| g_input_value(ch)).collect(),
        repeatable: ch.chance(1, 3),
        locations: (0..nl)
            .map(|_| {
                if ch.flip() {
                    ch.pick(EXEC_LOCS).to_string()
                } else {
                    ch.pick(TS_LOCS).to_string()
                }
            })
            .collect(),
    }
}

pub fn g_ts_def(ch: &mut Choices) -> MTsDef {
    g_ts_def_with(ch, SynOpts::default())
}

pub fn g_ts_def_with(ch: &mut Choices, so: SynOpts) -> MTsDef {
    match ch.weighted(&[8, 5, 2, 1, 1]) {
        0 => {
            let kind = *ch.pick(&Kind::ALL);
            let name = g_type_name(ch);
            MTsDef::Type(g_type_def_with(ch, kind, &name, false, so))
        }
        1 => {
            let kind = *ch.pick(&Kind::ALL);
            let name = g_type_name(ch);
            MTsDef::TypeExt(g_type_def(ch, kind, &name, true))
        }
        2 => MTsDef::Directive(g_directive_def(ch)),
        3 => MTsDef::Schema(g_schema_def(ch, false)),
        _ => MTsDef::SchemaExt(g_schema_def(ch, true)),
    }
}

pub fn g_ts_doc(ch: &mut Choices) -> MTsDoc {
    g_ts_doc_with(ch, SynOpts::default())
}

pub fn g_ts_doc_with(ch: &mut Choices, so: SynOpts) -> MTsDoc {
    let n = ch.range(1, 6);
    (0..n).map(|_| g_ts_def_with(ch, so)).collect()
}
