//! Campaign runner: proptest TestRunner over choice vectors, sharded over threads,
//! evidence/replay/known-findings plumbing.

use crate::choices::Choices;
use proptest::collection::vec as pvec;
use proptest::prelude::*;
use proptest::test_runner::{Config, RngSeed, TestCaseError, TestError, TestRunner};
use serde_json::{Value, json};
use std::cell::RefCell;
use std::collections::{BTreeMap, BTreeSet, HashSet};
use std::hash::{Hash, Hasher};
use std::path::{Path, PathBuf};
use std::sync::Mutex;
use std::sync::atomic::{AtomicBool, Ordering};
use std::time::Instant;

pub const VERIF: &str = "/verif";

#[derive(Clone, Copy, PartialEq, Eq, Debug)]
pub enum Tier {
    Quick,
    Thorough,
}

#[derive(Clone, Debug)]
pub struct Failure {
    /// stable identification of *what* fails (used for known-finding matching)
    pub signature: String,
    pub message: String,
    pub detail: Value,
}

impl Failure {
    pub fn new(signature: impl Into<String>, message: impl Into<String>, detail: Value) -> Self {
        Failure {
            signature: signature.into(),
            message: message.into(),
            detail,
        }
    }
}

pub type CaseResult = Result<(), Failure>;

#[derive(Clone, Debug)]
pub struct Finding {
    pub id: String,
    pub property: String,
    pub status: String, // "open" | "fixed"
    pub signatures: Vec<String>,
    pub excludes: Vec<String>,
    pub what_fails: String,
    pub commit: Option<String>,
}

#[derive(Clone, Debug, Default)]
pub struct Known {
    pub findings: Vec<Finding>,
}

impl Known {
    pub fn load() -> Known {
        let p = format!("{VERIF}/known_findings.json");
        let Ok(text) = std::fs::read_to_string(&p) else {
            return Known::default();
        };
        let v: Value = serde_json::from_str(&text).expect("known_findings.json must be valid JSON");
        let mut findings = vec![];
        for f in v["findings"].as_array().cloned().unwrap_or_default() {
            let strs = |k: &str| -> Vec<String> {
                f[k].as_array()
                    .map(|a| a.iter().filter_map(|x| x.as_str().map(String::from)).collect())
                    .unwrap_or_default()
            };
            findings.push(Finding {
                id: f["id"].as_str().unwrap_or("").to_string(),
                property: f["property"].as_str().unwrap_or("").to_string(),
                status: f["status"].as_str().unwrap_or("open").to_string(),
                signatures: strs("signatures"),
                excludes: strs("excludes"),
                what_fails: f["what_fails"].as_str().unwrap_or("").to_string(),
                commit: f["commit"].as_str().map(String::from),
            });
        }
        Known { findings }
    }
    /// generator feature flags excluded because of an *open* finding (any property:
    /// the same root cause must not resurface under another property).
    pub fn excluded_flags(&self) -> BTreeSet<String> {
        self.findings
            .iter()
            .filter(|f| f.status == "open")
            .flat_map(|f| f.excludes.iter().cloned())
            .collect()
    }
    pub fn match_open(&self, property: &str, signature: &str) -> Option<&Finding> {
        self.findings.iter().find(|f| {
            f.status == "open"
                && (f.property == property || f.property == "*")
                && f.signatures.iter().any(|s| sig_match(s, signature))
        })
    }
}

fn sig_match(pattern: &str, sig: &str) -> bool {
    if let Some(p) = pattern.strip_suffix('*') {
        sig.starts_with(p)
    } else {
        pattern == sig
    }
}

pub struct Env {
    pub property: String,
    pub tier: Tier,
    pub seed: u64,
    pub threads: usize,
    pub known: Known,
    pub excluded: BTreeSet<String>,
    pub replay: Option<PathBuf>,
    pub strict: bool,
    pub start: Instant,
    /// scale factor for case counts (VERIF_SCALE, default 1.0)
    pub scale: f64,
}

impl Env {
    pub fn from_args(property: &str, args: &[String]) -> Env {
        let mut tier = match std::env::var("VERIF_TIER").ok().as_deref() {
            Some("thorough") => Tier::Thorough,
            _ => Tier::Quick,
        };
        let mut replay = None;
        let mut strict = false;
        let mut i = 0;
        while i < args.len() {
            match args[i].as_str() {
                "--tier" => {
                    i += 1;
                    tier = if args.get(i).map(|s| s.as_str()) == Some("thorough") {
                        Tier::Thorough
                    } else {
                        Tier::Quick
                    };
                }
                "--replay" => {
                    i += 1;
                    replay = args.get(i).map(PathBuf::from);
                }
                "--strict" => strict = true,
                _ => {}
            }
            i += 1;
        }
        let seed = std::env::var("VERIF_SEED")
            .ok()
            .and_then(|s| s.trim().parse::<i64>().ok())
            .map(|v| v as u64)
            .unwrap_or(0);
        let threads = std::env::var("VERIF_THREADS")
            .ok()
            .and_then(|s| s.parse().ok())
            .unwrap_or_else(|| {
                std::thread::available_parallelism()
                    .map(|n| n.get())
                    .unwrap_or(4)
                    .min(16)
            });
        let scale = std::env::var("VERIF_SCALE")
            .ok()
            .and_then(|s| s.parse().ok())
            .unwrap_or(1.0);
        let known = Known::load();
        let excluded = if strict {
            BTreeSet::new()
        } else {
            known.excluded_flags()
        };
        Env {
            property: property.to_string(),
            tier,
            seed,
            threads,
            known,
            excluded,
            replay,
            strict,
            start: Instant::now(),
            scale,
        }
    }
    pub fn cases(&self, quick: u32, thorough: u32) -> u32 {
        let n = match self.tier {
            Tier::Quick => quick,
            Tier::Thorough => thorough,
        };
        ((n as f64) * self.scale).max(1.0) as u32
    }
    pub fn is_thorough(&self) -> bool {
        self.tier == Tier::Thorough
    }
}

/// Per-case context handed to property closures.
pub struct Case<'e> {
    pub ch: Choices,
    pub want_sample: bool,
    excluded: &'e BTreeSet<String>,
    pub(crate) labels: Vec<String>,
    pub(crate) nontrivial: Vec<u64>,
    pub(crate) sample: Option<Value>,
    pub(crate) evals: u64,
    pub(crate) redirected: Vec<String>,
    pub(crate) discard: Option<String>,
}

impl<'e> Case<'e> {
    pub fn new(ch: Choices, excluded: &'e BTreeSet<String>, want_sample: bool) -> Self {
        Case {
            ch,
            want_sample,
            excluded,
            labels: vec![],
            nontrivial: vec![],
            sample: None,
            evals: 0,
            redirected: vec![],
            discard: None,
        }
    }
    pub fn label(&mut self, l: &str) {
        if !self.labels.iter().any(|x| x == l) {
            self.labels.push(l.to_string());
        }
    }
    /// mark this case (or a sub-case of it) as non-trivial, identified by `key`.
    pub fn nontrivial<H: Hash>(&mut self, key: &H) {
        self.nontrivial.push(hash_of(key));
    }
    pub fn evals(&mut self, n: u64) {
        self.evals += n;
    }
    pub fn sample(&mut self, f: impl FnOnce() -> Value) {
        if self.want_sample && self.sample.is_none() {
            self.sample = Some(f());
        }
    }
    /// Is a generator feature allowed? When an open known finding excludes it,
    /// returns false and counts the redirected draw.
    pub fn allow(&mut self, flag: &str) -> bool {
        if self.excluded.contains(flag) {
            self.redirected.push(flag.to_string());
            false
        } else {
            true
        }
    }
    pub fn is_excluded(&self, flag: &str) -> bool {
        self.excluded.contains(flag)
    }
    /// harness-side discard (counted; must stay rare)
    pub fn discard(&mut self, why: &str) {
        self.discard = Some(why.to_string());
    }
}

pub fn hash_of<H: Hash>(h: &H) -> u64 {
    let mut s = std::collections::hash_map::DefaultHasher::new();
    h.hash(&mut s);
    s.finish()
}

#[derive(Default, Debug)]
pub struct CampaignStats {
    pub name: String,
    pub cases: u64,
    pub evaluations: u64,
    pub nontrivial_cases: u64,
    pub distinct: HashSet<u64>,
    pub labels: BTreeMap<String, u64>,
    pub samples: Vec<Value>,
    pub known_hits: BTreeMap<String, u64>,
    pub redirected: BTreeMap<String, u64>,
    pub discards: BTreeMap<String, u64>,
    pub exhaustive: bool,
}

impl CampaignStats {
    fn absorb_case(&mut self, c: &mut Case) {
        self.cases += 1;
        self.evaluations += c.evals.max(1);
        if !c.nontrivial.is_empty() {
            self.nontrivial_cases += 1;
        }
        for k in c.nontrivial.drain(..) {
            self.distinct.insert(k);
        }
        for l in c.labels.drain(..) {
            *self.labels.entry(l).or_default() += 1;
        }
        for r in c.redirected.drain(..) {
            *self.redirected.entry(r).or_default() += 1;
        }
        if let Some(d) = c.discard.take() {
            *self.discards.entry(d).or_default() += 1;
        }
        if let Some(s) = c.sample.take() {
            if self.samples.len() < 4 {
                self.samples.push(s);
            }
        }
    }
    fn merge(&mut self, o: CampaignStats) {
        self.cases += o.cases;
        self.evaluations += o.evaluations;
        self.nontrivial_cases += o.nontrivial_cases;
        self.distinct.extend(o.distinct);
        for (k, v) in o.labels {
            *self.labels.entry(k).or_default() += v;
        }
        for (k, v) in o.known_hits {
            *self.known_hits.entry(k).or_default() += v;
        }
        for (k, v) in o.redirected {
            *self.redirected.entry(k).or_default() += v;
        }
        for (k, v) in o.discards {
            *self.discards.entry(k).or_default() += v;
        }
        for s in o.samples {
            if self.samples.len() < 4 {
                self.samples.push(s);
            }
        }
    }
    pub fn to_json(&self) -> Value {
        json!({
            "campaign": self.name,
            "cases": self.cases,
            "evaluations": self.evaluations,
            "nontrivial_cases": self.nontrivial_cases,
            "distinct_nontrivial": self.distinct.len(),
            "labels": self.labels,
            "known_finding_hits": self.known_hits,
            "excluded_by_known_finding": self.redirected,
            "discards": self.discards,
            "exhaustive": self.exhaustive,
        })
    }
}

pub struct Violation {
    pub campaign: String,
    pub failure: Failure,
    pub replay_path: String,
}

pub struct Report<'e> {
    pub env: &'e Env,
    pub level: &'static str,
    pub rule: String,
    pub assumptions: Vec<String>,
    pub campaigns: Vec<CampaignStats>,
    pub violations: Vec<Violation>,
    pub known_lines: Vec<String>,
    pub notes: Vec<String>,
    pub inconclusive: Vec<String>,
    pub extra: BTreeMap<String, Value>,
    /// override of proptest's max_shrink_iters for the following campaigns (expensive cases)
    pub shrink_iters: Option<u32>,
}

thread_local! {
    static LAST_PANIC: RefCell<Option<(String, String)>> = const { RefCell::new(None) };
}

pub fn install_panic_hook() {
    std::panic::set_hook(Box::new(|info| {
        let msg = if let Some(s) = info.payload().downcast_ref::<&str>() {
            s.to_string()
        } else if let Some(s) = info.payload().downcast_ref::<String>() {
            s.clone()
        } else {
            "<non-string panic>".to_string()
        };
        let loc = info
            .location()
            .map(|l| format!("{}:{}", l.file(), l.line()))
            .unwrap_or_else(|| "<unknown>".into());
        LAST_PANIC.with(|p| *p.borrow_mut() = Some((msg, loc)));
    }));
}

#[derive(Clone, Debug)]
pub struct PanicInfo {
    pub message: String,
    pub location: String,
}

impl PanicInfo {
    pub fn in_repo(&self) -> bool {
        self.location.starts_with("/repo/") || self.location.starts_with("crates/")
    }
    /// signature: location without line number + message head (stable under small edits)
    pub fn signature(&self) -> String {
        let file = self.location.rsplit_once(':').map(|x| x.0).unwrap_or(&self.location);
        let file = file.strip_prefix("/repo/").unwrap_or(file);
        let head: String = self
            .message
            .chars()
            .take_while(|c| !c.is_ascii_digit() && *c != '\'' && *c != '"' && *c != '`')
            .take(48)
            .collect();
        format!("panic@{}:{}", file, head.trim())
    }
}

/// Run `f`, converting an unwind into PanicInfo.
pub fn guard<T>(f: impl FnOnce() -> T) -> Result<T, PanicInfo> {
    LAST_PANIC.with(|p| *p.borrow_mut() = None);
    match std::panic::catch_unwind(std::panic::AssertUnwindSafe(f)) {
        Ok(v) => Ok(v),
        Err(_) => {
            let (message, location) = LAST_PANIC
                .with(|p| p.borrow_mut().take())
                .unwrap_or(("<unknown panic>".into(), "<unknown>".into()));
            Err(PanicInfo { message, location })
        }
    }
}

pub fn panic_failure(stage: &str, p: &PanicInfo, detail: Value) -> Failure {
    Failure::new(
        p.signature(),
        format!("{stage} panicked: {} at {}", p.message, p.location),
        detail,
    )
}

impl<'e> Report<'e> {
    pub fn new(env: &'e Env, level: &'static str, rule: &str) -> Self {
        Report {
            env,
            level,
            rule: rule.to_string(),
            assumptions: vec![],
            campaigns: vec![],
            violations: vec![],
            known_lines: vec![],
            notes: vec![],
            inconclusive: vec![],
            extra: BTreeMap::new(),
            shrink_iters: None,
        }
    }
    pub fn assume(&mut self, s: &str) {
        self.assumptions.push(s.to_string());
    }
    pub fn note(&mut self, s: impl Into<String>) {
        self.notes.push(s.into());
    }

    fn record_violation(&mut self, campaign: &str, failure: Failure, choices: Option<&[u16]>) {
        let dir = format!("{VERIF}/replays/{}", self.env.property);
        let _ = std::fs::create_dir_all(&dir);
        let h = hash_of(&(campaign, &failure.signature, choices.map(|c| c.to_vec())));
        let path = format!("{dir}/{campaign}-{:012x}.json", h & 0xffff_ffff_ffff);
        let body = json!({
            "property": self.env.property,
            "campaign": campaign,
            "seed": self.env.seed,
            "choices": choices,
            "signature": failure.signature,
            "message": failure.message,
            "detail": failure.detail,
        });
        let _ = std::fs::write(&path, serde_json::to_string_pretty(&body).unwrap());
        println!("  failure[{campaign}] {}: {}", failure.signature, failure.message);
        println!("VIOLATION property={} replay={}", self.env.property, path);
        self.violations.push(Violation {
            campaign: campaign.to_string(),
            failure,
            replay_path: path,
        });
    }

    /// Randomised campaign: `cases` choice vectors of length in len.0..=len.1.
    pub fn campaign<F>(&mut self, name: &str, cases: u32, len: (usize, usize), f: F)
    where
        F: Fn(&mut Case) -> CaseResult + Sync,
    {
        if let Some(rp) = &self.env.replay {
            self.replay_file(name, rp.clone(), &f);
            return;
        }
        let t0 = Instant::now();
        let threads = match self.env.tier {
            Tier::Quick => self.env.threads.min(8),
            Tier::Thorough => self.env.threads,
        }
        .max(1)
        .min(cases.max(1) as usize);
        let per = cases / threads as u32;
        let extra = cases % threads as u32;
        let stop = AtomicBool::new(false);
        let env = self.env;
        let shrink_iters = self.shrink_iters;
        let results: Mutex<Vec<(usize, CampaignStats, Option<(Vec<u16>, Failure)>)>> =
            Mutex::new(vec![]);
        let campaign_hash = hash_of(&name);
        std::thread::scope(|scope| {
            for shard in 0..threads {
                let n = per + if (shard as u32) < extra { 1 } else { 0 };
                let f = &f;
                let stop = &stop;
                let results = &results;
                std::thread::Builder::new()
                    .stack_size(256 << 20)
                    .spawn_scoped(scope, move || {
                        let seed = env
                            .seed
                            .wrapping_mul(0x9E37_79B9_7F4A_7C15)
                            .wrapping_add(campaign_hash)
                            .wrapping_add((shard as u64) << 32 | 0x5bd1);
                        let out = run_shard(env, name, n, len, seed, stop, f, shrink_iters);
                        results.lock().unwrap().push((shard, out.0, out.1));
                    })
                    .unwrap();
            }
        });
        let mut rs = results.into_inner().unwrap();
        rs.sort_by_key(|r| r.0);
        let mut total = CampaignStats {
            name: name.to_string(),
            ..Default::default()
        };
        let mut first_fail = None;
        for (_, st, fail) in rs {
            total.merge(st);
            if first_fail.is_none() {
                first_fail = fail;
            }
        }
        println!(
            "  campaign {name}: cases={} evaluations={} distinct_nontrivial={} known_hits={:?} ({:.1}s)",
            total.cases,
            total.evaluations,
            total.distinct.len(),
            total.known_hits,
            t0.elapsed().as_secs_f64()
        );
        self.campaigns.push(total);
        if let Some((choices, failure)) = first_fail {
            self.record_violation(name, failure, Some(&choices));
        }
    }

    /// Deterministic enumeration campaign: `f` is called with each item.
    pub fn enumerate<I, T, F>(&mut self, name: &str, exhaustive: bool, items: I, f: F)
    where
        I: Iterator<Item = T> + Send,
        T: Send + std::fmt::Debug,
        F: Fn(&mut Case, &T) -> CaseResult + Sync,
    {
        if self.env.replay.is_some() {
            return;
        }
        let t0 = Instant::now();
        let threads = match self.env.tier {
            Tier::Quick => self.env.threads.min(8),
            Tier::Thorough => self.env.threads,
        }
        .max(1);
        let env = self.env;
        let items = Mutex::new(items);
        let stop = AtomicBool::new(false);
        let results: Mutex<Vec<(CampaignStats, Option<Failure>)>> = Mutex::new(vec![]);
        std::thread::scope(|scope| {
            for _ in 0..threads {
                let f = &f;
                let items = &items;
                let stop = &stop;
                let results = &results;
                std::thread::Builder::new()
                    .stack_size(256 << 20)
                    .spawn_scoped(scope, move || {
                        let mut st = CampaignStats::default();
                        let mut fail = None;
                        loop {
                            if stop.load(Ordering::Relaxed) {
                                break;
                            }
                            // take a batch
                            let batch: Vec<T> = {
                                let mut it = items.lock().unwrap();
                                let mut b = Vec::with_capacity(2048);
                                for _ in 0..2048 {
                                    match it.next() {
                                        Some(x) => b.push(x),
                                        None => break,
                                    }
                                }
                                b
                            };
                            if batch.is_empty() {
                                break;
                            }
                            for item in batch.iter() {
                                if let Ok(p) = std::env::var("VH_INFLIGHT") {
                                    let _ = std::fs::write(&p, format!("{{\"in_flight_item\": {:?}}}", format!("{item:?}")));
                                }
                                let want = st.samples.len() < 4 && (st.cases % 97 == 0);
                                let mut case = Case::new(Choices::new(vec![]), &env.excluded, want);
                                let r = run_case(env, f_adapter(f, item), &mut case, &mut st);
                                if let Err(e) = r {
                                    fail = Some(e);
                                    stop.store(true, Ordering::Relaxed);
                                    break;
                                }
                            }
                        }
                        results.lock().unwrap().push((st, fail));
                    })
                    .unwrap();
            }
        });
        let mut total = CampaignStats {
            name: name.to_string(),
            exhaustive,
            ..Default::default()
        };
        let mut first_fail: Option<Failure> = None;
        for (st, fail) in results.into_inner().unwrap() {
            total.merge(st);
            if let Some(fl) = fail {
                // deterministic choice: smallest message
                if first_fail
                    .as_ref()
                    .map(|x| fl.detail.to_string().len() < x.detail.to_string().len())
                    .unwrap_or(true)
                {
                    first_fail = Some(fl);
                }
            }
        }
        println!(
            "  enumeration {name}: cases={} evaluations={} distinct_nontrivial={} exhaustive={} ({:.1}s)",
            total.cases,
            total.evaluations,
            total.distinct.len(),
            exhaustive,
            t0.elapsed().as_secs_f64()
        );
        self.campaigns.push(total);
        if let Some(failure) = first_fail {
            self.record_violation(name, failure, None);
        }
    }

    fn replay_file<F>(&mut self, name: &str, path: PathBuf, f: &F)
    where
        F: Fn(&mut Case) -> CaseResult + Sync,
    {
        let Ok(text) = std::fs::read_to_string(&path) else {
            self.inconclusive.push(format!("cannot read replay {path:?}"));
            return;
        };
        let v: Value = serde_json::from_str(&text).unwrap_or(Value::Null);
        if v["campaign"].as_str() != Some(name) {
            return;
        }
        let choices: Vec<u16> = v["choices"]
            .as_array()
            .map(|a| a.iter().map(|x| x.as_u64().unwrap_or(0) as u16).collect())
            .unwrap_or_default();
        let empty = BTreeSet::new();
        let mut case = Case::new(Choices::new(choices.clone()), &empty, true);
        let mut st = CampaignStats {
            name: name.to_string(),
            ..Default::default()
        };
        let r = run_case_strict(f, &mut case, &mut st);
        println!("  replay {name}: {:?}", r.as_ref().map_err(|e| &e.signature));
        if let Some(s) = st.samples.first() {
            println!("  replayed case: {}", s);
        }
        self.campaigns.push(st);
        if let Err(failure) = r {
            self.record_violation(name, failure, Some(&choices));
        }
    }

    /// Run the probe of one known finding (by id). `probe` returns Err(failure) when
    /// the defect manifests.
    pub fn probe(&mut self, finding_id: &str, probe: impl FnOnce() -> CaseResult) {
        if self.env.replay.is_some() {
            return;
        }
        let Some(f) = self.env.known.findings.iter().find(|f| f.id == finding_id).cloned() else {
            // not listed: the probe is an ordinary regression case
            match guarded_probe(probe) {
                Ok(()) => {}
                Err(fl) => self.record_violation(&format!("probe-{finding_id}"), fl, None),
            }
            return;
        };
        let r = guarded_probe(probe);
        match (f.status.as_str(), r) {
            ("open", Err(fl)) => {
                let line = format!(
                    "KNOWN-FINDING: property={} {} [{}] ({})",
                    self.env.property, f.what_fails, f.id, fl.signature
                );
                println!("{line}");
                self.known_lines.push(line);
            }
            ("open", Ok(())) => {
                self.note(format!(
                    "known finding {} no longer reproduces (probe passed); consider marking it fixed",
                    f.id
                ));
            }
            (_, Err(fl)) => {
                // fixed entries suppress nothing
                self.record_violation(&format!("probe-{finding_id}"), fl, None);
            }
            (_, Ok(())) => {}
        }
    }

    /// merges the evidence another engine wrote for the same property (path in $VH_EXTRA_EVIDENCE) under
    /// coverage.extra[key]; the exit status of that engine is handled by ./check
    pub fn merge_extra_evidence(&mut self, key: &str, what: &str) {
        if let Ok(p) = std::env::var("VH_EXTRA_EVIDENCE") {
            match std::fs::read_to_string(&p).ok().and_then(|t| serde_json::from_str::<Value>(&t).ok()) {
                Some(v) => {
                    self.note(format!(
                        "{what}: evaluations={} distinct_nontrivial={} violations={}",
                        v["coverage"]["evaluations"], v["coverage"]["distinct_nontrivial"], v["violations"]
                    ));
                    self.extra.insert(key.to_string(), json!({"coverage": v["coverage"], "assumptions": v["assumptions"], "wall_s": v["wall_s"], "violations": v["violations"]}));
                }
                None => self.note(format!("{what}: no evidence file found (that engine did not finish)")),
            }
        }
    }

    /// adds the summary lines of the libFuzzer driver (tools/fuzz.sh, path in $VH_FUZZ_SUMMARY) to the evidence
    pub fn merge_fuzz_summary(&mut self) {
        if let Ok(p) = std::env::var("VH_FUZZ_SUMMARY") {
            if let Ok(t) = std::fs::read_to_string(&p) {
                let lines: Vec<String> = t.lines().filter(|l| l.starts_with("FUZZ ") || l.starts_with("VIOLATION") || l.starts_with("INCONCLUSIVE")).map(String::from).collect();
                if !lines.is_empty() {
                    self.note(format!("libFuzzer targets (tools/fuzz.sh): {}", lines.join("; ")));
                    self.extra.insert("libfuzzer".into(), json!(lines));
                }
            }
        }
    }

    pub fn finish(self) -> i32 {
        let wall = self.env.start.elapsed().as_secs_f64();
        let mut evaluations = 0u64;
        let mut distinct: HashSet<(usize, u64)> = HashSet::new();
        let mut samples = vec![];
        let mut exhaustive_all = !self.campaigns.is_empty();
        for (i, c) in self.campaigns.iter().enumerate() {
            evaluations += c.evaluations;
            for d in &c.distinct {
                distinct.insert((i, *d));
            }
            for s in &c.samples {
                if samples.len() < 8 {
                    samples.push(json!({"campaign": c.name, "case": s}));
                }
            }
            exhaustive_all &= c.exhaustive;
        }
        let ev = json!({
            "property_id": self.env.property,
            "tier": if self.env.tier == Tier::Quick {"quick"} else {"thorough"},
            "seed": self.env.seed as i64,
            "level": self.level,
            "coverage": {
                "evaluations": evaluations,
                "distinct_nontrivial": distinct.len(),
                "rule": self.rule,
                "samples": samples,
                "exhaustive": exhaustive_all,
                "campaigns": self.campaigns.iter().map(|c| c.to_json()).collect::<Vec<_>>(),
                "known_findings_reported": self.known_lines,
                "notes": self.notes,
                "extra": self.extra,
            },
            "assumptions": self.assumptions,
            "wall_s": wall,
            "violations": self.violations.len(),
        });
        if self.env.replay.is_none() {
            let dir = format!("{VERIF}/evidence");
            let _ = std::fs::create_dir_all(&dir);
            let path = std::env::var("VH_EVIDENCE_PATH").unwrap_or_else(|_| format!("{dir}/{}.json", self.env.property));
            std::fs::write(&path, serde_json::to_string_pretty(&ev).unwrap())
                .expect("write evidence");
        }
        for n in &self.notes {
            println!("  note: {n}");
        }
        if !self.violations.is_empty() {
            println!(
                "RESULT property={} violations={} wall={:.1}s",
                self.env.property,
                self.violations.len(),
                wall
            );
            return 1;
        }
        if !self.inconclusive.is_empty() {
            for i in &self.inconclusive {
                println!("INCONCLUSIVE property={} {}", self.env.property, i);
            }
            return 2;
        }
        println!(
            "RESULT property={} ok evaluations={} distinct_nontrivial={} wall={:.1}s",
            self.env.property,
            evaluations,
            distinct.len(),
            wall
        );
        0
    }
}

fn guarded_probe(probe: impl FnOnce() -> CaseResult) -> CaseResult {
    match guard(probe) {
        Ok(r) => r,
        Err(p) => Err(panic_failure("probe", &p, Value::Null)),
    }
}

fn f_adapter<'a, T, F>(f: &'a F, item: &'a T) -> impl Fn(&mut Case) -> CaseResult + 'a
where
    F: Fn(&mut Case, &T) -> CaseResult,
{
    move |c: &mut Case| f(c, item)
}

/// Runs one case; known-finding matches are swallowed (counted). Harness panics abort.
fn run_case<F>(env: &Env, f: F, case: &mut Case, st: &mut CampaignStats) -> CaseResult
where
    F: Fn(&mut Case) -> CaseResult,
{
    let r = match guard(|| f(case)) {
        Ok(r) => r,
        Err(p) => {
            if p.in_repo() {
                Err(panic_failure("uncaught", &p, Value::Null))
            } else {
                eprintln!(
                    "HARNESS-ERROR property={} panic in harness: {} at {}",
                    env.property, p.message, p.location
                );
                eprintln!("  choices (first 64): {:?}", &case.ch.data()[..case.ch.data().len().min(64)]);
                std::process::exit(2);
            }
        }
    };
    match r {
        Ok(()) => {
            st.absorb_case(case);
            Ok(())
        }
        Err(fl) => {
            if !env.strict {
                if let Some(k) = env.known.match_open(&env.property, &fl.signature) {
                    *st.known_hits.entry(k.id.clone()).or_default() += 1;
                    st.cases += 1;
                    st.evaluations += case.evals.max(1);
                    return Ok(());
                }
            }
            Err(fl)
        }
    }
}

fn run_case_strict<F>(f: &F, case: &mut Case, st: &mut CampaignStats) -> CaseResult
where
    F: Fn(&mut Case) -> CaseResult,
{
    let r = match guard(|| f(case)) {
        Ok(r) => r,
        Err(p) => Err(panic_failure("uncaught", &p, Value::Null)),
    };
    st.absorb_case(case);
    r
}

fn run_shard<F>(
    env: &Env,
    name: &str,
    cases: u32,
    len: (usize, usize),
    seed: u64,
    stop: &AtomicBool,
    f: &F,
    shrink_iters: Option<u32>,
) -> (CampaignStats, Option<(Vec<u16>, Failure)>)
where
    F: Fn(&mut Case) -> CaseResult + Sync,
{
    if cases == 0 {
        return (CampaignStats::default(), None);
    }
    let config = Config {
        cases,
        failure_persistence: None,
        rng_seed: RngSeed::Fixed(seed),
        max_shrink_iters: std::env::var("VH_SHRINK_ITERS").ok().and_then(|v| v.parse().ok()).unwrap_or_else(|| shrink_iters.unwrap_or(if env.tier == Tier::Quick { 3000 } else { 8000 })),
        max_global_rejects: 1_000_000,
        verbose: 0,
        // shrinking is time-boxed (it affects only how small the replay is, never the verdict), so that
        // an expensive property cannot run into the watchdog while minimising a real failure
        max_shrink_time: std::env::var("VH_SHRINK_MS").ok().and_then(|v| v.parse().ok()).unwrap_or(if env.tier == Tier::Quick { 120_000 } else { 600_000 }),
        ..Config::default()
    };
    let mut runner = TestRunner::new(config);
    let stats = RefCell::new(CampaignStats::default());
    let failed = std::cell::Cell::new(false);
    let strategy = pvec(any::<u16>(), len.0..=len.1);
    let result = runner.run(&strategy, |v| {
        if stop.load(Ordering::Relaxed) && !failed.get() {
            // another shard already failed; finish quickly
            return Ok(());
        }
        let counting = !failed.get();
        let want = counting && {
            let s = stats.borrow();
            s.samples.len() < 4 && s.cases % 53 == 7
        };
        if let Ok(p) = std::env::var("VH_INFLIGHT") {
            // same shape as a replay file, so that it can be replayed as is
            let _ = std::fs::write(&p, format!("{{\"property\": {:?}, \"campaign\": {:?}, \"signature\": \"abort\", \"choices\": {:?}}}", env.property, name, v));
        }
        let mut case = Case::new(Choices::new(v), &env.excluded, want);
        let mut scratch = CampaignStats::default();
        let r = if counting {
            run_case(env, f, &mut case, &mut stats.borrow_mut())
        } else {
            run_case(env, f, &mut case, &mut scratch)
        };
        match r {
            Ok(()) => Ok(()),
            Err(fl) => {
                failed.set(true);
                stop.store(true, Ordering::Relaxed);
                Err(TestCaseError::fail(fl.signature))
            }
        }
    });
    let stats = stats.into_inner();
    match result {
        Ok(()) => (stats, None),
        Err(TestError::Fail(_, minimal)) => {
            // recompute the failure on the minimal input
            let empty_stats = &mut CampaignStats::default();
            let mut case = Case::new(Choices::new(minimal.clone()), &env.excluded, true);
            let r = run_case(env, f, &mut case, empty_stats);
            let failure = match r {
                Err(fl) => fl,
                Ok(()) => Failure::new(
                    "flaky",
                    "minimal case did not fail on re-run (non-deterministic check?)",
                    Value::Null,
                ),
            };
            (stats, Some((minimal, failure)))
        }
        Err(TestError::Abort(reason)) => {
            eprintln!("HARNESS-ERROR proptest aborted: {reason}");
            std::process::exit(2);
        }
    }
}

pub fn start_watchdog(secs: u64, property: &str) {
    let property = property.to_string();
    std::thread::spawn(move || {
        std::thread::sleep(std::time::Duration::from_secs(secs));
        println!("INCONCLUSIVE property={property} watchdog after {secs}s");
        std::process::exit(2);
    });
}

pub fn work_dir(tag: &str) -> PathBuf {
    let p = Path::new(VERIF)
        .join("work")
        .join(format!("{tag}-{}", std::process::id()));
    let _ = std::fs::remove_dir_all(&p);
    std::fs::create_dir_all(&p).unwrap();
    p
}
