//! Abstract documents (what a GraphQL text denotes), independent of nitrogql's AST.

#[derive(Clone, Debug, PartialEq, Eq, Hash, PartialOrd, Ord)]
pub enum MType {
    Named(String),
    List(Box<MType>),
    NonNull(Box<MType>),
}

impl MType {
    pub fn named(s: &str) -> MType {
        MType::Named(s.to_string())
    }
    pub fn list(t: MType) -> MType {
        MType::List(Box::new(t))
    }
    pub fn non_null(t: MType) -> MType {
        MType::NonNull(Box::new(t))
    }
    pub fn base(&self) -> &str {
        match self {
            MType::Named(n) => n,
            MType::List(t) | MType::NonNull(t) => t.base(),
        }
    }
    pub fn is_non_null(&self) -> bool {
        matches!(self, MType::NonNull(_))
    }
    pub fn nullable(&self) -> &MType {
        match self {
            MType::NonNull(t) => t,
            t => t,
        }
    }
    pub fn show(&self) -> String {
        match self {
            MType::Named(n) => n.clone(),
            MType::List(t) => format!("[{}]", t.show()),
            MType::NonNull(t) => format!("{}!", t.show()),
        }
    }
    pub fn list_depth(&self) -> usize {
        match self {
            MType::Named(_) => 0,
            MType::List(t) => 1 + t.list_depth(),
            MType::NonNull(t) => t.list_depth(),
        }
    }
}

#[derive(Clone, Debug, PartialEq, Eq, Hash, PartialOrd, Ord)]
pub enum MValue {
    Var(String),
    Int(String),
    Float(String),
    Str(String),
    Bool(bool),
    Null,
    Enum(String),
    List(Vec<MValue>),
    Object(Vec<(String, MValue)>),
}

pub type MArgs = Vec<(String, MValue)>;

#[derive(Clone, Debug, PartialEq, Eq, Hash, PartialOrd, Ord)]
pub struct MDirective {
    pub name: String,
    pub args: MArgs,
}

#[derive(Clone, Copy, Debug, PartialEq, Eq, Hash, PartialOrd, Ord)]
pub enum OpType {
    Query,
    Mutation,
    Subscription,
}

impl OpType {
    pub fn as_str(&self) -> &'static str {
        match self {
            OpType::Query => "query",
            OpType::Mutation => "mutation",
            OpType::Subscription => "subscription",
        }
    }
}

#[derive(Clone, Debug, PartialEq, Eq, Hash, PartialOrd, Ord)]
pub struct MInputValue {
    pub desc: Option<String>,
    pub name: String,
    pub ty: MType,
    pub default: Option<MValue>,
    pub directives: Vec<MDirective>,
}

#[derive(Clone, Debug, PartialEq, Eq, Hash, PartialOrd, Ord)]
pub struct MField {
    pub desc: Option<String>,
    pub name: String,
    pub args: Vec<MInputValue>,
    pub ty: MType,
    pub directives: Vec<MDirective>,
}

#[derive(Clone, Debug, PartialEq, Eq, Hash, PartialOrd, Ord)]
pub struct MEnumValue {
    pub desc: Option<String>,
    pub name: String,
    pub directives: Vec<MDirective>,
}

#[derive(Clone, Copy, Debug, PartialEq, Eq, Hash, PartialOrd, Ord)]
pub enum Kind {
    Scalar,
    Object,
    Interface,
    Union,
    Enum,
    Input,
}

impl Kind {
    pub const ALL: [Kind; 6] = [
        Kind::Scalar,
        Kind::Object,
        Kind::Interface,
        Kind::Union,
        Kind::Enum,
        Kind::Input,
    ];
    pub fn keyword(&self) -> &'static str {
        match self {
            Kind::Scalar => "scalar",
            Kind::Object => "type",
            Kind::Interface => "interface",
            Kind::Union => "union",
            Kind::Enum => "enum",
            Kind::Input => "input",
        }
    }
}

/// A type definition or type extension body (extension: desc is always None).
#[derive(Clone, Debug, PartialEq, Eq, Hash, PartialOrd, Ord)]
pub struct MTypeDef {
    pub kind: Kind,
    pub desc: Option<String>,
    pub name: String,
    pub implements: Vec<String>,
    pub directives: Vec<MDirective>,
    pub fields: Vec<MField>,
    pub members: Vec<String>,
    pub values: Vec<MEnumValue>,
    pub input_fields: Vec<MInputValue>,
}

impl MTypeDef {
    pub fn new(kind: Kind, name: &str) -> MTypeDef {
        MTypeDef {
            kind,
            desc: None,
            name: name.to_string(),
            implements: vec![],
            directives: vec![],
            fields: vec![],
            members: vec![],
            values: vec![],
            input_fields: vec![],
        }
    }
}

#[derive(Clone, Debug, PartialEq, Eq, Hash, PartialOrd, Ord)]
pub struct MSchemaDef {
    pub desc: Option<String>,
    pub directives: Vec<MDirective>,
    pub roots: Vec<(OpType, String)>,
}

#[derive(Clone, Debug, PartialEq, Eq, Hash, PartialOrd, Ord)]
pub struct MDirectiveDef {
    pub desc: Option<String>,
    pub name: String,
    pub args: Vec<MInputValue>,
    pub repeatable: bool,
    pub locations: Vec<String>,
}

#[derive(Clone, Debug, PartialEq, Eq, Hash, PartialOrd, Ord)]
pub enum MTsDef {
    Schema(MSchemaDef),
    Type(MTypeDef),
    Directive(MDirectiveDef),
    SchemaExt(MSchemaDef),
    TypeExt(MTypeDef),
}

pub type MTsDoc = Vec<MTsDef>;

#[derive(Clone, Debug, PartialEq, Eq, Hash, PartialOrd, Ord)]
pub enum MSelection {
    Field(MFieldSel),
    Spread {
        name: String,
        directives: Vec<MDirective>,
    },
    Inline {
        on: Option<String>,
        directives: Vec<MDirective>,
        sel: Vec<MSelection>,
    },
}

#[derive(Clone, Debug, PartialEq, Eq, Hash, PartialOrd, Ord)]
pub struct MFieldSel {
    pub alias: Option<String>,
    pub name: String,
    pub args: MArgs,
    pub directives: Vec<MDirective>,
    pub sel: Option<Vec<MSelection>>,
}

impl MFieldSel {
    pub fn key(&self) -> &str {
        self.alias.as_deref().unwrap_or(&self.name)
    }
}

#[derive(Clone, Debug, PartialEq, Eq, Hash, PartialOrd, Ord)]
pub struct MVarDef {
    pub name: String,
    pub ty: MType,
    pub default: Option<MValue>,
    pub directives: Vec<MDirective>,
}

#[derive(Clone, Debug, PartialEq, Eq, Hash, PartialOrd, Ord)]
pub struct MOperation {
    pub op: OpType,
    pub name: Option<String>,
    pub vars: Vec<MVarDef>,
    pub directives: Vec<MDirective>,
    pub sel: Vec<MSelection>,
    /// rendered with the anonymous-query shorthand `{ ... }` (only legal for
    /// anonymous queries without variables/directives)
    pub shorthand: bool,
}

#[derive(Clone, Debug, PartialEq, Eq, Hash, PartialOrd, Ord)]
pub struct MFragment {
    pub name: String,
    pub on: String,
    pub directives: Vec<MDirective>,
    pub sel: Vec<MSelection>,
}

#[derive(Clone, Debug, PartialEq, Eq, Hash, PartialOrd, Ord)]
pub struct MImport {
    /// None = `*`
    pub targets: Vec<Option<String>>,
    pub path: String,
}

#[derive(Clone, Debug, PartialEq, Eq, Hash, PartialOrd, Ord)]
pub enum MExecDef {
    Op(MOperation),
    Frag(MFragment),
    Import(MImport),
}

pub type MOpDoc = Vec<MExecDef>;

// ---------------------------------------------------------------------------
// string visitors (used to switch string features on/off after generation)

pub fn map_value_strings(v: &mut MValue, f: &mut dyn FnMut(&mut String)) {
    match v {
        MValue::Str(s) => f(s),
        MValue::List(vs) => vs.iter_mut().for_each(|v| map_value_strings(v, f)),
        MValue::Object(fs) => fs.iter_mut().for_each(|(_, v)| map_value_strings(v, f)),
        _ => {}
    }
}

fn map_dirs(ds: &mut [MDirective], f: &mut dyn FnMut(&mut String)) {
    for d in ds {
        for (_, v) in d.args.iter_mut() {
            map_value_strings(v, f);
        }
    }
}

fn map_input_value(v: &mut MInputValue, f: &mut dyn FnMut(&mut String)) {
    if let Some(d) = &mut v.desc {
        f(d);
    }
    if let Some(d) = &mut v.default {
        map_value_strings(d, f);
    }
    map_dirs(&mut v.directives, f);
}

pub fn map_ts_strings(doc: &mut [MTsDef], f: &mut dyn FnMut(&mut String)) {
    for d in doc {
        match d {
            MTsDef::Schema(s) | MTsDef::SchemaExt(s) => {
                if let Some(d) = &mut s.desc {
                    f(d);
                }
                map_dirs(&mut s.directives, f);
            }
            MTsDef::Type(t) | MTsDef::TypeExt(t) => {
                if let Some(d) = &mut t.desc {
                    f(d);
                }
                map_dirs(&mut t.directives, f);
                for fl in t.fields.iter_mut() {
                    if let Some(d) = &mut fl.desc {
                        f(d);
                    }
                    for a in fl.args.iter_mut() {
                        map_input_value(a, f);
                    }
                    map_dirs(&mut fl.directives, f);
                }
                for v in t.values.iter_mut() {
                    if let Some(d) = &mut v.desc {
                        f(d);
                    }
                    map_dirs(&mut v.directives, f);
                }
                for v in t.input_fields.iter_mut() {
                    map_input_value(v, f);
                }
            }
            MTsDef::Directive(d) => {
                if let Some(x) = &mut d.desc {
                    f(x);
                }
                for a in d.args.iter_mut() {
                    map_input_value(a, f);
                }
            }
        }
    }
}

fn map_sel_strings(sels: &mut [MSelection], f: &mut dyn FnMut(&mut String)) {
    for s in sels {
        match s {
            MSelection::Field(fl) => {
                for (_, v) in fl.args.iter_mut() {
                    map_value_strings(v, f);
                }
                map_dirs(&mut fl.directives, f);
                if let Some(s) = &mut fl.sel {
                    map_sel_strings(s, f);
                }
            }
            MSelection::Spread { directives, .. } => map_dirs(directives, f),
            MSelection::Inline { directives, sel, .. } => {
                map_dirs(directives, f);
                map_sel_strings(sel, f);
            }
        }
    }
}

pub fn map_op_strings(doc: &mut [MExecDef], f: &mut dyn FnMut(&mut String)) {
    for d in doc {
        match d {
            MExecDef::Op(o) => {
                for v in o.vars.iter_mut() {
                    if let Some(d) = &mut v.default {
                        map_value_strings(d, f);
                    }
                    map_dirs(&mut v.directives, f);
                }
                map_dirs(&mut o.directives, f);
                map_sel_strings(&mut o.sel, f);
            }
            MExecDef::Frag(fr) => {
                map_dirs(&mut fr.directives, f);
                map_sel_strings(&mut fr.sel, f);
            }
            // the path of an import is a string value like any other (printed by the same routine)
            MExecDef::Import(i) => f(&mut i.path),
        }
    }
}
