//! Generated project directories for the CLI-driven checks (C06, C15, C17, C18, C20).

use crate::choices::Choices;
use crate::cli::Project;
use crate::gen_ops::*;
use crate::gen_schema::*;
use crate::model::*;
use crate::props::c11::render_ts_file;
use crate::render::*;
use crate::runner::Case;
use std::path::Path;

#[derive(Clone, Debug)]
pub struct Layout {
    /// directory (relative to the project dir) holding the config = root_dir
    pub root: String,
    pub schema_dir: String,
    pub ops_dir: String,
    pub schema_output: String,
    pub resolvers_output: Option<String>,
    pub server_graphql_output: Option<String>,
    pub mode: &'static str,
}

#[derive(Clone, Debug)]
pub struct GenProject {
    pub layout: Layout,
    /// relative path (from project dir) -> text
    pub schema_files: Vec<(String, String)>,
    pub op_files: Vec<(String, String)>,
    pub config: String,
    pub gs: GenSchema,
    pub schema_file_models: Vec<Vec<MTsDef>>,
    pub op_file_models: Vec<MOpDoc>,
    pub has_import: bool,
    pub has_extension: bool,
    pub cfg: crate::refexec::ScalarCfg,
}

pub const MODES: [&str; 3] = ["with-loader-ts-5.0", "with-loader-ts-4.0", "standalone-ts-4.0"];

pub fn gen_layout(ch: &mut Choices) -> Layout {
    let root = ch.pick(&["proj", "proj/app", "."]).to_string();
    // "pkg/<x>/src" entries: trees that diverge and then repeat a directory name at the same depth
    let schema_dir = ch.pick(&["schema", ".", "src/graphql/schema", "../shared", "pkg/api/src"]).to_string();
    let ops_dir = ch.pick(&["src/ops", ".", "ops", "src/deep/er/ops", "pkg/client/src"]).to_string();
    let ext = ch.pick(&["d.ts", "ts", "d.mts", "mts", "d.cts"]).to_string();
    // stems with extra dots: the module specifier is derived by replacing the TypeScript extension only
    let stem = *ch.pick(&["schema", "schema", "schema.generated", "api.v1.schema"]);
    let schema_output = format!("{}/{stem}.{ext}", ch.pick(&["generated", ".", "src/generated/types", "../out", "src/ops", "pkg/web/src", "pkg/web/src/gen", ".generated", "src/ops/.gen"]));
    let resolvers_output = if ch.chance(1, 2) { Some(format!("{}/resolvers.d.ts", ch.pick(&["generated", ".", "src/server", "../out/sub", "pkg/server/src"]))) } else { None };
    let server_graphql_output = if ch.chance(1, 3) { Some(format!("{}/schema.js", ch.pick(&["generated", "src/server"]))) } else { None };
    let mode = *ch.pick(&MODES);
    // a project root of "." cannot reach "../shared" or "../out" inside the sandbox dir:
    let fix = |p: String| if root == "." { p.replace("../", "up/") } else { p };
    Layout {
        schema_dir: fix(schema_dir),
        ops_dir,
        schema_output: fix(schema_output),
        resolvers_output: resolvers_output.map(fix),
        server_graphql_output,
        mode,
        root,
    }
}

pub struct ProjectOpts {
    /// enable the built-in model plugin in a quarter of the projects (it injects a virtual schema file)
    pub plugins: bool,
    pub wild_trivia: bool,
    pub imports: bool,
    pub max_schema_files: usize,
    /// the extra independent operation file may hold an anonymous operation (shorthand `{ .. }` or `query { .. }`)
    pub anonymous_extra: bool,
    /// a schema file may extend a built-in scalar (`extend scalar ID @tag(..)`): legal, the definition is implicit
    pub extend_builtin_scalar: bool,
    pub doc: DocGenOpts,
    pub schema: SchemaGenOpts,
}

impl Default for ProjectOpts {
    fn default() -> Self {
        ProjectOpts { plugins: false, wild_trivia: false, imports: true, max_schema_files: 3, anonymous_extra: false, extend_builtin_scalar: false, doc: DocGenOpts::default(), schema: SchemaGenOpts::default() }
    }
}

pub fn join(a: &str, b: &str) -> String {
    if a == "." { b.to_string() } else { format!("{a}/{b}") }
}

pub fn gen_project(case: &mut Case, o: &ProjectOpts) -> GenProject {
    let layout = gen_layout(&mut case.ch);
    // one project in six has a backslash in two file names (an ordinary character in a POSIX file name)
    let backslash_names = case.ch.chance(1, 6);
    if backslash_names {
        case.label("file-names-with-backslash");
    }
    let gs = gen_schema(&mut case.ch, &o.schema);
    let files = split_into_extensions(&mut case.ch, &gs.doc);
    let has_extension = files.iter().flatten().any(|d| matches!(d, MTsDef::TypeExt(_)));
    let ropts = |case: &mut Case| {
        if o.wild_trivia && case.ch.chance(1, 2) {
            let mut r = RenderOpts::wild();
            r.allow_eof_comment_no_newline = false;
            r.allow_surrogate_escape = false;
            r.allow_cooked_block = false;
            r.allow_block = false;
            r.allow_lone_cr = false;
            r.allow_shorthand = false;
            r
        } else {
            RenderOpts::canonical()
        }
    };
    let mut schema_files = vec![];
    for (i, f) in files.iter().enumerate() {
        let r = ropts(case);
        let text = render_ts_file(f, r, Some(&mut case.ch)).text;
        // (the name sorts where `s0.graphqls` would: files are read in the order of their names)
        let fname = if backslash_names && i == 0 { "s0\\a.graphqls".to_string() } else { format!("s{i}.graphqls") };
        schema_files.push((join(&join(&layout.root, &layout.schema_dir), &fname), text));
    }
    if o.extend_builtin_scalar && case.ch.chance(1, 5) {
        if let Some(d) = gs.schema.directives.get("tag") {
            if d.locations.iter().any(|l| l == "SCALAR") {
                // (not String / Int: @tag has arguments of these types, and a directive must not be applied within its own argument types)
        let b = *case.ch.pick(&["ID", "Float", "Boolean"]);
                let last = schema_files.len() - 1;
                schema_files[last].1.push_str(&format!("\nextend scalar {b} @tag(name: \"built-in\")\n"));
                case.label("extends-built-in-scalar");
            }
        }
    }
    // operations: 1..3 files; fragments may live in a library file imported by the others
    let (gd, _) = gen_doc(&mut case.ch, &gs.schema, &o.doc);
    let doc = crate::props::c08::tame_exponential(case, &gs.schema, gd.doc);
    let mut op_models: Vec<(String, MOpDoc)> = vec![];
    let ops_base = join(&layout.root, &layout.ops_dir);
    // fragments are distributed over up to three library files in different directories; every file
    // imports (by name or wildcard, variously spelled paths) what its own definitions spread, so
    // import chains, diamonds and cycles between files occur
    // one case in five: a chain of three tiny fragments on the query root, one per nested library file, so that
    // lib.graphql and sub/lib.graphql both write "./sub/lib.graphql" and mean different files
    let mut doc = doc;
    let mut forced: Vec<(String, usize)> = vec![];
    if o.imports && case.ch.chance(1, 5) {
        let has_chain_names = doc.iter().any(|d| matches!(d, MExecDef::Frag(f) if f.name.starts_with("Chain")));
        let qroot = gs.schema.root(OpType::Query);
        let first_query = doc.iter().position(|d| matches!(d, MExecDef::Op(o) if o.op == OpType::Query));
        if let (false, Some(root), Some(qi)) = (has_chain_names, qroot, first_query) {
            let tn = || MSelection::Field(MFieldSel { alias: None, name: "__typename".into(), args: vec![], directives: vec![], sel: None });
            let sp = |n: &str| MSelection::Spread { name: n.into(), directives: vec![] };
            doc.push(MExecDef::Frag(MFragment { name: "ChainC".into(), on: root.clone(), directives: vec![], sel: vec![tn()] }));
            doc.push(MExecDef::Frag(MFragment { name: "ChainB".into(), on: root.clone(), directives: vec![], sel: vec![tn(), sp("ChainC")] }));
            doc.push(MExecDef::Frag(MFragment { name: "ChainA".into(), on: root.clone(), directives: vec![], sel: vec![tn(), sp("ChainB")] }));
            if let MExecDef::Op(o) = &mut doc[qi] {
                o.sel.push(sp("ChainA"));
            }
            forced = vec![("ChainA".into(), 1), ("ChainB".into(), 2), ("ChainC".into(), 3)];
            case.label("nested-chain-a-b-c");
        }
    }
    let split = if o.imports { crate::split::split_into_files_forced(&mut case.ch, &doc, &forced) } else { crate::split::FileSplit { files: vec![("main.graphql".into(), doc.clone())], max_chain: 0, diamond: false, specific_imports: false, wildcard_imports: false } };
    for (rel, m) in &split.files {
        op_models.push((join(&ops_base, rel), m.clone()));
    }
    if split.max_chain >= 2 {
        case.label("import-chain>=2");
    }
    if split.diamond {
        case.label("import-diamond");
    }
    let split = split.files.len() > 1;
    if case.ch.chance(1, 3) {
        // an extra independent file
        let anonymous = o.anonymous_extra && case.ch.chance(1, 2);
        let shorthand = anonymous && case.ch.flip();
        if anonymous {
            case.label(if shorthand { "anonymous-shorthand-operation" } else { "anonymous-operation" });
        }
        op_models.push((
            join(&ops_base, if backslash_names { "oth\\er.graphql" } else { "other.graphql" }),
            vec![MExecDef::Op(MOperation {
                op: OpType::Query,
                name: if anonymous { None } else { Some("OtherQuery".into()) },
                vars: vec![],
                directives: vec![],
                sel: vec![MSelection::Field(MFieldSel { alias: None, name: "__typename".into(), args: vec![], directives: vec![], sel: None })],
                shorthand,
            })],
        ));
    }
    let mut op_files = vec![];
    for (p, m) in &op_models {
        let mut r = ropts(case);
        // only the anonymous extra operation asks for the shorthand form
        r.allow_shorthand = true;
        op_files.push((p.clone(), render_op_doc(m, r, Some(&mut case.ch)).text));
    }
    // config (paths relative to the config's directory)
    let schema_glob = join(&layout.schema_dir, "*.graphqls");
    let docs_glob = join(&layout.ops_dir, "**/*.graphql");
    let mut cfg = format!("schema: \"{schema_glob}\"\ndocuments: \"{docs_glob}\"\nextensions:\n  nitrogql:\n    generate:\n      mode: \"{}\"\n      schemaOutput: \"{}\"\n", layout.mode, layout.schema_output);
    if o.plugins && case.ch.chance(1, 4) {
        cfg = cfg.replace("  nitrogql:\n", "  nitrogql:\n    plugins:\n      - \"nitrogql:model-plugin\"\n");
        case.label("model-plugin");
    }
    let scfg = crate::refexec::ScalarCfg::generate(&mut case.ch, &gs.schema, false);
    let builtin_defaults = crate::refexec::ScalarCfg::builtin();
    let mut configured: Vec<String> = gs.schema.of_kind(Kind::Scalar).iter().map(|t| t.name.clone()).collect();
    for b in ["ID", "String", "Int", "Float", "Boolean"] {
        // built-in scalars re-mapped by the configuration
        if crate::refexec::Target::ALL.iter().any(|t| scfg.ts(b, *t) != builtin_defaults.ts(b, *t)) {
            configured.push(b.to_string());
        }
    }
    if !configured.is_empty() {
        cfg.push_str("      type:\n        scalarTypes:\n");
        for name in &configured {
            struct N<'a> { name: &'a String }
            let t = N { name };
            use crate::refexec::ScalarTs;
            match &scfg.map[t.name] {
                ScalarTs::Single(s) => cfg.push_str(&format!("          {}: {}\n", t.name, serde_json::to_string(s).unwrap())),
                ScalarTs::SendReceive { send, receive } => cfg.push_str(&format!(
                    "          {}:\n            send: {}\n            receive: {}\n",
                    t.name,
                    serde_json::to_string(send).unwrap(),
                    serde_json::to_string(receive).unwrap()
                )),
                ScalarTs::Separate { resolver_input, resolver_output, operation_input, operation_output } => cfg.push_str(&format!(
                    "          {}:\n            resolverInput: {}\n            resolverOutput: {}\n            operationInput: {}\n            operationOutput: {}\n",
                    t.name,
                    serde_json::to_string(resolver_input).unwrap(),
                    serde_json::to_string(resolver_output).unwrap(),
                    serde_json::to_string(operation_input).unwrap(),
                    serde_json::to_string(operation_output).unwrap()
                )),
            }
        }
    }
    if let Some(r) = &layout.resolvers_output {
        cfg.push_str(&format!("      resolversOutput: \"{r}\"\n"));
    }
    if let Some(r) = &layout.server_graphql_output {
        cfg.push_str(&format!("      serverGraphqlOutput: \"{r}\"\n"));
    }
    GenProject {
        layout,
        schema_files,
        op_files,
        config: cfg,
        gs,
        schema_file_models: files,
        op_file_models: op_models.into_iter().map(|x| x.1).collect(),
        has_import: split,
        has_extension,
        cfg: scfg,
    }
}

pub fn write_project(p: &GenProject, base: &Path) -> Project {
    let proj = Project::new(base);
    proj.write(&join(&p.layout.root, "graphql.config.yaml"), &p.config);
    for (path, text) in p.schema_files.iter().chain(p.op_files.iter()) {
        proj.write(path, text);
    }
    proj
}

/// normalise a path string lexically (reference semantics)
pub fn norm(path: &str) -> String {
    let abs = path.starts_with('/');
    let mut st: Vec<&str> = vec![];
    for c in path.split('/') {
        match c {
            "" | "." => {}
            ".." => {
                st.pop();
            }
            x => st.push(x),
        }
    }
    format!("{}{}", if abs { "/" } else { "" }, st.join("/"))
}

pub fn dir_of(path: &str) -> String {
    match path.rfind('/') {
        Some(i) => path[..i].to_string(),
        None => ".".to_string(),
    }
}
