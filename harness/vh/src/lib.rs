pub mod choices;
pub mod conv;
pub mod gen_syntax;
pub mod model;
pub mod props;
pub mod refparse;
pub mod render;
pub mod runner;
