//! Valid-by-construction schema models.
//!
//! A global *field dictionary* fixes, per field name, its arguments and type across all
//! object/interface types of one schema. This makes interface implementation valid by
//! construction and — together with the operation generator's response-key discipline —
//! guarantees that fields sharing a response key can always be merged (same name, same
//! arguments, same shape) as the spec's FieldsInSetCanMerge demands.

use crate::choices::Choices;
use crate::gen_syntax::STRINGS;
use crate::model::*;
use crate::schema::Schema;
use std::collections::BTreeMap;

#[derive(Clone, Debug)]
pub struct SchemaGenOpts {
    /// 0 none, 1 plain, 2 hostile
    pub descriptions: u8,
    pub deprecations: bool,
    pub custom_directives: bool,
    /// object type named like a TS global used in scalar mappings (`Date`)
    pub clash_names: bool,
    /// explicit `schema { }` with renamed roots
    pub renamed_roots: bool,
    pub max_objects: usize,
    /// allow interfaces without any implementing object / unions with one member
    pub allow_empty_interface: bool,
    /// keyword-like field / argument names (`type`, `on`, `query`, ...)
    pub keyword_names: bool,
    /// covariant field types in implementers (C05 only; breaks the global dictionary)
    pub covariant_fields: bool,
    /// default values on arguments / input fields
    pub defaults: bool,
    /// descriptions / deprecation reasons may contain `*/`
    pub comment_close_in_text: bool,
    /// one schema in eight gets a hundred extra object types with three hundred distinct names (tables of names
    /// that are bounded somewhere)
    pub many_names: bool,
}

impl Default for SchemaGenOpts {
    fn default() -> Self {
        SchemaGenOpts {
            descriptions: 1,
            deprecations: true,
            custom_directives: true,
            clash_names: true,
            renamed_roots: true,
            max_objects: 4,
            allow_empty_interface: true,
            keyword_names: true,
            covariant_fields: false,
            defaults: true,
            comment_close_in_text: true,
            many_names: false,
        }
    }
}

#[derive(Clone, Debug)]
pub struct GenSchema {
    /// definitions only (no extensions), in definition order
    pub doc: Vec<MTsDef>,
    pub schema: Schema,
    pub labels: Vec<&'static str>,
}

const SCALAR_POOL: &[&str] = &["DateTime", "JSON", "BigInt", "URL"];
const ENUM_POOL: &[&str] = &["Role", "Color", "Sort"];
const ENUM_VALUE_POOL: &[&str] = &["ADMIN", "USER", "GUEST", "RED", "GREEN", "BLUE", "ASC", "DESC", "on", "type", "Query"];
const INPUT_POOL: &[&str] = &["UserInput", "PostFilter", "Paging"];
const INTERFACE_POOL: &[&str] = &["Node", "Entity", "Named", "_Timestamped"];
// a single leading underscore is an ordinary name (only `__` is reserved): Apollo Federation style
const OBJECT_POOL: &[&str] = &["User", "Post", "Comment", "Tag", "Image", "_Service"];
const UNION_POOL: &[&str] = &["SearchResult", "Media", "_Entity"];
const FIELD_POOL: &[&str] = &[
    "id", "name", "title", "body", "author", "posts", "comments", "tags", "node", "search", "friends",
    "count", "role", "createdAt", "meta", "media", "score", "flags", "matrix", "owner", "_id", "_service",
];
const FIELD_POOL_KW: &[&str] = &["type", "on", "query", "fragment", "input"];
const ARG_POOL: &[&str] = &["first", "after", "filter", "ids", "role", "at", "input", "q", "deep", "flag"];
const INPUT_FIELD_POOL: &[&str] = &["name", "age", "role", "tags", "nested", "since", "limit", "opts", "ratio", "ok"];

pub fn description(ch: &mut Choices, level: u8) -> Option<String> {
    if level == 0 || !ch.chance(1, 3) {
        return None;
    }
    if level == 1 {
        Some(ch.pick(&["A thing", "the user", "Identifier", "caf\u{e9} \u{3042}", "see https://example.com/x?y=1"]).to_string())
    } else {
        Some(ch.pick(STRINGS).to_string())
    }
}

pub fn strip_comment_close(doc: &mut [MTsDef]) {
    crate::model::map_ts_strings(doc, &mut |s: &mut String| {
        if s.contains("*/") {
            *s = s.replace("*/", "* /");
        }
    });
}

fn wrap_output(ch: &mut Choices, base: &str) -> MType {
    let named = MType::named(base);
    match ch.below(8) {
        0 | 1 => named,
        2 | 3 => MType::non_null(named),
        4 => MType::list(named),
        5 => MType::non_null(MType::list(MType::non_null(MType::named(base)))),
        6 => MType::list(MType::non_null(MType::named(base))),
        _ => {
            // [T]!, and deep shapes whose nullability pattern is not a palindrome:
            // [[T!]]!  [[T]]  [[[T]!]]  [[T!]!]  [[T]!]  [[T]]!
            match ch.below(7) {
                0 => MType::non_null(MType::list(MType::list(MType::non_null(MType::named(base))))),
                1 => MType::list(MType::list(named)),
                2 => MType::list(MType::list(MType::non_null(MType::list(MType::named(base))))),
                3 => MType::non_null(MType::list(named)),
                4 => MType::list(MType::non_null(MType::list(MType::non_null(MType::named(base))))),
                5 => MType::list(MType::non_null(MType::list(MType::named(base)))),
                _ => MType::non_null(MType::list(MType::list(MType::named(base)))),
            }
        }
    }
}

fn wrap_input(ch: &mut Choices, base: &str, is_input_object: bool) -> MType {
    let named = MType::named(base);
    match ch.below(7) {
        0 | 1 => named,
        2 => {
            if is_input_object {
                named
            } else {
                MType::non_null(named)
            }
        }
        3 => MType::list(named),
        4 => MType::non_null(MType::list(MType::non_null(MType::named(base)))),
        5 => MType::list(MType::non_null(MType::named(base))),
        _ => match ch.below(5) {
            0 => MType::list(MType::list(named)),
            1 => MType::non_null(MType::list(named)),
            2 => MType::list(MType::non_null(MType::list(MType::non_null(MType::named(base))))),
            3 => MType::list(MType::non_null(MType::list(MType::named(base)))),
            _ => MType::non_null(MType::list(MType::list(MType::non_null(MType::named(base))))),
        },
    }
}

/// a literal that is valid for `ty` without relying on any coercion (used for defaults)
pub fn plain_const_value(ch: &mut Choices, types: &BTreeMap<String, MTypeDef>, ty: &MType, depth: usize) -> MValue {
    match ty {
        MType::NonNull(t) => {
            let v = plain_const_value(ch, types, t, depth);
            if v == MValue::Null {
                // cannot happen for non-input-object types; input objects always yield objects
                MValue::Object(vec![])
            } else {
                v
            }
        }
        MType::List(t) => {
            if depth > 2 {
                return MValue::List(vec![]);
            }
            let n = ch.below(3);
            MValue::List((0..n).map(|_| plain_const_value_nn(ch, types, t, depth + 1)).collect())
        }
        MType::Named(n) => match n.as_str() {
            "Int" => MValue::Int(ch.pick(&["0", "1", "42", "-7"]).to_string()),
            "Float" => MValue::Float(ch.pick(&["1.5", "0.0", "-2.25", "1e3"]).to_string()),
            "String" => MValue::Str(ch.pick(&["", "x", "hello world", "caf\u{e9}"]).to_string()),
            "Boolean" => MValue::Bool(ch.flip()),
            "ID" => MValue::Str(ch.pick(&["1", "abc"]).to_string()),
            other => match types.get(other) {
                Some(t) if t.kind == Kind::Enum => MValue::Enum(ch.pick(&t.values).name.clone()),
                Some(t) if t.kind == Kind::Input => {
                    if depth > 2 {
                        return MValue::Null;
                    }
                    let mut fs = vec![];
                    for f in &t.input_fields {
                        let required = f.ty.is_non_null() && f.default.is_none();
                        if required || ch.chance(1, 3) {
                            fs.push((f.name.clone(), plain_const_value_nn(ch, types, &f.ty, depth + 1)));
                        }
                    }
                    MValue::Object(fs)
                }
                _ => MValue::Str("custom".into()), // custom scalar
            },
        },
    }
}

fn plain_const_value_nn(ch: &mut Choices, types: &BTreeMap<String, MTypeDef>, ty: &MType, depth: usize) -> MValue {
    if !ty.is_non_null() && ch.chance(1, 6) {
        return MValue::Null;
    }
    let v = plain_const_value(ch, types, ty, depth);
    if ty.is_non_null() && v == MValue::Null {
        // deep recursion guard returned Null for a non-null input object
        return MValue::Object(vec![]);
    }
    v
}

pub fn gen_schema(ch: &mut Choices, o: &SchemaGenOpts) -> GenSchema {
    let mut labels: Vec<&'static str> = vec![];
    let mut types: BTreeMap<String, MTypeDef> = BTreeMap::new();
    for s in crate::schema::BUILTIN_SCALARS {
        types.insert(s.to_string(), MTypeDef::new(Kind::Scalar, s));
    }
    let mut order: Vec<String> = vec![];

    // ---- names and kinds
    let n_scalars = ch.below(3);
    let scalars: Vec<String> = pick_distinct(ch, SCALAR_POOL, n_scalars);
    let n_enums = ch.below(3);
    let enums: Vec<String> = pick_distinct(ch, ENUM_POOL, n_enums);
    let n_inputs = ch.below(3);
    let inputs: Vec<String> = pick_distinct(ch, INPUT_POOL, n_inputs);
    let n_intf = ch.below(3);
    let interfaces: Vec<String> = pick_distinct(ch, INTERFACE_POOL, n_intf);
    let n_obj = ch.range(1, o.max_objects.max(1));
    let mut objects: Vec<String> = pick_distinct(ch, OBJECT_POOL, n_obj);
    // identifiers of the TypeScript pool used in scalar mappings (Date, URL, Map) as names of schema types
    // of every kind but scalar: such a type is declared under a local name (`__tmp_X`) and every reference
    // to it must use that name
    let mut enums = enums;
    let mut inputs = inputs;
    if o.clash_names && ch.chance(1, 4) {
        match ch.below(4) {
            0 | 1 => objects.push("Date".to_string()),
            2 => {
                if !scalars.iter().any(|s| s == "URL") {
                    inputs.push("URL".to_string());
                } else {
                    inputs.push("Map".to_string());
                }
            }
            _ => enums.push("Map".to_string()),
        }
        labels.push("type-named-like-ts-global");
    }
    let n_unions = ch.below(3);
    let unions: Vec<String> = pick_distinct(ch, UNION_POOL, n_unions);

    for s in &scalars {
        let mut t = MTypeDef::new(Kind::Scalar, s);
        t.desc = description(ch, o.descriptions);
        if ch.chance(1, 5) {
            t.directives.push(MDirective {
                name: "specifiedBy".into(),
                args: vec![("url".into(), MValue::Str("https://example.com/spec".into()))],
            });
        }
        types.insert(s.clone(), t);
    }
    for e in &enums {
        let mut t = MTypeDef::new(Kind::Enum, e);
        t.desc = description(ch, o.descriptions);
        let n = ch.range(1, 4);
        for v in pick_distinct(ch, ENUM_VALUE_POOL, n) {
            let mut ev = MEnumValue { desc: description(ch, o.descriptions), name: v, directives: vec![] };
            if o.deprecations && ch.chance(1, 6) {
                ev.directives.push(deprecated_with(ch, o.comment_close_in_text));
            }
            t.values.push(ev);
        }
        types.insert(e.clone(), t);
    }
    // input types: leafs first
    let input_leafs: Vec<String> = crate::schema::BUILTIN_SCALARS
        .iter()
        .map(|s| s.to_string())
        .chain(scalars.iter().cloned())
        .chain(enums.iter().cloned())
        .collect();
    // input field dictionary (name -> type, default)
    for (idx, i) in inputs.iter().enumerate() {
        let mut t = MTypeDef::new(Kind::Input, i);
        t.desc = description(ch, o.descriptions);
        let n = ch.range(1, 4);
        for fname in pick_distinct(ch, INPUT_FIELD_POOL, n) {
            // may refer to input objects defined earlier or itself
            let use_obj = ch.chance(1, 4);
            let (base, is_obj) = if use_obj {
                (inputs[ch.below(idx + 1)].clone(), true)
            } else {
                (ch.pick(&input_leafs).clone(), false)
            };
            let ty = wrap_input(ch, &base, is_obj);
            t.input_fields.push(MInputValue {
                desc: description(ch, o.descriptions),
                name: fname,
                ty,
                default: None,
                directives: if o.deprecations && ch.chance(1, 8) { vec![deprecated_with(ch, o.comment_close_in_text)] } else { vec![] },
            });
        }
        types.insert(i.clone(), t);
    }
    // defaults for input fields (after all input types exist)
    if o.defaults {
        for i in &inputs {
            let n = types[i].input_fields.len();
            for k in 0..n {
                if ch.chance(1, 4) {
                    let ty = types[i].input_fields[k].ty.clone();
                    // self-referential defaults could recurse forever: only leaf-based types
                    if types.get(ty.base()).map(|t| t.kind != Kind::Input).unwrap_or(true) {
                        let v = plain_const_value_nn(ch, &types, &ty, 0);
                        types.get_mut(i).unwrap().input_fields[k].default = Some(v);
                    }
                }
            }
        }
    }
    // deprecated required input fields are forbidden by newer spec drafts: keep deprecated
    // only on nullable-or-defaulted fields
    for i in &inputs {
        for f in types.get_mut(i).unwrap().input_fields.iter_mut() {
            if f.ty.is_non_null() && f.default.is_none() {
                f.directives.clear();
            }
        }
    }
    let input_types: Vec<String> = input_leafs.iter().cloned().chain(inputs.iter().cloned()).collect();

    // ---- argument dictionary: arg name -> (type, default)
    let mut arg_dict: BTreeMap<String, MInputValue> = BTreeMap::new();
    for a in ARG_POOL {
        let base = ch.pick(&input_types).clone();
        let is_obj = types[&base].kind == Kind::Input;
        let ty = wrap_input(ch, &base, false);
        let default = if o.defaults && ch.chance(1, 4) && !is_obj {
            Some(plain_const_value_nn(ch, &types, &ty, 0))
        } else {
            None
        };
        arg_dict.insert(
            a.to_string(),
            MInputValue { desc: description(ch, o.descriptions), name: a.to_string(), ty, default, directives: vec![] },
        );
    }

    // ---- output side
    let output_leafs: Vec<String> = input_leafs.clone();
    let composites: Vec<String> = objects
        .iter()
        .cloned()
        .chain(interfaces.iter().cloned())
        .chain(unions.iter().cloned())
        .collect();
    // field dictionary
    let mut field_names: Vec<&str> = FIELD_POOL.to_vec();
    if o.keyword_names {
        field_names.extend(FIELD_POOL_KW.iter().copied());
    }
    let n_fields = ch.range(4, 12);
    let chosen_fields = pick_distinct(ch, &field_names, n_fields);
    let mut field_dict: BTreeMap<String, MField> = BTreeMap::new();
    for f in &chosen_fields {
        let composite = ch.chance(2, 5);
        let base = if composite { ch.pick(&composites).clone() } else { ch.pick(&output_leafs).clone() };
        let ty = wrap_output(ch, &base);
        let n_args = if ch.chance(1, 3) { ch.range(1, 2) } else { 0 };
        let args: Vec<MInputValue> = pick_distinct(ch, ARG_POOL, n_args)
            .into_iter()
            .map(|a| {
                let mut iv = arg_dict[&a].clone();
                if o.deprecations && ch.chance(1, 10) && !(iv.ty.is_non_null() && iv.default.is_none()) {
                    iv.directives.push(deprecated_with(ch, o.comment_close_in_text));
                }
                iv
            })
            .collect();
        let mut directives = vec![];
        if o.deprecations && ch.chance(1, 8) {
            directives.push(deprecated_with(ch, o.comment_close_in_text));
        }
        field_dict.insert(
            f.clone(),
            MField { desc: description(ch, o.descriptions), name: f.clone(), args, ty, directives },
        );
    }
    let pick_fields = |ch: &mut Choices, min: usize| -> Vec<String> {
        let n = ch.range(min, 5.min(chosen_fields.len()).max(min));
        pick_distinct_s(ch, &chosen_fields, n)
    };

    // interfaces (earlier ones may be implemented by later ones)
    for (idx, i) in interfaces.iter().enumerate() {
        let mut t = MTypeDef::new(Kind::Interface, i);
        t.desc = description(ch, o.descriptions);
        let mut fields = pick_fields(ch, 1);
        if idx > 0 && ch.chance(1, 2) {
            let parent = interfaces[ch.below(idx)].clone();
            // transitive closure
            let mut imps = vec![parent.clone()];
            for p in types[&parent].implements.clone() {
                if !imps.contains(&p) {
                    imps.push(p);
                }
            }
            for p in &imps {
                for f in &types[p].fields {
                    if !fields.contains(&f.name) {
                        fields.push(f.name.clone());
                    }
                }
            }
            t.implements = imps;
            labels.push("interface-implements-interface");
        }
        t.fields = fields.iter().map(|f| field_dict[f].clone()).collect();
        types.insert(i.clone(), t);
    }
    // objects
    for ob in &objects {
        let mut t = MTypeDef::new(Kind::Object, ob);
        t.desc = description(ch, o.descriptions);
        let mut fields = pick_fields(ch, 1);
        let mut imps: Vec<String> = vec![];
        for i in &interfaces {
            if ch.chance(1, 2) {
                if !imps.contains(i) {
                    imps.push(i.clone());
                }
                for p in types[i].implements.clone() {
                    if !imps.contains(&p) {
                        imps.push(p);
                    }
                }
            }
        }
        if ch.flip() {
            imps.reverse();
        }
        for p in &imps {
            for f in &types[p].fields {
                if !fields.contains(&f.name) {
                    fields.push(f.name.clone());
                }
            }
        }
        t.implements = imps;
        t.fields = fields.iter().map(|f| field_dict[f].clone()).collect();
        types.insert(ob.clone(), t);
    }
    // make sure each interface has an implementer unless allowed to be empty
    for i in &interfaces {
        let has = objects.iter().any(|ob| types[ob].implements.contains(i));
        if !has {
            if o.allow_empty_interface && ch.chance(1, 3) {
                labels.push("interface-without-implementer");
            } else {
                let ob = ch.pick(&objects).clone();
                let mut imps = types[&ob].implements.clone();
                let mut add = vec![i.clone()];
                add.extend(types[i].implements.clone());
                for p in add {
                    if !imps.contains(&p) {
                        imps.push(p.clone());
                        let extra: Vec<MField> = types[&p]
                            .fields
                            .iter()
                            .filter(|f| !types[&ob].fields.iter().any(|g| g.name == f.name))
                            .cloned()
                            .collect();
                        types.get_mut(&ob).unwrap().fields.extend(extra);
                    }
                }
                types.get_mut(&ob).unwrap().implements = imps;
            }
        }
    }
    // unions
    for u in &unions {
        let mut t = MTypeDef::new(Kind::Union, u);
        t.desc = description(ch, o.descriptions);
        let n = ch.range(1, objects.len().min(3));
        t.members = pick_distinct_s(ch, &objects, n);
        types.insert(u.clone(), t);
    }

    // roots
    let renamed = o.renamed_roots && ch.chance(1, 4);
    let qname = if renamed { "RootQuery" } else { "Query" }.to_string();
    let mut root = MTypeDef::new(Kind::Object, &qname);
    root.desc = description(ch, o.descriptions);
    root.fields = pick_fields(ch, 2).iter().map(|f| field_dict[f].clone()).collect();
    types.insert(qname.clone(), root);
    let mut roots = vec![(OpType::Query, qname.clone())];
    let mut root_order = vec![qname.clone()];
    if ch.chance(1, 2) {
        let n = if renamed { "RootMutation" } else { "Mutation" }.to_string();
        let mut t = MTypeDef::new(Kind::Object, &n);
        t.fields = pick_fields(ch, 1).iter().map(|f| field_dict[f].clone()).collect();
        types.insert(n.clone(), t);
        roots.push((OpType::Mutation, n.clone()));
        root_order.push(n);
    }
    if ch.chance(1, 2) {
        let n = if renamed { "RootSubscription" } else { "Subscription" }.to_string();
        let mut t = MTypeDef::new(Kind::Object, &n);
        t.fields = pick_fields(ch, 1).iter().map(|f| field_dict[f].clone()).collect();
        types.insert(n.clone(), t);
        roots.push((OpType::Subscription, n.clone()));
        root_order.push(n);
    }
    if renamed {
        labels.push("renamed-roots");
    }
    // explicit `schema { ... }` although every root has its default name; then an ordinary object type may
    // be called Mutation / Subscription without being a root operation type
    let explicit_default = o.renamed_roots && !renamed && ch.chance(1, 4);
    if explicit_default {
        labels.push("explicit-schema-with-default-names");
        for (op, n) in [(OpType::Mutation, "Mutation"), (OpType::Subscription, "Subscription")] {
            if !roots.iter().any(|r| r.0 == op) && ch.chance(1, 2) {
                let mut t = MTypeDef::new(Kind::Object, n);
                t.fields = pick_fields(ch, 1).iter().map(|f| field_dict[f].clone()).collect();
                types.insert(n.to_string(), t);
                root_order.push(n.to_string());
                labels.push("non-root-type-with-root-name");
            }
        }
    }

    // custom directives
    let mut directive_defs: Vec<MDirectiveDef> = vec![];
    let mut auth_name = "auth".to_string();
    if o.custom_directives {
        if ch.chance(1, 2) {
            // @tag(name: String!, weight: Int = 1) repeatable on many locations
            directive_defs.push(MDirectiveDef {
                desc: description(ch, o.descriptions),
                name: "tag".into(),
                args: vec![
                    MInputValue { desc: None, name: "name".into(), ty: MType::non_null(MType::named("String")), default: None, directives: vec![] },
                    MInputValue { desc: None, name: "weight".into(), ty: MType::named("Int"), default: Some(MValue::Int("1".into())), directives: vec![] },
                    // a nullable list of non-null items: `null`, a list, and a single item (coerced) are all legal
                    MInputValue { desc: None, name: "labels".into(), ty: MType::list(MType::non_null(MType::named("String"))), default: None, directives: vec![] },
                ],
                repeatable: true,
                locations: [
                    "QUERY", "MUTATION", "SUBSCRIPTION", "FIELD", "FRAGMENT_DEFINITION", "FRAGMENT_SPREAD", "INLINE_FRAGMENT",
                    "VARIABLE_DEFINITION", "SCHEMA", "SCALAR", "OBJECT", "FIELD_DEFINITION", "ARGUMENT_DEFINITION", "INTERFACE",
                    "UNION", "ENUM", "ENUM_VALUE", "INPUT_OBJECT", "INPUT_FIELD_DEFINITION",
                ]
                .iter()
                .map(|s| s.to_string())
                .collect(),
            });
        }
        if ch.chance(1, 2) {
            // @cache(ttl: Int! = 60, scope: String): a non-null argument WITH a default may be left out, and so may the
            // whole argument list
            let all = ["FIELD", "QUERY", "FRAGMENT_SPREAD", "OBJECT", "FIELD_DEFINITION", "INTERFACE", "SCALAR", "ENUM", "INPUT_OBJECT", "UNION"];
            let n = ch.range(2, all.len());
            directive_defs.push(MDirectiveDef {
                desc: None,
                name: "cache".into(),
                args: vec![
                    MInputValue { desc: None, name: "ttl".into(), ty: MType::non_null(MType::named("Int")), default: Some(MValue::Int("60".into())), directives: vec![] },
                    MInputValue { desc: None, name: "scope".into(), ty: MType::named("String"), default: None, directives: vec![] },
                ],
                repeatable: false,
                locations: pick_distinct(ch, &all, n),
            });
        }
        if ch.chance(1, 2) {
            // @auth(role: <enum or String>) non-repeatable, subset of locations
            let role_ty = if let Some(e) = enums.first() { MType::named(e) } else { MType::named("String") };
            let all = [
                "QUERY", "FIELD", "FRAGMENT_SPREAD", "INLINE_FRAGMENT", "FRAGMENT_DEFINITION", "VARIABLE_DEFINITION", "MUTATION",
                "SUBSCRIPTION", "OBJECT", "FIELD_DEFINITION", "INTERFACE", "UNION", "ENUM", "INPUT_OBJECT", "SCALAR", "SCHEMA",
                "ARGUMENT_DEFINITION", "ENUM_VALUE", "INPUT_FIELD_DEFINITION",
            ];
            let n = ch.range(1, all.len());
            let locs = pick_distinct(ch, &all, n);
            // directives and types live in different name spaces: one time in four the directive is spelled like a type
            if ch.chance(1, 4) {
                if let Some(t) = enums.first().or(objects.first()) {
                    auth_name = t.clone();
                    labels.push("directive-named-like-a-type");
                }
            }
            directive_defs.push(MDirectiveDef {
                desc: None,
                name: auth_name.clone(),
                args: vec![MInputValue { desc: None, name: "role".into(), ty: role_ty, default: None, directives: vec![] }],
                repeatable: false,
                locations: locs,
            });
        }
    }

    // apply custom directives at type-system locations they allow
    if !directive_defs.is_empty() {
        let defs = directive_defs.clone();
        let enum_first = enums.first().cloned();
        let mut apply = |ch: &mut Choices, loc: &str, target: &mut Vec<MDirective>, types_ro: &BTreeMap<String, MTypeDef>, owner: &str| {
            for d in &defs {
                // a directive must not be applied (transitively) inside its own argument types
                if d.name == auth_name && Some(owner.to_string()) == enum_first {
                    continue;
                }
                if d.locations.iter().any(|l| l == loc) && ch.chance(1, 6) {
                    let reps = if d.repeatable && ch.chance(1, 3) { 2 } else { 1 };
                    for _ in 0..reps {
                        let mut args = vec![];
                        for a in &d.args {
                            let required = a.ty.is_non_null() && a.default.is_none();
                            if required || ch.flip() {
                                let v = if a.name == "role" {
                                    match &enum_first {
                                        Some(e) => MValue::Enum(ch.pick(&types_ro[e].values).name.clone()),
                                        None => MValue::Str("admin".into()),
                                    }
                                } else if a.name == "name" {
                                    MValue::Str(ch.pick(&["a", "b c", "caf\u{e9}"]).to_string())
                                } else if a.name == "scope" {
                                    MValue::Str("private".into())
                                } else if a.name == "labels" {
                                    match ch.below(4) {
                                        0 => MValue::Null,
                                        1 => MValue::List(vec![]),
                                        2 => MValue::Str("single".into()),
                                        _ => MValue::List(vec![MValue::Str("a".into()), MValue::Str("b".into())]),
                                    }
                                } else {
                                    MValue::Int("2".into())
                                };
                                args.push((a.name.clone(), v));
                            }
                        }
                        target.push(MDirective { name: d.name.clone(), args });
                    }
                }
            }
        };
        let snapshot = types.clone();
        let names: Vec<String> = types.keys().cloned().collect();
        for n in names {
            if crate::schema::BUILTIN_SCALARS.contains(&n.as_str()) {
                continue;
            }
            let t = types.get_mut(&n).unwrap();
            let loc = match t.kind {
                Kind::Scalar => "SCALAR",
                Kind::Object => "OBJECT",
                Kind::Interface => "INTERFACE",
                Kind::Union => "UNION",
                Kind::Enum => "ENUM",
                Kind::Input => "INPUT_OBJECT",
            };
            apply(ch, loc, &mut t.directives, &snapshot, &n);
            for f in t.fields.iter_mut() {
                apply(ch, "FIELD_DEFINITION", &mut f.directives, &snapshot, &n);
                for a in f.args.iter_mut() {
                    apply(ch, "ARGUMENT_DEFINITION", &mut a.directives, &snapshot, &n);
                }
            }
            for v in t.values.iter_mut() {
                apply(ch, "ENUM_VALUE", &mut v.directives, &snapshot, &n);
            }
            for f in t.input_fields.iter_mut() {
                apply(ch, "INPUT_FIELD_DEFINITION", &mut f.directives, &snapshot, &n);
            }
        }
        labels.push("custom-directives");
    }

    // definition order: shuffled groups
    for s in &scalars {
        order.push(s.clone());
    }
    order.extend(enums.iter().cloned());
    order.extend(inputs.iter().cloned());
    order.extend(interfaces.iter().cloned());
    order.extend(objects.iter().cloned());
    order.extend(unions.iter().cloned());
    order.extend(root_order.iter().cloned());
    if ch.chance(1, 2) {
        ch.shuffle(&mut order);
    }

    let mut doc: Vec<MTsDef> = vec![];
    if renamed || explicit_default {
        let mut sd = MSchemaDef { desc: description(ch, o.descriptions), directives: vec![], roots: roots.clone() };
        for d in &directive_defs {
            if d.locations.iter().any(|l| l == "SCHEMA") && ch.chance(1, 3) && d.name == "tag" {
                sd.directives.push(MDirective { name: "tag".into(), args: vec![("name".into(), MValue::Str("s".into()))] });
            }
        }
        doc.push(MTsDef::Schema(sd));
    }
    for d in &directive_defs {
        doc.push(MTsDef::Directive(d.clone()));
    }
    for n in &order {
        doc.push(MTsDef::Type(types[n].clone()));
    }
    if ch.chance(1, 3) {
        // directives / schema anywhere
        let k = ch.below(doc.len());
        let d = doc.remove(0);
        doc.insert(k, d);
    }
    if o.many_names && ch.chance(1, 8) {
        labels.push("many-names");
        for i in 0..100 {
            let mut t = MTypeDef::new(Kind::Object, &format!("Filler{i}"));
            t.fields.push(MField { desc: None, name: format!("f{i}a"), args: vec![], ty: MType::named("Int"), directives: vec![] });
            t.fields.push(MField { desc: None, name: format!("f{i}b"), args: vec![], ty: MType::named(if i > 0 { "Filler0" } else { "String" }), directives: vec![] });
            doc.push(MTsDef::Type(t));
        }
    }
    let schema = Schema::from_doc(&doc);
    if !unions.is_empty() {
        labels.push("has-union");
    }
    if !interfaces.is_empty() {
        labels.push("has-interface");
    }
    if !inputs.is_empty() {
        labels.push("has-input-object");
    }
    GenSchema { doc, schema, labels }
}

fn deprecated(ch: &mut Choices) -> MDirective {
    deprecated_with(ch, true)
}

fn deprecated_with(ch: &mut Choices, comment_close: bool) -> MDirective {
    if ch.flip() {
        MDirective { name: "deprecated".into(), args: vec![] }
    } else {
        MDirective {
            name: "deprecated".into(),
            args: vec![(
                "reason".into(),
                MValue::Str(if comment_close { ch.pick(&["use other", "old */ thing", "no \"more\""]).to_string() } else { ch.pick(&["use other", "old thing", "no \"more\""]).to_string() }),
            )],
        }
    }
}

pub fn pick_distinct(ch: &mut Choices, pool: &[&str], n: usize) -> Vec<String> {
    let mut idx: Vec<usize> = (0..pool.len()).collect();
    let mut out = vec![];
    for _ in 0..n.min(pool.len()) {
        let k = ch.below(idx.len());
        out.push(pool[idx.remove(k)].to_string());
    }
    out
}

pub fn pick_distinct_s(ch: &mut Choices, pool: &[String], n: usize) -> Vec<String> {
    let mut idx: Vec<usize> = (0..pool.len()).collect();
    let mut out = vec![];
    for _ in 0..n.min(pool.len()) {
        let k = ch.below(idx.len());
        out.push(pool[idx.remove(k)].clone());
    }
    out
}

/// Split a definitions-only document into definitions + extensions over 1..=4 files.
/// The merged result equals the input (per reference merge).
pub fn split_into_extensions(ch: &mut Choices, doc: &[MTsDef]) -> Vec<Vec<MTsDef>> {
    let mut items: Vec<MTsDef> = vec![];
    for d in doc {
        match d {
            MTsDef::Type(t) if ch.chance(1, 3) => {
                let mut base = t.clone();
                let mut ext = MTypeDef::new(t.kind, &t.name);
                // move a suffix of each component to the extension
                macro_rules! split {
                    ($f:ident) => {
                        if base.$f.len() > 0 {
                            let k = ch.below(base.$f.len() + 1);
                            ext.$f = base.$f.split_off(k);
                        }
                    };
                }
                match t.kind {
                    Kind::Scalar => split!(directives),
                    Kind::Object | Kind::Interface => {
                        // keep at least one field in the base so that `type X` (bare) is not produced
                        if base.fields.len() > 1 {
                            let k = 1 + ch.below(base.fields.len());
                            ext.fields = base.fields.split_off(k);
                        }
                        split!(directives);
                        // `extend type X implements I` / `extend interface X implements I`: a suffix of the
                        // implemented interfaces may come from the extension (the merged type has them all)
                        if ch.chance(1, 3) {
                            split!(implements);
                        }
                    }
                    Kind::Union => {
                        if base.members.len() > 1 {
                            let k = 1 + ch.below(base.members.len());
                            ext.members = base.members.split_off(k);
                        }
                        split!(directives);
                    }
                    Kind::Enum => {
                        if base.values.len() > 1 {
                            let k = 1 + ch.below(base.values.len());
                            ext.values = base.values.split_off(k);
                        }
                        split!(directives);
                    }
                    Kind::Input => {
                        if base.input_fields.len() > 1 {
                            let k = 1 + ch.below(base.input_fields.len());
                            ext.input_fields = base.input_fields.split_off(k);
                        }
                        split!(directives);
                    }
                }
                let ext_empty = ext.directives.is_empty()
                    && ext.implements.is_empty()
                    && ext.fields.is_empty()
                    && ext.members.is_empty()
                    && ext.values.is_empty()
                    && ext.input_fields.is_empty();
                items.push(MTsDef::Type(base));
                if !ext_empty {
                    items.push(MTsDef::TypeExt(ext));
                }
            }
            d => items.push(d.clone()),
        }
    }
    // shuffle but keep relative order of same-name extensions (only one per name here) and
    // directive definitions
    let nfiles = ch.range(1, 3);
    let mut files: Vec<Vec<MTsDef>> = vec![vec![]; nfiles];
    if ch.chance(1, 2) {
        // keep document order, distribute
        for it in items {
            let i = ch.below(nfiles);
            files[i].push(it);
        }
    } else {
        let mut dirs: Vec<MTsDef> = items.iter().filter(|d| matches!(d, MTsDef::Directive(_))).cloned().collect();
        dirs.reverse();
        ch.shuffle(&mut items);
        for it in items.iter_mut() {
            if matches!(it, MTsDef::Directive(_)) {
                *it = dirs.pop().unwrap();
            }
        }
        for it in items {
            let i = ch.below(nfiles);
            files[i].push(it);
        }
    }
    files.retain(|f| !f.is_empty());
    files
}

/// Covariant narrowing for C01/C02: in some implementing objects, a nullable interface field of leaf or
/// object type becomes non-null (`I.f: T`, `O.f: T!`). Responses for runtime type O then never carry null
/// there, whichever fragment selected the field. The pairs are recorded in `schema.narrowed`.
pub fn narrow_some_fields(ch: &mut Choices, gs: &mut GenSchema) {
    let s = gs.schema.clone();
    let mut narrowed = std::collections::BTreeSet::new();
    for d in gs.doc.iter_mut() {
        let MTsDef::Type(t) = d else { continue };
        if t.kind != Kind::Object || t.implements.is_empty() || !ch.chance(1, 3) {
            continue;
        }
        let imps = t.implements.clone();
        let cands: Vec<usize> = (0..t.fields.len())
            .filter(|&i| {
                let f = &t.fields[i];
                !f.ty.is_non_null() && imps.iter().any(|im| s.field(im, &f.name).map(|x| x.ty == f.ty).unwrap_or(false))
            })
            .collect();
        if cands.is_empty() {
            continue;
        }
        let i = *ch.pick(&cands);
        t.fields[i].ty = MType::non_null(t.fields[i].ty.clone());
        narrowed.insert((t.name.clone(), t.fields[i].name.clone()));
    }
    if !narrowed.is_empty() {
        gs.schema = Schema::from_doc(&gs.doc);
        gs.schema.narrowed = narrowed;
        gs.labels.push("covariantly-narrowed-field");
    }
}
