//! Choice source: every generator reads bounded integers from here.
//! Backed by a vector of u16 produced by proptest (PBT), libFuzzer bytes, or a
//! replay file. Exhausted source => 0 (the simplest alternative everywhere).

#[derive(Clone, Debug)]
pub struct Choices {
    data: Vec<u16>,
    pos: usize,
}

impl Choices {
    pub fn new(data: Vec<u16>) -> Self {
        Choices { data, pos: 0 }
    }
    pub fn from_bytes(bytes: &[u8]) -> Self {
        let mut data = Vec::with_capacity(bytes.len() / 2 + 1);
        let mut i = 0;
        while i + 1 < bytes.len() {
            data.push(u16::from_le_bytes([bytes[i], bytes[i + 1]]));
            i += 2;
        }
        if i < bytes.len() {
            data.push(bytes[i] as u16);
        }
        Choices { data, pos: 0 }
    }
    pub fn raw(&mut self) -> u16 {
        let v = self.data.get(self.pos).copied().unwrap_or(0);
        self.pos += 1;
        v
    }
    pub fn consumed(&self) -> usize {
        self.pos
    }
    pub fn exhausted(&self) -> bool {
        self.pos >= self.data.len()
    }
    pub fn data(&self) -> &[u16] {
        &self.data
    }
    /// integer in 0..n, monotone in the raw value (0 -> 0).
    pub fn below(&mut self, n: usize) -> usize {
        if n <= 1 {
            // still consume nothing: keeps alignment independent of trivial choices
            return 0;
        }
        let r = self.raw() as usize;
        (r * n) >> 16
    }
    /// integer in lo..=hi
    pub fn range(&mut self, lo: usize, hi: usize) -> usize {
        debug_assert!(hi >= lo);
        lo + self.below(hi - lo + 1)
    }
    /// true with probability num/den; 0 -> false.
    pub fn chance(&mut self, num: usize, den: usize) -> bool {
        if num == 0 {
            return false;
        }
        if num >= den {
            return true;
        }
        let r = self.raw() as usize;
        // r==0 -> false; high values -> true
        r * den >= (den - num) * 65536
    }
    pub fn flip(&mut self) -> bool {
        self.chance(1, 2)
    }
    pub fn pick<'a, T>(&mut self, items: &'a [T]) -> &'a T {
        let i = self.below(items.len());
        &items[i]
    }
    pub fn pick_idx<T>(&mut self, items: &[T]) -> usize {
        self.below(items.len())
    }
    /// weighted choice: returns index
    pub fn weighted(&mut self, weights: &[usize]) -> usize {
        let total: usize = weights.iter().sum();
        if total == 0 {
            return 0;
        }
        let mut x = self.below(total);
        for (i, w) in weights.iter().enumerate() {
            if x < *w {
                return i;
            }
            x -= w;
        }
        weights.len() - 1
    }
    /// Fisher-Yates permutation of 0..n driven by choices (identity when exhausted).
    pub fn permutation(&mut self, n: usize) -> Vec<usize> {
        let mut v: Vec<usize> = (0..n).collect();
        for i in 0..n {
            let j = i + self.below(n - i);
            v.swap(i, j);
        }
        v
    }
    pub fn shuffle<T>(&mut self, items: &mut Vec<T>) {
        let n = items.len();
        for i in 0..n {
            let j = i + self.below(n - i);
            items.swap(i, j);
        }
    }
}
