//! Independent reader of the graphql-js DocumentNode JSON shape -> abstract model.
//! Strict: unknown node kinds / missing mandatory members are errors.

use crate::model::*;
use crate::tsmini::JsVal;

type R<T> = Result<T, String>;

fn obj<'a>(v: &'a JsVal, what: &str) -> R<&'a Vec<(String, JsVal)>> {
    match v {
        JsVal::Obj(f) => Ok(f),
        _ => Err(format!("{what}: expected an object")),
    }
}
fn get<'a>(f: &'a [(String, JsVal)], k: &str) -> Option<&'a JsVal> {
    f.iter().find(|(n, _)| n == k).map(|(_, v)| v)
}
fn need<'a>(f: &'a [(String, JsVal)], k: &str, what: &str) -> R<&'a JsVal> {
    get(f, k).ok_or_else(|| format!("{what}: missing member {k:?}"))
}
fn string(v: &JsVal, what: &str) -> R<String> {
    match v {
        JsVal::Str(s) => Ok(s.clone()),
        _ => Err(format!("{what}: expected a string")),
    }
}
fn arr<'a>(v: &'a JsVal, what: &str) -> R<&'a Vec<JsVal>> {
    match v {
        JsVal::Arr(a) => Ok(a),
        _ => Err(format!("{what}: expected an array")),
    }
}
fn kind(f: &[(String, JsVal)], what: &str) -> R<String> {
    string(need(f, "kind", what)?, what)
}
fn check_keys(f: &[(String, JsVal)], allowed: &[&str], what: &str) -> R<()> {
    for (k, _) in f {
        if !allowed.contains(&k.as_str()) && k != "loc" {
            return Err(format!("{what}: unexpected member {k:?}"));
        }
    }
    // duplicate keys
    for (i, (k, _)) in f.iter().enumerate() {
        if f[..i].iter().any(|(k2, _)| k2 == k) {
            return Err(format!("{what}: duplicate member {k:?}"));
        }
    }
    Ok(())
}
fn name(v: &JsVal, what: &str) -> R<String> {
    let f = obj(v, what)?;
    if kind(f, what)? != "Name" {
        return Err(format!("{what}: expected a Name node"));
    }
    check_keys(f, &["kind", "value"], "Name")?;
    string(need(f, "value", what)?, what)
}

pub fn r_type(v: &JsVal) -> R<MType> {
    let f = obj(v, "type")?;
    match kind(f, "type")?.as_str() {
        "NamedType" => {
            check_keys(f, &["kind", "name"], "NamedType")?;
            Ok(MType::Named(name(need(f, "name", "NamedType")?, "NamedType.name")?))
        }
        "ListType" => {
            check_keys(f, &["kind", "type"], "ListType")?;
            Ok(MType::List(Box::new(r_type(need(f, "type", "ListType")?)?)))
        }
        "NonNullType" => {
            check_keys(f, &["kind", "type"], "NonNullType")?;
            let inner = r_type(need(f, "type", "NonNullType")?)?;
            if inner.is_non_null() {
                return Err("NonNullType directly inside NonNullType".into());
            }
            Ok(MType::NonNull(Box::new(inner)))
        }
        k => Err(format!("unknown type node kind {k:?}")),
    }
}

pub fn r_value(v: &JsVal) -> R<MValue> {
    let f = obj(v, "value")?;
    match kind(f, "value")?.as_str() {
        "Variable" => {
            check_keys(f, &["kind", "name"], "Variable")?;
            Ok(MValue::Var(name(need(f, "name", "Variable")?, "Variable.name")?))
        }
        "IntValue" => {
            check_keys(f, &["kind", "value"], "IntValue")?;
            Ok(MValue::Int(string(need(f, "value", "IntValue")?, "IntValue.value")?))
        }
        "FloatValue" => {
            check_keys(f, &["kind", "value"], "FloatValue")?;
            Ok(MValue::Float(string(need(f, "value", "FloatValue")?, "FloatValue.value")?))
        }
        "StringValue" => {
            check_keys(f, &["kind", "value", "block"], "StringValue")?;
            Ok(MValue::Str(string(need(f, "value", "StringValue")?, "StringValue.value")?))
        }
        "BooleanValue" => {
            check_keys(f, &["kind", "value"], "BooleanValue")?;
            match need(f, "value", "BooleanValue")? {
                JsVal::Bool(b) => Ok(MValue::Bool(*b)),
                _ => Err("BooleanValue.value must be a boolean".into()),
            }
        }
        "NullValue" => {
            check_keys(f, &["kind"], "NullValue")?;
            Ok(MValue::Null)
        }
        "EnumValue" => {
            check_keys(f, &["kind", "value"], "EnumValue")?;
            Ok(MValue::Enum(string(need(f, "value", "EnumValue")?, "EnumValue.value")?))
        }
        "ListValue" => {
            check_keys(f, &["kind", "values"], "ListValue")?;
            Ok(MValue::List(arr(need(f, "values", "ListValue")?, "ListValue.values")?.iter().map(r_value).collect::<R<_>>()?))
        }
        "ObjectValue" => {
            check_keys(f, &["kind", "fields"], "ObjectValue")?;
            let mut out = vec![];
            for x in arr(need(f, "fields", "ObjectValue")?, "ObjectValue.fields")? {
                let g = obj(x, "ObjectField")?;
                if kind(g, "ObjectField")? != "ObjectField" {
                    return Err("expected ObjectField".into());
                }
                check_keys(g, &["kind", "name", "value"], "ObjectField")?;
                out.push((name(need(g, "name", "ObjectField")?, "ObjectField.name")?, r_value(need(g, "value", "ObjectField")?)?));
            }
            Ok(MValue::Object(out))
        }
        k => Err(format!("unknown value node kind {k:?}")),
    }
}

fn r_args(v: Option<&JsVal>) -> R<MArgs> {
    let Some(v) = v else { return Ok(vec![]) };
    let mut out = vec![];
    for x in arr(v, "arguments")? {
        let f = obj(x, "Argument")?;
        if kind(f, "Argument")? != "Argument" {
            return Err("expected Argument".into());
        }
        check_keys(f, &["kind", "name", "value"], "Argument")?;
        out.push((name(need(f, "name", "Argument")?, "Argument.name")?, r_value(need(f, "value", "Argument")?)?));
    }
    Ok(out)
}

fn r_directives(v: Option<&JsVal>) -> R<Vec<MDirective>> {
    let Some(v) = v else { return Ok(vec![]) };
    let mut out = vec![];
    for x in arr(v, "directives")? {
        let f = obj(x, "Directive")?;
        if kind(f, "Directive")? != "Directive" {
            return Err("expected Directive".into());
        }
        check_keys(f, &["kind", "name", "arguments"], "Directive")?;
        out.push(MDirective { name: name(need(f, "name", "Directive")?, "Directive.name")?, args: r_args(get(f, "arguments"))? });
    }
    Ok(out)
}

fn r_selection_set(v: &JsVal) -> R<Vec<MSelection>> {
    let f = obj(v, "SelectionSet")?;
    if kind(f, "SelectionSet")? != "SelectionSet" {
        return Err("expected SelectionSet".into());
    }
    check_keys(f, &["kind", "selections"], "SelectionSet")?;
    let mut out = vec![];
    for x in arr(need(f, "selections", "SelectionSet")?, "selections")? {
        let g = obj(x, "selection")?;
        match kind(g, "selection")?.as_str() {
            "Field" => {
                check_keys(g, &["kind", "alias", "name", "arguments", "directives", "selectionSet"], "Field")?;
                out.push(MSelection::Field(MFieldSel {
                    alias: match get(g, "alias") {
                        Some(a) => Some(name(a, "Field.alias")?),
                        None => None,
                    },
                    name: name(need(g, "name", "Field")?, "Field.name")?,
                    args: r_args(get(g, "arguments"))?,
                    directives: r_directives(get(g, "directives"))?,
                    sel: match get(g, "selectionSet") {
                        Some(s) => Some(r_selection_set(s)?),
                        None => None,
                    },
                }));
            }
            "FragmentSpread" => {
                check_keys(g, &["kind", "name", "directives"], "FragmentSpread")?;
                out.push(MSelection::Spread { name: name(need(g, "name", "FragmentSpread")?, "FragmentSpread.name")?, directives: r_directives(get(g, "directives"))? });
            }
            "InlineFragment" => {
                check_keys(g, &["kind", "typeCondition", "directives", "selectionSet"], "InlineFragment")?;
                let on = match get(g, "typeCondition") {
                    Some(t) => match r_type(t)? {
                        MType::Named(n) => Some(n),
                        _ => return Err("typeCondition must be a NamedType".into()),
                    },
                    None => None,
                };
                out.push(MSelection::Inline { on, directives: r_directives(get(g, "directives"))?, sel: r_selection_set(need(g, "selectionSet", "InlineFragment")?)? });
            }
            k => return Err(format!("unknown selection node kind {k:?}")),
        }
    }
    Ok(out)
}

pub fn r_document(v: &JsVal) -> R<MOpDoc> {
    let f = obj(v, "Document")?;
    if kind(f, "Document")? != "Document" {
        return Err("expected a Document node".into());
    }
    check_keys(f, &["kind", "definitions"], "Document")?;
    let mut out = vec![];
    for x in arr(need(f, "definitions", "Document")?, "definitions")? {
        let g = obj(x, "definition")?;
        match kind(g, "definition")?.as_str() {
            "OperationDefinition" => {
                check_keys(g, &["kind", "operation", "name", "variableDefinitions", "directives", "selectionSet"], "OperationDefinition")?;
                let op = match string(need(g, "operation", "OperationDefinition")?, "operation")?.as_str() {
                    "query" => OpType::Query,
                    "mutation" => OpType::Mutation,
                    "subscription" => OpType::Subscription,
                    o => return Err(format!("unknown operation {o:?}")),
                };
                let mut vars = vec![];
                if let Some(vd) = get(g, "variableDefinitions") {
                    for y in arr(vd, "variableDefinitions")? {
                        let h = obj(y, "VariableDefinition")?;
                        if kind(h, "VariableDefinition")? != "VariableDefinition" {
                            return Err("expected VariableDefinition".into());
                        }
                        check_keys(h, &["kind", "variable", "type", "defaultValue", "directives"], "VariableDefinition")?;
                        let var = match r_value(need(h, "variable", "VariableDefinition")?)? {
                            MValue::Var(n) => n,
                            _ => return Err("VariableDefinition.variable must be a Variable".into()),
                        };
                        vars.push(MVarDef {
                            name: var,
                            ty: r_type(need(h, "type", "VariableDefinition")?)?,
                            default: match get(h, "defaultValue") {
                                Some(d) => Some(r_value(d)?),
                                None => None,
                            },
                            directives: r_directives(get(h, "directives"))?,
                        });
                    }
                }
                out.push(MExecDef::Op(MOperation {
                    op,
                    name: match get(g, "name") {
                        Some(n) => Some(name(n, "OperationDefinition.name")?),
                        None => None,
                    },
                    vars,
                    directives: r_directives(get(g, "directives"))?,
                    sel: r_selection_set(need(g, "selectionSet", "OperationDefinition")?)?,
                    shorthand: false,
                }));
            }
            "FragmentDefinition" => {
                check_keys(g, &["kind", "name", "typeCondition", "directives", "selectionSet"], "FragmentDefinition")?;
                let on = match r_type(need(g, "typeCondition", "FragmentDefinition")?)? {
                    MType::Named(n) => n,
                    _ => return Err("typeCondition must be a NamedType".into()),
                };
                out.push(MExecDef::Frag(MFragment {
                    name: name(need(g, "name", "FragmentDefinition")?, "FragmentDefinition.name")?,
                    on,
                    directives: r_directives(get(g, "directives"))?,
                    sel: r_selection_set(need(g, "selectionSet", "FragmentDefinition")?)?,
                }));
            }
            k => return Err(format!("unknown definition node kind {k:?}")),
        }
    }
    Ok(out)
}
