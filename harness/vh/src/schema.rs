//! Semantic index over a (merged) type-system model.

use crate::model::*;
use std::collections::{BTreeMap, BTreeSet};

pub const BUILTIN_SCALARS: [&str; 5] = ["Int", "Float", "String", "Boolean", "ID"];

#[derive(Clone, Debug)]
pub struct Schema {
    pub types: BTreeMap<String, MTypeDef>,
    /// user types in definition order (builtin scalars not included)
    pub order: Vec<String>,
    pub directives: BTreeMap<String, MDirectiveDef>,
    pub directive_order: Vec<String>,
    pub schema_def: Option<MSchemaDef>,
    /// (object type, field) pairs whose type is a covariant narrowing of the interface field's type: the
    /// operation generator never selects them with the object as parent (same response key, other shape)
    pub narrowed: BTreeSet<(String, String)>,
}

fn iv(name: &str, ty: MType, default: Option<MValue>) -> MInputValue {
    MInputValue { desc: None, name: name.into(), ty, default, directives: vec![] }
}

pub fn builtin_directives() -> Vec<MDirectiveDef> {
    let locs = |v: &[&str]| v.iter().map(|s| s.to_string()).collect::<Vec<_>>();
    vec![
        MDirectiveDef {
            desc: None,
            name: "skip".into(),
            args: vec![iv("if", MType::non_null(MType::named("Boolean")), None)],
            repeatable: false,
            locations: locs(&["FIELD", "FRAGMENT_SPREAD", "INLINE_FRAGMENT"]),
        },
        MDirectiveDef {
            desc: None,
            name: "include".into(),
            args: vec![iv("if", MType::non_null(MType::named("Boolean")), None)],
            repeatable: false,
            locations: locs(&["FIELD", "FRAGMENT_SPREAD", "INLINE_FRAGMENT"]),
        },
        MDirectiveDef {
            desc: None,
            name: "deprecated".into(),
            args: vec![iv("reason", MType::named("String"), Some(MValue::Str("No longer supported".into())))],
            repeatable: false,
            locations: locs(&["FIELD_DEFINITION", "ARGUMENT_DEFINITION", "INPUT_FIELD_DEFINITION", "ENUM_VALUE"]),
        },
        MDirectiveDef {
            desc: None,
            name: "specifiedBy".into(),
            args: vec![iv("url", MType::non_null(MType::named("String")), None)],
            repeatable: false,
            locations: locs(&["SCALAR"]),
        },
    ]
}

impl Schema {
    /// Build from a document of definitions and extensions (extensions merged by the
    /// reference merge; duplicates: first wins).
    pub fn from_doc(doc: &[MTsDef]) -> Schema {
        let mut types: BTreeMap<String, MTypeDef> = BTreeMap::new();
        let mut order = vec![];
        let mut directives = BTreeMap::new();
        let mut directive_order = vec![];
        let mut schema_def: Option<MSchemaDef> = None;
        for s in BUILTIN_SCALARS {
            types.insert(s.to_string(), MTypeDef::new(Kind::Scalar, s));
        }
        for d in builtin_directives() {
            directives.insert(d.name.clone(), d);
        }
        for d in doc {
            match d {
                MTsDef::Type(t) => {
                    if !types.contains_key(&t.name) {
                        order.push(t.name.clone());
                        types.insert(t.name.clone(), t.clone());
                    }
                }
                MTsDef::Directive(d) => {
                    if !directives.contains_key(&d.name) {
                        directive_order.push(d.name.clone());
                        directives.insert(d.name.clone(), d.clone());
                    }
                }
                MTsDef::Schema(s) => {
                    if schema_def.is_none() {
                        schema_def = Some(s.clone());
                    }
                }
                _ => {}
            }
        }
        for d in doc {
            match d {
                MTsDef::TypeExt(e) => {
                    if let Some(t) = types.get_mut(&e.name) {
                        if t.kind == e.kind {
                            t.implements.extend(e.implements.clone());
                            t.directives.extend(e.directives.clone());
                            t.fields.extend(e.fields.clone());
                            t.members.extend(e.members.clone());
                            t.values.extend(e.values.clone());
                            t.input_fields.extend(e.input_fields.clone());
                        }
                    }
                }
                MTsDef::SchemaExt(e) => {
                    if let Some(s) = &mut schema_def {
                        s.directives.extend(e.directives.clone());
                        s.roots.extend(e.roots.clone());
                    }
                }
                _ => {}
            }
        }
        Schema { types, order, directives, directive_order, schema_def, narrowed: BTreeSet::new() }
    }

    pub fn root(&self, op: OpType) -> Option<String> {
        match &self.schema_def {
            Some(s) => s.roots.iter().find(|(o, _)| *o == op).map(|(_, n)| n.clone()),
            None => {
                let n = match op {
                    OpType::Query => "Query",
                    OpType::Mutation => "Mutation",
                    OpType::Subscription => "Subscription",
                };
                if matches!(self.types.get(n), Some(t) if t.kind == Kind::Object) {
                    Some(n.to_string())
                } else {
                    None
                }
            }
        }
    }

    pub fn kind(&self, name: &str) -> Option<Kind> {
        self.types.get(name).map(|t| t.kind)
    }
    pub fn is_input_type(&self, name: &str) -> bool {
        matches!(self.kind(name), Some(Kind::Scalar | Kind::Enum | Kind::Input))
    }
    pub fn is_output_type(&self, name: &str) -> bool {
        matches!(
            self.kind(name),
            Some(Kind::Scalar | Kind::Enum | Kind::Object | Kind::Interface | Kind::Union)
        )
    }
    pub fn is_composite(&self, name: &str) -> bool {
        matches!(self.kind(name), Some(Kind::Object | Kind::Interface | Kind::Union))
    }
    pub fn is_leaf(&self, name: &str) -> bool {
        matches!(self.kind(name), Some(Kind::Scalar | Kind::Enum))
    }

    /// possible object types of a composite type, in definition order
    pub fn possible(&self, name: &str) -> Vec<String> {
        match self.types.get(name) {
            Some(t) if t.kind == Kind::Object => vec![name.to_string()],
            Some(t) if t.kind == Kind::Union => {
                let mut seen = BTreeSet::new();
                t.members.iter().filter(|m| seen.insert((*m).clone())).cloned().collect()
            }
            Some(t) if t.kind == Kind::Interface => self
                .order
                .iter()
                .filter(|n| {
                    let d = &self.types[*n];
                    d.kind == Kind::Object && d.implements.iter().any(|i| i == name)
                })
                .cloned()
                .collect(),
            _ => vec![],
        }
    }

    /// does a fragment with type condition `cond` apply to runtime object type `obj`?
    pub fn applies(&self, cond: &str, obj: &str) -> bool {
        self.possible(cond).iter().any(|o| o == obj)
    }

    /// field definition on an object / interface (not `__typename`)
    pub fn field(&self, parent: &str, name: &str) -> Option<&MField> {
        let t = self.types.get(parent)?;
        if !matches!(t.kind, Kind::Object | Kind::Interface) {
            return None;
        }
        t.fields.iter().find(|f| f.name == name)
    }

    pub fn objects(&self) -> Vec<&MTypeDef> {
        self.order.iter().map(|n| &self.types[n]).filter(|t| t.kind == Kind::Object).collect()
    }
    pub fn of_kind(&self, k: Kind) -> Vec<&MTypeDef> {
        self.order.iter().map(|n| &self.types[n]).filter(|t| t.kind == k).collect()
    }
}
