//! nitrogql AST -> abstract model, plus collection of every reported position together
//! with the token text that must start there.

use crate::model::*;
use nitrogql_ast::{
    base::Pos,
    directive::Directive,
    operation::{ExecutableDefinition, FragmentDefinition, OperationDefinition, OperationType},
    operation_ext::{ExecutableDefinitionExt, ImportTarget, OperationDocumentExt},
    selection_set::{Selection, SelectionSet},
    r#type::Type,
    type_system::*,
    value::Value,
    OperationDocument,
};

#[derive(Clone, Debug, PartialEq, Eq)]
pub struct PosRec {
    pub line: usize,
    pub col: usize,
    pub file: usize,
    pub builtin: bool,
    /// text of the token that must start at this position ("\"" for any string)
    pub expect: String,
    pub what: &'static str,
}

#[derive(Default)]
pub struct PosSink {
    pub recs: Vec<PosRec>,
}

impl PosSink {
    fn add(&mut self, p: &Pos, expect: &str, what: &'static str) {
        self.recs.push(PosRec {
            line: p.line,
            col: p.column,
            file: p.file,
            builtin: p.builtin,
            expect: expect.to_string(),
            what,
        });
    }
}

pub fn op_type(o: OperationType) -> OpType {
    match o {
        OperationType::Query => OpType::Query,
        OperationType::Mutation => OpType::Mutation,
        OperationType::Subscription => OpType::Subscription,
    }
}

pub fn c_type(t: &Type, ps: &mut PosSink) -> MType {
    match t {
        Type::Named(n) => {
            ps.add(&n.name.position, n.name.name, "named type");
            MType::Named(n.name.name.to_string())
        }
        Type::List(l) => {
            ps.add(&l.position, "[", "list type");
            MType::List(Box::new(c_type(&l.r#type, ps)))
        }
        Type::NonNull(n) => MType::NonNull(Box::new(c_type(&n.r#type, ps))),
    }
}

pub fn c_value(v: &Value, ps: &mut PosSink) -> MValue {
    match v {
        Value::Variable(x) => {
            ps.add(&x.position, "$", "variable");
            MValue::Var(x.name.to_string())
        }
        Value::IntValue(x) => {
            ps.add(&x.position, x.value, "int");
            MValue::Int(x.value.to_string())
        }
        Value::FloatValue(x) => {
            ps.add(&x.position, x.value, "float");
            MValue::Float(x.value.to_string())
        }
        Value::StringValue(x) => {
            ps.add(&x.position, "\"", "string");
            MValue::Str(x.value.clone())
        }
        Value::BooleanValue(x) => {
            ps.add(&x.position, x.keyword, "boolean");
            MValue::Bool(x.value)
        }
        Value::NullValue(x) => {
            ps.add(&x.position, x.keyword, "null");
            MValue::Null
        }
        Value::EnumValue(x) => {
            ps.add(&x.position, x.value, "enum value");
            MValue::Enum(x.value.to_string())
        }
        Value::ListValue(x) => {
            ps.add(&x.position, "[", "list value");
            MValue::List(x.values.iter().map(|v| c_value(v, ps)).collect())
        }
        Value::ObjectValue(x) => {
            ps.add(&x.position, "{", "object value");
            MValue::Object(
                x.fields
                    .iter()
                    .map(|(k, v)| {
                        ps.add(&k.position, k.name, "object field name");
                        (k.name.to_string(), c_value(v, ps))
                    })
                    .collect(),
            )
        }
    }
}

pub fn c_args(a: &Option<nitrogql_ast::value::Arguments>, ps: &mut PosSink) -> MArgs {
    match a {
        None => vec![],
        Some(a) => {
            ps.add(&a.position, "(", "arguments");
            a.arguments
                .iter()
                .map(|(k, v)| {
                    ps.add(&k.position, k.name, "argument name");
                    (k.name.to_string(), c_value(v, ps))
                })
                .collect()
        }
    }
}

pub fn c_directives(ds: &[Directive], ps: &mut PosSink) -> Vec<MDirective> {
    ds.iter()
        .map(|d| {
            ps.add(&d.position, "@", "directive");
            ps.add(&d.name.position, d.name.name, "directive name");
            MDirective {
                name: d.name.name.to_string(),
                args: c_args(&d.arguments, ps),
            }
        })
        .collect()
}

pub fn c_selection_set(s: &SelectionSet, ps: &mut PosSink) -> Vec<MSelection> {
    ps.add(&s.position, "{", "selection set");
    s.selections
        .iter()
        .map(|sel| match sel {
            Selection::Field(f) => {
                let alias = f.alias.as_ref().map(|a| {
                    ps.add(&a.position, a.name, "alias");
                    a.name.to_string()
                });
                ps.add(&f.name.position, f.name.name, "field name");
                MSelection::Field(MFieldSel {
                    alias,
                    name: f.name.name.to_string(),
                    args: c_args(&f.arguments, ps),
                    directives: c_directives(&f.directives, ps),
                    sel: f.selection_set.as_ref().map(|s| c_selection_set(s, ps)),
                })
            }
            Selection::FragmentSpread(f) => {
                ps.add(&f.position, "...", "fragment spread");
                ps.add(&f.fragment_name.position, f.fragment_name.name, "spread name");
                MSelection::Spread {
                    name: f.fragment_name.name.to_string(),
                    directives: c_directives(&f.directives, ps),
                }
            }
            Selection::InlineFragment(f) => {
                ps.add(&f.position, "...", "inline fragment");
                let on = f.type_condition.as_ref().map(|t| {
                    ps.add(&t.position, t.name, "type condition");
                    t.name.to_string()
                });
                MSelection::Inline {
                    on,
                    directives: c_directives(&f.directives, ps),
                    sel: c_selection_set(&f.selection_set, ps),
                }
            }
        })
        .collect()
}

pub fn c_operation(o: &OperationDefinition, ps: &mut PosSink) -> MOperation {
    ps.add(&o.position, o.operation_type.as_str(), "operation");
    let name = o.name.as_ref().map(|n| {
        ps.add(&n.position, n.name, "operation name");
        n.name.to_string()
    });
    let vars = match &o.variables_definition {
        None => vec![],
        Some(vd) => {
            ps.add(&vd.position, "(", "variables definition");
            vd.definitions
                .iter()
                .map(|v| {
                    ps.add(&v.pos, "$", "variable definition");
                    ps.add(&v.name.position, "$", "variable definition name");
                    MVarDef {
                        name: v.name.name.to_string(),
                        ty: c_type(&v.r#type, ps),
                        default: v.default_value.as_ref().map(|d| c_value(d, ps)),
                        directives: c_directives(&v.directives, ps),
                    }
                })
                .collect()
        }
    };
    MOperation {
        op: op_type(o.operation_type),
        name,
        vars,
        directives: c_directives(&o.directives, ps),
        sel: c_selection_set(&o.selection_set, ps),
        shorthand: false,
    }
}

pub fn c_fragment(f: &FragmentDefinition, ps: &mut PosSink) -> MFragment {
    ps.add(&f.position, "fragment", "fragment");
    ps.add(&f.name.position, f.name.name, "fragment name");
    ps.add(&f.type_condition.position, f.type_condition.name, "fragment type condition");
    MFragment {
        name: f.name.name.to_string(),
        on: f.type_condition.name.to_string(),
        directives: c_directives(&f.directives, ps),
        sel: c_selection_set(&f.selection_set, ps),
    }
}

pub fn c_op_doc_ext(d: &OperationDocumentExt, ps: &mut PosSink) -> MOpDoc {
    d.definitions
        .iter()
        .map(|def| match def {
            ExecutableDefinitionExt::OperationDefinition(o) => MExecDef::Op(c_operation(o, ps)),
            ExecutableDefinitionExt::FragmentDefinition(f) => MExecDef::Frag(c_fragment(f, ps)),
            ExecutableDefinitionExt::Import(i) => {
                ps.add(&i.position, "#", "import");
                let targets = i
                    .targets
                    .iter()
                    .map(|t| match t {
                        ImportTarget::Wildcard => None,
                        ImportTarget::Name(n) => {
                            ps.add(&n.position, n.name, "import target");
                            Some(n.name.to_string())
                        }
                    })
                    .collect();
                ps.add(&i.path.position, "\"", "import path");
                MExecDef::Import(MImport {
                    targets,
                    path: i.path.value.clone(),
                })
            }
        })
        .collect()
}

pub fn c_op_doc(d: &OperationDocument, ps: &mut PosSink) -> MOpDoc {
    d.definitions
        .iter()
        .map(|def| match def {
            ExecutableDefinition::OperationDefinition(o) => MExecDef::Op(c_operation(o, ps)),
            ExecutableDefinition::FragmentDefinition(f) => MExecDef::Frag(c_fragment(f, ps)),
        })
        .collect()
}

fn c_desc(d: &Option<nitrogql_ast::value::StringValue>, ps: &mut PosSink) -> Option<String> {
    d.as_ref().map(|s| {
        ps.add(&s.position, "\"", "description");
        s.value.clone()
    })
}

pub fn c_input_value(v: &InputValueDefinition, ps: &mut PosSink) -> MInputValue {
    let desc = c_desc(&v.description, ps);
    ps.add(&v.position, v.name.name, "input value");
    ps.add(&v.name.position, v.name.name, "input value name");
    MInputValue {
        desc,
        name: v.name.name.to_string(),
        ty: c_type(&v.r#type, ps),
        default: v.default_value.as_ref().map(|d| c_value(d, ps)),
        directives: c_directives(&v.directives, ps),
    }
}

pub fn c_field_def(f: &FieldDefinition, ps: &mut PosSink) -> MField {
    let desc = c_desc(&f.description, ps);
    ps.add(&f.name.position, f.name.name, "field definition name");
    MField {
        desc,
        name: f.name.name.to_string(),
        args: f
            .arguments
            .as_ref()
            .map(|a| a.input_values.iter().map(|v| c_input_value(v, ps)).collect())
            .unwrap_or_default(),
        ty: c_type(&f.r#type, ps),
        directives: c_directives(&f.directives, ps),
    }
}

fn idents(v: &[nitrogql_ast::base::Ident], ps: &mut PosSink, what: &'static str) -> Vec<String> {
    v.iter()
        .map(|i| {
            ps.add(&i.position, i.name, what);
            i.name.to_string()
        })
        .collect()
}

fn c_enum_value(v: &EnumValueDefinition, ps: &mut PosSink) -> MEnumValue {
    let desc = c_desc(&v.description, ps);
    ps.add(&v.name.position, v.name.name, "enum value definition");
    MEnumValue {
        desc,
        name: v.name.name.to_string(),
        directives: c_directives(&v.directives, ps),
    }
}

pub fn c_type_def(d: &TypeDefinition, ps: &mut PosSink) -> MTypeDef {
    match d {
        TypeDefinition::Scalar(x) => {
            let desc = c_desc(&x.description, ps);
            ps.add(&x.position, "scalar", "scalar def");
            ps.add(&x.scalar_keyword.position, x.scalar_keyword.name, "scalar keyword");
            ps.add(&x.name.position, x.name.name, "type name");
            MTypeDef {
                desc,
                directives: c_directives(&x.directives, ps),
                ..MTypeDef::new(Kind::Scalar, x.name.name)
            }
        }
        TypeDefinition::Object(x) => {
            let desc = c_desc(&x.description, ps);
            ps.add(&x.position, "type", "object def");
            ps.add(&x.type_keyword.position, x.type_keyword.name, "type keyword");
            ps.add(&x.name.position, x.name.name, "type name");
            MTypeDef {
                desc,
                implements: idents(&x.implements, ps, "implements"),
                directives: c_directives(&x.directives, ps),
                fields: x.fields.iter().map(|f| c_field_def(f, ps)).collect(),
                ..MTypeDef::new(Kind::Object, x.name.name)
            }
        }
        TypeDefinition::Interface(x) => {
            let desc = c_desc(&x.description, ps);
            ps.add(&x.position, "interface", "interface def");
            ps.add(
                &x.interface_keyword.position,
                x.interface_keyword.name,
                "interface keyword",
            );
            ps.add(&x.name.position, x.name.name, "type name");
            MTypeDef {
                desc,
                implements: idents(&x.implements, ps, "implements"),
                directives: c_directives(&x.directives, ps),
                fields: x.fields.iter().map(|f| c_field_def(f, ps)).collect(),
                ..MTypeDef::new(Kind::Interface, x.name.name)
            }
        }
        TypeDefinition::Union(x) => {
            let desc = c_desc(&x.description, ps);
            ps.add(&x.position, "union", "union def");
            ps.add(&x.union_keyword.position, x.union_keyword.name, "union keyword");
            ps.add(&x.name.position, x.name.name, "type name");
            MTypeDef {
                desc,
                directives: c_directives(&x.directives, ps),
                members: idents(&x.members, ps, "union member"),
                ..MTypeDef::new(Kind::Union, x.name.name)
            }
        }
        TypeDefinition::Enum(x) => {
            let desc = c_desc(&x.description, ps);
            ps.add(&x.position, "enum", "enum def");
            ps.add(&x.enum_keyword.position, x.enum_keyword.name, "enum keyword");
            ps.add(&x.name.position, x.name.name, "type name");
            MTypeDef {
                desc,
                directives: c_directives(&x.directives, ps),
                values: x.values.iter().map(|v| c_enum_value(v, ps)).collect(),
                ..MTypeDef::new(Kind::Enum, x.name.name)
            }
        }
        TypeDefinition::InputObject(x) => {
            let desc = c_desc(&x.description, ps);
            ps.add(&x.position, "input", "input def");
            ps.add(&x.input_keyword.position, x.input_keyword.name, "input keyword");
            ps.add(&x.name.position, x.name.name, "type name");
            MTypeDef {
                desc,
                directives: c_directives(&x.directives, ps),
                input_fields: x.fields.iter().map(|f| c_input_value(f, ps)).collect(),
                ..MTypeDef::new(Kind::Input, x.name.name)
            }
        }
    }
}

pub fn c_type_ext(d: &TypeExtension, ps: &mut PosSink) -> MTypeDef {
    match d {
        TypeExtension::Scalar(x) => {
            ps.add(&x.position, "extend", "scalar ext");
            ps.add(&x.name.position, x.name.name, "type name");
            MTypeDef {
                directives: c_directives(&x.directives, ps),
                ..MTypeDef::new(Kind::Scalar, x.name.name)
            }
        }
        TypeExtension::Object(x) => {
            ps.add(&x.position, "extend", "object ext");
            ps.add(&x.name.position, x.name.name, "type name");
            MTypeDef {
                implements: idents(&x.implements, ps, "implements"),
                directives: c_directives(&x.directives, ps),
                fields: x.fields.iter().map(|f| c_field_def(f, ps)).collect(),
                ..MTypeDef::new(Kind::Object, x.name.name)
            }
        }
        TypeExtension::Interface(x) => {
            ps.add(&x.position, "extend", "interface ext");
            ps.add(&x.name.position, x.name.name, "type name");
            MTypeDef {
                implements: idents(&x.implements, ps, "implements"),
                directives: c_directives(&x.directives, ps),
                fields: x.fields.iter().map(|f| c_field_def(f, ps)).collect(),
                ..MTypeDef::new(Kind::Interface, x.name.name)
            }
        }
        TypeExtension::Union(x) => {
            ps.add(&x.position, "extend", "union ext");
            ps.add(&x.name.position, x.name.name, "type name");
            MTypeDef {
                directives: c_directives(&x.directives, ps),
                members: idents(&x.members, ps, "union member"),
                ..MTypeDef::new(Kind::Union, x.name.name)
            }
        }
        TypeExtension::Enum(x) => {
            ps.add(&x.position, "extend", "enum ext");
            ps.add(&x.name.position, x.name.name, "type name");
            MTypeDef {
                directives: c_directives(&x.directives, ps),
                values: x.values.iter().map(|v| c_enum_value(v, ps)).collect(),
                ..MTypeDef::new(Kind::Enum, x.name.name)
            }
        }
        TypeExtension::InputObject(x) => {
            ps.add(&x.position, "extend", "input ext");
            ps.add(&x.name.position, x.name.name, "type name");
            MTypeDef {
                directives: c_directives(&x.directives, ps),
                input_fields: x.fields.iter().map(|f| c_input_value(f, ps)).collect(),
                ..MTypeDef::new(Kind::Input, x.name.name)
            }
        }
    }
}

fn c_roots(
    defs: &[(OperationType, nitrogql_ast::base::Ident)],
    ps: &mut PosSink,
) -> Vec<(OpType, String)> {
    defs.iter()
        .map(|(o, n)| {
            ps.add(&n.position, n.name, "root type");
            (op_type(*o), n.name.to_string())
        })
        .collect()
}

pub fn c_schema_def(s: &SchemaDefinition, ps: &mut PosSink) -> MSchemaDef {
    let desc = c_desc(&s.description, ps);
    // position is that of the whole definition (description first when present)
    ps.add(
        &s.position,
        if desc.is_some() { "\"" } else { "schema" },
        "schema def",
    );
    MSchemaDef {
        desc,
        directives: c_directives(&s.directives, ps),
        roots: c_roots(&s.definitions, ps),
    }
}

pub fn c_directive_def(d: &DirectiveDefinition, ps: &mut PosSink) -> MDirectiveDef {
    let desc = c_desc(&d.description, ps);
    ps.add(&d.position, "directive", "directive def");
    ps.add(&d.directive_keyword.position, d.directive_keyword.name, "directive keyword");
    ps.add(&d.name.position, d.name.name, "directive def name");
    let args = d
        .arguments
        .as_ref()
        .map(|a| a.input_values.iter().map(|v| c_input_value(v, ps)).collect())
        .unwrap_or_default();
    if let Some(r) = &d.repeatable {
        ps.add(&r.position, "repeatable", "repeatable");
    }
    MDirectiveDef {
        desc,
        name: d.name.name.to_string(),
        args,
        repeatable: d.repeatable.is_some(),
        locations: idents(&d.locations, ps, "directive location"),
    }
}

pub fn c_ts_ext_doc(d: &TypeSystemOrExtensionDocument, ps: &mut PosSink) -> MTsDoc {
    d.definitions
        .iter()
        .map(|def| match def {
            TypeSystemDefinitionOrExtension::SchemaDefinition(s) => {
                MTsDef::Schema(c_schema_def(s, ps))
            }
            TypeSystemDefinitionOrExtension::TypeDefinition(t) => MTsDef::Type(c_type_def(t, ps)),
            TypeSystemDefinitionOrExtension::DirectiveDefinition(d) => {
                MTsDef::Directive(c_directive_def(d, ps))
            }
            TypeSystemDefinitionOrExtension::SchemaExtension(s) => {
                ps.add(&s.position, "extend", "schema ext");
                MTsDef::SchemaExt(MSchemaDef {
                    desc: None,
                    directives: c_directives(&s.directives, ps),
                    roots: c_roots(&s.definitions, ps),
                })
            }
            TypeSystemDefinitionOrExtension::TypeExtension(t) => MTsDef::TypeExt(c_type_ext(t, ps)),
        })
        .collect()
}

pub fn c_ts_doc(d: &TypeSystemDocument, ps: &mut PosSink) -> MTsDoc {
    d.definitions
        .iter()
        .map(|def| match def {
            TypeSystemDefinition::SchemaDefinition(s) => MTsDef::Schema(c_schema_def(s, ps)),
            TypeSystemDefinition::TypeDefinition(t) => MTsDef::Type(c_type_def(t, ps)),
            TypeSystemDefinition::DirectiveDefinition(d) => {
                MTsDef::Directive(c_directive_def(d, ps))
            }
        })
        .collect()
}
