//! Reference executor (spec CollectFields / CompleteValue over abstract values) and the
//! per-selection-set denotation Ref_local used by C01/C02; scalar configurations.

use crate::choices::Choices;
use crate::model::*;
use crate::schema::Schema;
use crate::tsmini::{self, Env, Sem, Val};
use std::collections::{BTreeMap, BTreeSet};
use std::rc::Rc;

#[derive(Clone, Copy, Debug, PartialEq, Eq, PartialOrd, Ord)]
pub enum Target {
    OperationInput,
    OperationOutput,
    ResolverInput,
    ResolverOutput,
}

impl Target {
    pub const ALL: [Target; 4] = [Target::OperationInput, Target::OperationOutput, Target::ResolverInput, Target::ResolverOutput];
    pub fn ns(&self) -> &'static str {
        match self {
            Target::OperationInput => "__OperationInput",
            Target::OperationOutput => "__OperationOutput",
            Target::ResolverInput => "__ResolverInput",
            Target::ResolverOutput => "__ResolverOutput",
        }
    }
    pub fn is_input(&self) -> bool {
        matches!(self, Target::OperationInput | Target::ResolverInput)
    }
}

#[derive(Clone, Debug, PartialEq, Eq)]
pub enum ScalarTs {
    Single(String),
    SendReceive { send: String, receive: String },
    Separate { resolver_input: String, resolver_output: String, operation_input: String, operation_output: String },
}

impl ScalarTs {
    pub fn get(&self, t: Target) -> &str {
        match self {
            ScalarTs::Single(s) => s,
            ScalarTs::SendReceive { send, receive } => match t {
                Target::ResolverOutput | Target::OperationInput => send,
                Target::ResolverInput | Target::OperationOutput => receive,
            },
            ScalarTs::Separate { resolver_input, resolver_output, operation_input, operation_output } => match t {
                Target::ResolverInput => resolver_input,
                Target::ResolverOutput => resolver_output,
                Target::OperationInput => operation_input,
                Target::OperationOutput => operation_output,
            },
        }
    }
    pub fn to_nitrogql(&self) -> nitrogql_config_file::ScalarTypeConfig {
        use nitrogql_config_file::{ScalarTypeConfig as C, SendReceiveScalarTypeConfig, SeparateScalarTypeConfig};
        match self {
            ScalarTs::Single(s) => C::Single(s.clone()),
            ScalarTs::SendReceive { send, receive } => C::SendReceive(SendReceiveScalarTypeConfig { send: send.clone(), receive: receive.clone() }),
            ScalarTs::Separate { resolver_input, resolver_output, operation_input, operation_output } => C::Separate(SeparateScalarTypeConfig {
                resolver_input: resolver_input.clone(),
                resolver_output: resolver_output.clone(),
                operation_input: operation_input.clone(),
                operation_output: operation_output.clone(),
            }),
        }
    }
    pub fn all_types(&self) -> Vec<&str> {
        Target::ALL.iter().map(|t| self.get(*t)).collect()
    }
}

#[derive(Clone, Debug)]
pub struct ScalarCfg {
    pub map: BTreeMap<String, ScalarTs>,
    /// scalars configured through a @nitrogql_ts_type directive in the SDL instead of the config
    pub via_directive: BTreeSet<String>,
    /// scalars configured in the config file that ALSO carry a @nitrogql_ts_type directive with other
    /// types: the configuration takes precedence (schema_type_printer/context.rs: "If scalarType is
    /// provided, it takes precedence"), so the directive's types must not show anywhere
    pub decoy_directive: BTreeMap<String, ScalarTs>,
    /// which of the 24 orders the four (named) arguments of a @nitrogql_ts_type application are written in
    pub directive_arg_order: usize,
}

pub const TS_POOL: &[&str] = &[
    "string", "number", "Date", "string | number", "bigint", "boolean", "URL", "string | Date", "Map<string, Date> | URL", "{ iso: string }",
    "readonly string[]",
    // an identifier that follows a dot and is nevertheless a free reference to a global (rest element)
    "[...Date[]]",
];

impl ScalarCfg {
    pub fn builtin() -> ScalarCfg {
        let mut map = BTreeMap::new();
        map.insert("ID".to_string(), ScalarTs::SendReceive { send: "string | number".into(), receive: "string".into() });
        map.insert("String".to_string(), ScalarTs::Single("string".into()));
        map.insert("Int".to_string(), ScalarTs::Single("number".into()));
        map.insert("Float".to_string(), ScalarTs::Single("number".into()));
        map.insert("Boolean".to_string(), ScalarTs::Single("boolean".into()));
        ScalarCfg { map, via_directive: BTreeSet::new(), decoy_directive: BTreeMap::new(), directive_arg_order: 0 }
    }
    /// random configuration for the custom scalars of `s`
    pub fn generate(ch: &mut Choices, s: &Schema, allow_directive: bool) -> ScalarCfg {
        let mut cfg = ScalarCfg::builtin();
        // the configuration may also re-map built-in scalars (documented: `scalarTypes` accepts any
        // scalar name; e.g. ID: string, Int: {send: "number | bigint", receive: number})
        if ch.chance(1, 3) {
            let b = *ch.pick(&["ID", "String", "Int", "Float", "Boolean"]);
            let c = if ch.flip() {
                ScalarTs::Single(ch.pick(TS_POOL).to_string())
            } else {
                ScalarTs::SendReceive { send: ch.pick(TS_POOL).to_string(), receive: ch.pick(TS_POOL).to_string() }
            };
            cfg.map.insert(b.to_string(), c);
        }
        for t in s.of_kind(Kind::Scalar) {
            let c = match ch.below(3) {
                0 => ScalarTs::Single(ch.pick(TS_POOL).to_string()),
                1 => ScalarTs::SendReceive { send: ch.pick(TS_POOL).to_string(), receive: ch.pick(TS_POOL).to_string() },
                _ => ScalarTs::Separate {
                    resolver_input: ch.pick(TS_POOL).to_string(),
                    resolver_output: ch.pick(TS_POOL).to_string(),
                    operation_input: ch.pick(TS_POOL).to_string(),
                    operation_output: ch.pick(TS_POOL).to_string(),
                },
            };
            if allow_directive && ch.chance(1, 4) {
                // the directive always gives four types
                let sep = ScalarTs::Separate {
                    resolver_input: c.get(Target::ResolverInput).to_string(),
                    resolver_output: c.get(Target::ResolverOutput).to_string(),
                    operation_input: c.get(Target::OperationInput).to_string(),
                    operation_output: c.get(Target::OperationOutput).to_string(),
                };
                cfg.map.insert(t.name.clone(), sep);
                cfg.via_directive.insert(t.name.clone());
            } else {
                if allow_directive && ch.chance(1, 4) {
                    let pick = |ch: &mut Choices, avoid: &str| -> String {
                        let v = ch.pick(TS_POOL).to_string();
                        if v == avoid { "symbol".to_string() } else { v }
                    };
                    let decoy = ScalarTs::Separate {
                        resolver_input: pick(ch, c.get(Target::ResolverInput)),
                        resolver_output: pick(ch, c.get(Target::ResolverOutput)),
                        operation_input: pick(ch, c.get(Target::OperationInput)),
                        operation_output: pick(ch, c.get(Target::OperationOutput)),
                    };
                    cfg.decoy_directive.insert(t.name.clone(), decoy);
                }
                cfg.map.insert(t.name.clone(), c);
            }
        }
        if !cfg.via_directive.is_empty() || !cfg.decoy_directive.is_empty() {
            cfg.directive_arg_order = ch.below(24);
        }
        cfg
    }
    pub fn ts(&self, scalar: &str, t: Target) -> &str {
        self.map.get(scalar).map(|c| c.get(t)).unwrap_or("unknown")
    }
    pub fn to_nitrogql_map(&self) -> std::collections::HashMap<String, nitrogql_config_file::ScalarTypeConfig> {
        self.map
            .iter()
            .filter(|(k, _)| !self.via_directive.contains(*k))
            .map(|(k, v)| (k.clone(), v.to_nitrogql()))
            .collect()
    }
    /// SDL directive to attach to scalars configured via directive
    pub fn directive_for(&self, scalar: &str) -> Option<MDirective> {
        let c = match self.decoy_directive.get(scalar) {
            Some(d) => d,
            None => {
                if !self.via_directive.contains(scalar) {
                    return None;
                }
                &self.map[scalar]
            }
        };
        let mut args: Vec<(String, MValue)> = vec![
            ("resolverInput".into(), MValue::Str(c.get(Target::ResolverInput).into())),
            ("resolverOutput".into(), MValue::Str(c.get(Target::ResolverOutput).into())),
            ("operationInput".into(), MValue::Str(c.get(Target::OperationInput).into())),
            ("operationOutput".into(), MValue::Str(c.get(Target::OperationOutput).into())),
        ];
        // arguments are named: any order is the same application
        let mut k = self.directive_arg_order;
        let mut ordered = vec![];
        for n in (1..=4).rev() {
            ordered.push(args.remove(k % n));
            k /= n;
        }
        Some(MDirective { name: "nitrogql_ts_type".into(), args: ordered })
    }
}

thread_local! {
    static GLOBAL_SEM_CACHE: std::cell::RefCell<BTreeMap<String, Rc<Sem>>> = const { std::cell::RefCell::new(BTreeMap::new()) };
    static INHABITANTS_CACHE: std::cell::RefCell<BTreeMap<String, Vec<Val>>> = const { std::cell::RefCell::new(BTreeMap::new()) };
}

/// evaluate a TS type expression in the global scope (no user declarations)
pub fn global_sem(ts: &str) -> Rc<Sem> {
    if let Some(s) = GLOBAL_SEM_CACHE.with(|c| c.borrow().get(ts).cloned()) {
        return s;
    }
    let ty = tsmini::parse_type(ts).unwrap_or_else(|e| panic!("harness: scalar TS type {ts:?} does not parse: {e:?}"));
    let scope = tsmini::build_scope("<global>", &[]);
    let s = tsmini::eval(&ty, &Env::root(scope), 0).unwrap_or_else(|e| panic!("harness: scalar TS type {ts:?} not evaluable: {e:?}"));
    GLOBAL_SEM_CACHE.with(|c| c.borrow_mut().insert(ts.to_string(), s.clone()));
    s
}

pub fn sem_inhabitants(ts: &str) -> Vec<Val> {
    if let Some(v) = INHABITANTS_CACHE.with(|c| c.borrow().get(ts).cloned()) {
        return v;
    }
    let mut budget = 16;
    let v = tsmini::inhabitants(&global_sem(ts), &mut budget, 0).unwrap_or_default();
    INHABITANTS_CACHE.with(|c| c.borrow_mut().insert(ts.to_string(), v.clone()));
    v
}

// ---------------------------------------------------------------------------
// skip / include, CollectFields

pub type Sigma = BTreeMap<String, bool>;

fn cond_value(v: &MValue, sigma: &Sigma) -> bool {
    match v {
        MValue::Bool(b) => *b,
        MValue::Var(n) => *sigma.get(n).unwrap_or(&false),
        _ => false,
    }
}

pub fn skipped(ds: &[MDirective], sigma: &Sigma) -> bool {
    for d in ds {
        if d.name == "skip" {
            if let Some((_, v)) = d.args.iter().find(|(k, _)| k == "if") {
                if cond_value(v, sigma) {
                    return true;
                }
            }
        }
        if d.name == "include" {
            if let Some((_, v)) = d.args.iter().find(|(k, _)| k == "if") {
                if !cond_value(v, sigma) {
                    return true;
                }
            }
        }
    }
    false
}

pub struct Exec<'a> {
    pub s: &'a Schema,
    pub frags: &'a BTreeMap<String, MFragment>,
    pub cfg: &'a ScalarCfg,
}

/// ordered map response key -> fields
pub type Collected<'b> = Vec<(String, Vec<&'b MFieldSel>)>;

impl<'a> Exec<'a> {
    pub fn collect<'b>(&'b self, obj: &str, sels: &'b [MSelection], sigma: &Sigma, seen: &mut BTreeSet<String>, out: &mut Collected<'b>) {
        for sel in sels {
            match sel {
                MSelection::Field(f) => {
                    if skipped(&f.directives, sigma) {
                        continue;
                    }
                    let key = f.key().to_string();
                    match out.iter_mut().find(|(k, _)| *k == key) {
                        Some((_, v)) => v.push(f),
                        None => out.push((key, vec![f])),
                    }
                }
                MSelection::Spread { name, directives } => {
                    if skipped(directives, sigma) {
                        continue;
                    }
                    if seen.contains(name) {
                        continue;
                    }
                    seen.insert(name.clone());
                    let Some(fr) = self.frags.get(name) else { continue };
                    if !self.s.applies(&fr.on, obj) {
                        continue;
                    }
                    self.collect(obj, &fr.sel, sigma, seen, out);
                }
                MSelection::Inline { on, directives, sel } => {
                    if skipped(directives, sigma) {
                        continue;
                    }
                    if let Some(t) = on {
                        if !self.s.applies(t, obj) {
                            continue;
                        }
                    }
                    self.collect(obj, sel, sigma, seen, out);
                }
            }
        }
    }

    /// boolean variables used in @skip/@include at this level (through fragments and
    /// inline fragments, not into sub-selections of fields)
    pub fn level_vars(&self, sels: &[MSelection], seen: &mut BTreeSet<String>, out: &mut BTreeSet<String>) {
        let from_dirs = |ds: &[MDirective], out: &mut BTreeSet<String>| {
            for d in ds {
                if d.name == "skip" || d.name == "include" {
                    for (k, v) in &d.args {
                        if k == "if" {
                            if let MValue::Var(n) = v {
                                out.insert(n.clone());
                            }
                        }
                    }
                }
            }
        };
        for sel in sels {
            match sel {
                MSelection::Field(f) => from_dirs(&f.directives, out),
                MSelection::Spread { name, directives } => {
                    from_dirs(directives, out);
                    if seen.insert(name.clone()) {
                        if let Some(fr) = self.frags.get(name) {
                            self.level_vars(&fr.sel, seen, out);
                        }
                    }
                }
                MSelection::Inline { directives, sel, .. } => {
                    from_dirs(directives, out);
                    self.level_vars(sel, seen, out);
                }
            }
        }
    }

    // ------------------------------------------------------------------
    // execution

    /// Execute selection sets on an object of runtime type `obj`.
    /// Err(()) = a non-null position could not be satisfied (propagate null upward).
    pub fn execute(&self, obj: &str, sel_sets: &[&[MSelection]], sigma: &Sigma, ch: &mut Choices, depth: usize) -> Result<Val, ()> {
        let mut coll: Collected = vec![];
        let mut seen = BTreeSet::new();
        for ss in sel_sets {
            self.collect(obj, ss, sigma, &mut seen, &mut coll);
        }
        let mut m = BTreeMap::new();
        for (key, fields) in coll {
            let f0 = fields[0];
            if f0.name == "__typename" {
                m.insert(key, Val::Str(obj.to_string()));
                continue;
            }
            let fd = self.s.field(obj, &f0.name).unwrap_or_else(|| panic!("harness: field {} not on {obj}", f0.name));
            let subs: Vec<&[MSelection]> = fields.iter().filter_map(|f| f.sel.as_deref()).collect();
            let v = self.complete(&fd.ty, &subs, sigma, ch, depth)?;
            m.insert(key, v);
        }
        Ok(Val::Obj(m))
    }

    fn complete(&self, ty: &MType, subs: &[&[MSelection]], sigma: &Sigma, ch: &mut Choices, depth: usize) -> Result<Val, ()> {
        match ty {
            MType::NonNull(t) => self.complete_nn(t, subs, sigma, ch, depth),
            t => {
                if ch.chance(1, 5) {
                    return Ok(Val::Null);
                }
                // a failing non-null descendant nulls this (nullable) position
                Ok(self.complete_nn(t, subs, sigma, ch, depth).unwrap_or(Val::Null))
            }
        }
    }

    fn complete_nn(&self, ty: &MType, subs: &[&[MSelection]], sigma: &Sigma, ch: &mut Choices, depth: usize) -> Result<Val, ()> {
        match ty {
            MType::NonNull(t) => self.complete_nn(t, subs, sigma, ch, depth),
            MType::List(t) => {
                let n = if depth > 6 { 0 } else { ch.below(3) };
                let mut items = vec![];
                for _ in 0..n {
                    items.push(self.complete(t, subs, sigma, ch, depth + 1)?);
                }
                Ok(Val::List(items))
            }
            MType::Named(n) => {
                let def = &self.s.types[n];
                match def.kind {
                    Kind::Scalar => {
                        let vs = sem_inhabitants(self.cfg.ts(n, Target::OperationOutput));
                        let vs: Vec<Val> = vs.into_iter().filter(|v| !matches!(v, Val::Null | Val::Undefined)).collect();
                        if vs.is_empty() {
                            return Err(());
                        }
                        Ok(ch.pick(&vs).clone())
                    }
                    Kind::Enum => Ok(Val::Str(ch.pick(&def.values).name.clone())),
                    Kind::Object | Kind::Interface | Kind::Union => {
                        let poss = self.s.possible(n);
                        if poss.is_empty() || depth > 8 {
                            return Err(());
                        }
                        let o = ch.pick(&poss).clone();
                        self.execute(&o, subs, sigma, ch, depth + 1)
                    }
                    Kind::Input => Err(()),
                }
            }
        }
    }

    // ------------------------------------------------------------------
    // Ref_local

    /// v ∈ Ref_local(composite type `c`, selection sets)?
    pub fn in_ref_local(&self, v: &Val, c: &str, sel_sets: &[&[MSelection]]) -> bool {
        self.in_ref_local_x(v, c, sel_sets, false)
    }

    /// `open` = extra keys are ignored (TypeScript object types are open, so no emitted
    /// type can exclude them)
    pub fn in_ref_local_x(&self, v: &Val, c: &str, sel_sets: &[&[MSelection]], open: bool) -> bool {
        let Val::Obj(m) = v else { return false };
        let mut vars = BTreeSet::new();
        let mut seen = BTreeSet::new();
        for ss in sel_sets {
            self.level_vars(ss, &mut seen, &mut vars);
        }
        let vars: Vec<String> = vars.into_iter().collect();
        let n = vars.len().min(10);
        for o in self.s.possible(c) {
            // response keys this selection set can produce for runtime type `o` under some assignment:
            // the emitted type can (and does: `k?: never`) say that such a key is absent in the branches
            // that do not select it, so even in open mode these keys are not "extra"
            let mut colls: Vec<Collected> = vec![];
            let mut universe: BTreeSet<String> = BTreeSet::new();
            for mask in 0..(1u32 << n) {
                let sigma: Sigma = vars.iter().enumerate().map(|(i, v)| (v.clone(), i < n && (mask >> i) & 1 == 1)).collect();
                let mut coll: Collected = vec![];
                let mut seen = BTreeSet::new();
                for ss in sel_sets {
                    self.collect(&o, ss, &sigma, &mut seen, &mut coll);
                }
                for (k, _) in &coll {
                    universe.insert(k.clone());
                }
                colls.push(coll);
            }
            for coll in colls {
                if (!open && coll.len() != m.len()) || !coll.iter().all(|(k, _)| m.contains_key(k)) {
                    continue;
                }
                if open && universe.iter().any(|k| !coll.iter().any(|(ck, _)| ck == k) && m.get(k).map(|x| !matches!(x, Val::Undefined)).unwrap_or(false)) {
                    continue;
                }
                let mut ok = true;
                for (k, fields) in &coll {
                    let x = &m[k];
                    let f0 = fields[0];
                    if f0.name == "__typename" {
                        if *x != Val::Str(o.clone()) {
                            ok = false;
                            break;
                        }
                        continue;
                    }
                    let Some(fd) = self.s.field(&o, &f0.name) else {
                        ok = false;
                        break;
                    };
                    let subs: Vec<&[MSelection]> = fields.iter().filter_map(|f| f.sel.as_deref()).collect();
                    if !self.in_ref_val(x, &fd.ty, &subs, open) {
                        ok = false;
                        break;
                    }
                }
                if ok {
                    return true;
                }
            }
        }
        false
    }

    fn in_ref_val(&self, v: &Val, ty: &MType, subs: &[&[MSelection]], open: bool) -> bool {
        match ty {
            MType::NonNull(t) => *v != Val::Null && self.in_ref_val_nn(v, t, subs, open),
            t => *v == Val::Null || self.in_ref_val_nn(v, t, subs, open),
        }
    }
    fn in_ref_val_nn(&self, v: &Val, ty: &MType, subs: &[&[MSelection]], open: bool) -> bool {
        match ty {
            MType::NonNull(t) => self.in_ref_val_nn(v, t, subs, open),
            MType::List(t) => match v {
                Val::List(items) => items.iter().all(|i| self.in_ref_val(i, t, subs, open)),
                _ => false,
            },
            MType::Named(n) => {
                let def = &self.s.types[n];
                match def.kind {
                    Kind::Scalar => {
                        let sem = global_sem(self.cfg.ts(n, Target::OperationOutput));
                        !matches!(v, Val::Undefined) && tsmini::member(v, &sem, 0).unwrap_or(false)
                    }
                    Kind::Enum => matches!(v, Val::Str(s) if def.values.iter().any(|x| &x.name == s)),
                    Kind::Object | Kind::Interface | Kind::Union => self.in_ref_local_x(v, n, subs, open),
                    Kind::Input => false,
                }
            }
        }
    }
}

/// all boolean variables in @skip/@include conditions of a selection tree (any depth),
/// following fragment spreads
pub fn all_condition_vars(sels: &[MSelection], frags: &BTreeMap<String, MFragment>, seen: &mut BTreeSet<String>, out: &mut BTreeSet<String>) {
    let from_dirs = |ds: &[MDirective], out: &mut BTreeSet<String>| {
        for d in ds {
            if d.name == "skip" || d.name == "include" {
                for (k, v) in &d.args {
                    if k == "if" {
                        if let MValue::Var(n) = v {
                            out.insert(n.clone());
                        }
                    }
                }
            }
        }
    };
    for sel in sels {
        match sel {
            MSelection::Field(f) => {
                from_dirs(&f.directives, out);
                if let Some(s) = &f.sel {
                    all_condition_vars(s, frags, seen, out);
                }
            }
            MSelection::Spread { name, directives } => {
                from_dirs(directives, out);
                if seen.insert(name.clone()) {
                    if let Some(fr) = frags.get(name) {
                        all_condition_vars(&fr.sel, frags, seen, out);
                    }
                }
            }
            MSelection::Inline { directives, sel, .. } => {
                from_dirs(directives, out);
                all_condition_vars(sel, frags, seen, out);
            }
        }
    }
}
