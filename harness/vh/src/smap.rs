//! Source Map v3 reader with its own base64-VLQ decoder.

use serde_json::Value;

#[derive(Clone, Debug, PartialEq, Eq)]
pub struct Segment {
    pub gen_line: usize,
    pub gen_col: i64,
    pub source: Option<i64>,
    pub orig_line: Option<i64>,
    pub orig_col: Option<i64>,
    pub name: Option<i64>,
}

#[derive(Clone, Debug)]
pub struct SourceMap {
    pub file: String,
    pub sources: Vec<String>,
    pub names: Vec<String>,
    pub segments: Vec<Segment>,
}

const B64: &str = "ABCDEFGHIJKLMNOPQRSTUVWXYZabcdefghijklmnopqrstuvwxyz0123456789+/";

/// decode one VLQ number starting at chars[*i]
pub fn vlq_decode(chars: &[char], i: &mut usize) -> Result<i64, String> {
    let mut result: i128 = 0;
    let mut shift = 0u32;
    loop {
        let c = *chars.get(*i).ok_or("truncated VLQ")?;
        let d = B64.find(c).ok_or(format!("invalid base64 digit {c:?}"))? as i128;
        *i += 1;
        let cont = d & 32 != 0;
        result |= (d & 31) << shift;
        shift += 5;
        if shift > 100 {
            return Err("VLQ too long".into());
        }
        if !cont {
            break;
        }
    }
    let neg = result & 1 == 1;
    let v = result >> 1;
    let v = if neg { -v } else { v };
    i64::try_from(v).map_err(|_| "VLQ out of range".to_string())
}

pub fn decode_mappings(mappings: &str) -> Result<Vec<Segment>, String> {
    let mut out = vec![];
    let (mut src, mut ol, mut oc, mut nm) = (0i64, 0i64, 0i64, 0i64);
    for (gen_line, line) in mappings.split(';').enumerate() {
        let mut gc = 0i64;
        if line.is_empty() {
            continue;
        }
        for (k, seg) in line.split(',').enumerate() {
            if seg.is_empty() {
                // nitrogql writes a leading ',' before the first segment of generated line 0;
                // mainstream decoders skip empty segments, so a *leading* one is tolerated here
                if gen_line == 0 && k == 0 {
                    continue;
                }
                return Err(format!("empty segment on generated line {gen_line}"));
            }
            let chars: Vec<char> = seg.chars().collect();
            let mut i = 0;
            let mut fields = vec![];
            while i < chars.len() {
                fields.push(vlq_decode(&chars, &mut i)?);
            }
            match fields.len() {
                1 => {
                    gc += fields[0];
                    out.push(Segment { gen_line, gen_col: gc, source: None, orig_line: None, orig_col: None, name: None });
                }
                4 | 5 => {
                    gc += fields[0];
                    src += fields[1];
                    ol += fields[2];
                    oc += fields[3];
                    let name = if fields.len() == 5 {
                        nm += fields[4];
                        Some(nm)
                    } else {
                        None
                    };
                    out.push(Segment { gen_line, gen_col: gc, source: Some(src), orig_line: Some(ol), orig_col: Some(oc), name });
                }
                n => return Err(format!("segment with {n} fields on generated line {gen_line}")),
            }
        }
    }
    Ok(out)
}

pub fn parse(text: &str) -> Result<SourceMap, String> {
    let v: Value = serde_json::from_str(text).map_err(|e| format!("map is not JSON: {e}"))?;
    if v["version"] != Value::from(3) {
        return Err(format!("version is {:?}, expected 3", v["version"]));
    }
    let strs = |k: &str| -> Result<Vec<String>, String> {
        v[k].as_array()
            .ok_or(format!("{k} is not an array"))?
            .iter()
            .map(|x| x.as_str().map(String::from).ok_or(format!("{k} has a non-string entry")))
            .collect()
    };
    let mappings = v["mappings"].as_str().ok_or("mappings is not a string")?;
    Ok(SourceMap {
        file: v["file"].as_str().unwrap_or("").to_string(),
        sources: strs("sources")?,
        names: strs("names")?,
        segments: decode_mappings(mappings)?,
    })
}
