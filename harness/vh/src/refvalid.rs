//! Reference validator for executable documents: the validation rules enumerated in C03's
//! statement, written from the October-2021 specification. Returns rule labels.

use crate::gen_ops::frag_map;
use crate::model::*;
use crate::schema::Schema;
use std::collections::{BTreeMap, BTreeSet};

pub type Labels = BTreeSet<&'static str>;

pub struct V<'a> {
    pub s: &'a Schema,
    pub frags: BTreeMap<String, MFragment>,
    pub out: Labels,
}

fn dir_location_of_op(op: OpType) -> &'static str {
    match op {
        OpType::Query => "QUERY",
        OpType::Mutation => "MUTATION",
        OpType::Subscription => "SUBSCRIPTION",
    }
}

/// doTypesOverlap of the reference implementation: equal types always overlap, otherwise
/// the possible-type sets must intersect.
pub fn types_overlap(s: &Schema, a: &str, b: &str) -> bool {
    if a == b {
        return true;
    }
    let pa = s.possible(a);
    let pb = s.possible(b);
    pa.iter().any(|x| pb.contains(x))
}

/// AreTypesCompatible(variableType, locationType)
pub fn types_compatible(var: &MType, loc: &MType) -> bool {
    match (loc, var) {
        (MType::NonNull(l), MType::NonNull(v)) => types_compatible(v, l),
        (MType::NonNull(_), _) => false,
        (_, MType::NonNull(v)) => types_compatible(v, loc),
        (MType::List(l), MType::List(v)) => types_compatible(v, l),
        (MType::List(_), _) => false,
        (_, MType::List(_)) => false,
        (MType::Named(l), MType::Named(v)) => l == v,
    }
}

/// IsVariableUsageAllowed
pub fn variable_usage_allowed(var: &MVarDef, loc: &MType, loc_has_default: bool) -> bool {
    if let (MType::NonNull(loc_inner), false) = (loc, var.ty.is_non_null()) {
        let has_non_null_default = matches!(&var.default, Some(d) if *d != MValue::Null);
        if !has_non_null_default && !loc_has_default {
            return false;
        }
        return types_compatible(&var.ty, loc_inner);
    }
    types_compatible(&var.ty, loc)
}

impl<'a> V<'a> {
    fn flag(&mut self, l: &'static str) {
        self.out.insert(l);
    }

    /// literal (or variable) against an expected input type
    fn check_value(&mut self, v: &MValue, ty: &MType, loc_has_default: bool, vars: Option<&[MVarDef]>) {
        if let MValue::Var(name) = v {
            match vars {
                None => self.flag("undefined-variable"), // const context
                Some(defs) => match defs.iter().find(|d| &d.name == name) {
                    None => self.flag("undefined-variable"),
                    Some(d) => {
                        if !variable_usage_allowed(d, ty, loc_has_default) {
                            self.flag("variable-type-incompatible");
                        }
                    }
                },
            }
            return;
        }
        match ty {
            MType::NonNull(t) => {
                if *v == MValue::Null {
                    self.flag("value-type-mismatch");
                } else {
                    self.check_value(v, t, false, vars);
                }
            }
            _ if *v == MValue::Null => {}
            MType::List(t) => match v {
                MValue::List(items) => {
                    for it in items {
                        self.check_value(it, t, false, vars);
                    }
                }
                single => self.check_value(single, t, false, vars),
            },
            MType::Named(n) => {
                let Some(def) = self.s.types.get(n) else {
                    return; // schema problem, not a document rule
                };
                match def.kind {
                    Kind::Scalar => {
                        let ok = match n.as_str() {
                            "Int" => matches!(v, MValue::Int(_)),
                            "Float" => matches!(v, MValue::Int(_) | MValue::Float(_)),
                            "String" => matches!(v, MValue::Str(_)),
                            "Boolean" => matches!(v, MValue::Bool(_)),
                            "ID" => matches!(v, MValue::Str(_) | MValue::Int(_)),
                            _ => true,
                        };
                        if !ok {
                            self.flag("value-type-mismatch");
                        }
                        // variables nested in custom scalar literals must be defined
                        if !matches!(n.as_str(), "Int" | "Float" | "String" | "Boolean" | "ID") {
                            let mut used = BTreeSet::new();
                            crate::gen_ops::vars_in_value(v, &mut used);
                            for u in used {
                                let defined = vars.map(|d| d.iter().any(|x| x.name == u)).unwrap_or(false);
                                if !defined {
                                    self.flag("undefined-variable");
                                }
                            }
                        }
                    }
                    Kind::Enum => match v {
                        MValue::Enum(e) => {
                            if !def.values.iter().any(|x| &x.name == e) {
                                self.flag("value-type-mismatch");
                                self.flag("unknown-enum-member");
                            }
                        }
                        _ => self.flag("value-type-mismatch"),
                    },
                    Kind::Input => match v {
                        MValue::Object(fs) => {
                            let def = def.clone();
                            let mut seen = BTreeSet::new();
                            for (k, fv) in fs {
                                if !seen.insert(k.clone()) {
                                    // input object field uniqueness: not in C03's list
                                    continue;
                                }
                                match def.input_fields.iter().find(|f| &f.name == k) {
                                    None => {
                                        self.flag("value-type-mismatch");
                                        self.flag("input-object-unknown-field");
                                    }
                                    Some(fd) => self.check_value(fv, &fd.ty, fd.default.is_some(), vars),
                                }
                            }
                            for fd in &def.input_fields {
                                if fd.ty.is_non_null() && fd.default.is_none() && !fs.iter().any(|(k, _)| k == &fd.name) {
                                    self.flag("value-type-mismatch");
                                    self.flag("input-object-missing-field");
                                }
                            }
                        }
                        _ => self.flag("value-type-mismatch"),
                    },
                    _ => self.flag("value-type-mismatch"),
                }
            }
        }
    }

    fn check_args(&mut self, args: &MArgs, defs: &[MInputValue], vars: Option<&[MVarDef]>) {
        let mut seen = BTreeSet::new();
        for (k, v) in args {
            if !seen.insert(k.clone()) {
                continue; // argument uniqueness is not in C03's list
            }
            match defs.iter().find(|d| &d.name == k) {
                None => self.flag("unknown-argument"),
                Some(d) => self.check_value(v, &d.ty, d.default.is_some(), vars),
            }
        }
        for d in defs {
            if d.ty.is_non_null() && d.default.is_none() {
                match args.iter().find(|(k, _)| k == &d.name) {
                    None => self.flag("missing-required-argument"),
                    Some((_, MValue::Null)) => {} // flagged as value mismatch above
                    _ => {}
                }
            }
        }
    }

    fn check_directives(&mut self, ds: &[MDirective], loc: &str, vars: Option<&[MVarDef]>) {
        let mut seen: Vec<&str> = vec![];
        for d in ds {
            match self.s.directives.get(&d.name).cloned() {
                None => self.flag("unknown-directive"),
                Some(def) => {
                    if !def.locations.iter().any(|l| l == loc) {
                        self.flag("directive-misplaced");
                    }
                    if seen.contains(&d.name.as_str()) && !def.repeatable {
                        self.flag("directive-repeated");
                    }
                    seen.push(&d.name);
                    self.check_args(&d.args, &def.args, vars);
                }
            }
        }
    }

    fn check_selections(&mut self, sels: &[MSelection], parent: &str, vars: Option<&[MVarDef]>, stack: &mut Vec<String>, follow: bool) {
        let pk = self.s.kind(parent);
        for sel in sels {
            match sel {
                MSelection::Field(f) => {
                    self.check_directives(&f.directives, "FIELD", vars);
                    if f.name == "__typename" {
                        if !matches!(pk, Some(Kind::Object | Kind::Interface | Kind::Union)) {
                            self.flag("field-not-found");
                        }
                        if !f.args.is_empty() {
                            self.flag("unknown-argument");
                        }
                        if f.sel.is_some() {
                            self.flag("leaf-with-selection");
                        }
                        continue;
                    }
                    let fd = match pk {
                        Some(Kind::Object | Kind::Interface) => self.s.field(parent, &f.name).cloned(),
                        _ => None,
                    };
                    let Some(fd) = fd else {
                        self.flag("field-not-found");
                        continue;
                    };
                    self.check_args(&f.args, &fd.args, vars);
                    let base = fd.ty.base().to_string();
                    match (&f.sel, self.s.is_composite(&base)) {
                        (Some(s), true) => self.check_selections(s, &base, vars, stack, follow),
                        (None, true) => self.flag("composite-without-selection"),
                        (Some(_), false) => self.flag("leaf-with-selection"),
                        (None, false) => {}
                    }
                }
                MSelection::Spread { name, directives } => {
                    self.check_directives(directives, "FRAGMENT_SPREAD", vars);
                    let Some(fr) = self.frags.get(name).cloned() else {
                        self.flag("unknown-fragment");
                        continue;
                    };
                    if stack.contains(name) {
                        self.flag("fragment-cycle");
                        continue;
                    }
                    if self.s.is_composite(&fr.on) && self.s.is_composite(parent) {
                        if !types_overlap(self.s, parent, &fr.on) {
                            self.flag("impossible-spread");
                        }
                    }
                    if follow && self.s.is_composite(&fr.on) {
                        // variable usage inside the fragment is judged per operation
                        stack.push(name.clone());
                        self.check_selections(&fr.sel, &fr.on, vars, stack, follow);
                        stack.pop();
                    }
                }
                MSelection::Inline { on, directives, sel } => {
                    self.check_directives(directives, "INLINE_FRAGMENT", vars);
                    match on {
                        None => self.check_selections(sel, parent, vars, stack, follow),
                        Some(t) => {
                            if !self.s.is_composite(t) {
                                self.flag("fragment-on-invalid-type");
                                continue;
                            }
                            if self.s.is_composite(parent) {
                                if !types_overlap(self.s, parent, t) {
                                    self.flag("impossible-spread");
                                }
                            }
                            self.check_selections(sel, t, vars, stack, follow);
                        }
                    }
                }
            }
        }
    }

    /// response keys collected at the root of a subscription (through fragments)
    fn root_keys(&self, sels: &[MSelection], seen: &mut BTreeSet<String>, out: &mut BTreeSet<String>) {
        for s in sels {
            match s {
                MSelection::Field(f) => {
                    out.insert(f.key().to_string());
                }
                MSelection::Spread { name, .. } => {
                    if seen.insert(name.clone()) {
                        if let Some(fr) = self.frags.get(name) {
                            let sel = fr.sel.clone();
                            self.root_keys(&sel, seen, out);
                        }
                    }
                }
                MSelection::Inline { sel, .. } => self.root_keys(sel, seen, out),
            }
        }
    }
}

/// Validate a resolved document (all definitions of one file + imported fragments).
pub fn validate(s: &Schema, doc: &MOpDoc) -> Labels {
    let mut v = V { s, frags: frag_map(doc), out: Labels::new() };
    // operation names
    let ops: Vec<&MOperation> = doc.iter().filter_map(|d| if let MExecDef::Op(o) = d { Some(o) } else { None }).collect();
    let mut names = BTreeSet::new();
    for o in &ops {
        match &o.name {
            None => {
                if ops.len() != 1 {
                    v.flag("anonymous-not-alone");
                }
            }
            Some(n) => {
                if !names.insert(n.clone()) {
                    v.flag("dup-operation-name");
                }
            }
        }
    }
    // fragment names / targets
    let mut fnames = BTreeSet::new();
    for d in doc {
        if let MExecDef::Frag(f) = d {
            if !fnames.insert(f.name.clone()) {
                v.flag("dup-fragment-name");
            }
            if !s.is_composite(&f.on) {
                v.flag("fragment-on-invalid-type");
            }
        }
    }
    for o in &ops {
        let Some(root) = s.root(o.op) else {
            v.flag("no-root-type");
            continue;
        };
        // variables
        let mut vn = BTreeSet::new();
        for vd in &o.vars {
            if !vn.insert(vd.name.clone()) {
                v.flag("dup-variable");
            }
            if !s.is_input_type(vd.ty.base()) {
                v.flag("variable-not-input-type");
            } else if let Some(d) = &vd.default {
                // default value typing is not in C03's list; still never generated wrong
                let _ = d;
            }
            v.check_directives(&vd.directives, "VARIABLE_DEFINITION", None);
        }
        v.check_directives(&o.directives, dir_location_of_op(o.op), Some(&o.vars));
        if o.op == OpType::Subscription {
            let mut keys = BTreeSet::new();
            v.root_keys(&o.sel, &mut BTreeSet::new(), &mut keys);
            if keys.len() != 1 {
                v.flag("subscription-single-root");
            }
        }
        let mut stack = vec![];
        v.check_selections(&o.sel, &root, Some(&o.vars), &mut stack, true);
    }
    // every fragment definition on its own (fields, arguments, directives, spreads, cycles):
    // the spec validates fragment bodies whether or not an operation uses them. Variable
    // usage cannot be judged without an operation => vars = a permissive table.
    for d in doc {
        if let MExecDef::Frag(f) = d {
            v.check_directives_permissive(&f.directives, "FRAGMENT_DEFINITION");
            if s.is_composite(&f.on) {
                let mut stack = vec![f.name.clone()];
                v.check_fragment_body(&f.sel.clone(), &f.on.clone(), &mut stack);
            }
        }
    }
    v.out
}

impl<'a> V<'a> {
    fn check_directives_permissive(&mut self, ds: &[MDirective], loc: &str) {
        // like check_directives but variables are not judged
        let mut seen: Vec<String> = vec![];
        for d in ds {
            match self.s.directives.get(&d.name).cloned() {
                None => self.flag("unknown-directive"),
                Some(def) => {
                    if !def.locations.iter().any(|l| l == loc) {
                        self.flag("directive-misplaced");
                    }
                    if seen.contains(&d.name) && !def.repeatable {
                        self.flag("directive-repeated");
                    }
                    seen.push(d.name.clone());
                    self.check_args_permissive(&d.args, &def.args);
                }
            }
        }
    }
    fn check_args_permissive(&mut self, args: &MArgs, defs: &[MInputValue]) {
        let before: Labels = self.out.clone();
        // judge with a universal variable table: replace variables by skipping them
        let stripped: MArgs = args.iter().filter(|(_, v)| !contains_var(v)).cloned().collect();
        let mut seen = BTreeSet::new();
        for (k, v) in &stripped {
            if !seen.insert(k.clone()) {
                continue;
            }
            match defs.iter().find(|d| &d.name == k) {
                None => self.flag("unknown-argument"),
                Some(d) => self.check_value(v, &d.ty, d.default.is_some(), None),
            }
        }
        for (k, _) in args.iter().filter(|(_, v)| contains_var(v)) {
            if !defs.iter().any(|d| &d.name == k) {
                self.flag("unknown-argument");
            }
        }
        for d in defs {
            if d.ty.is_non_null() && d.default.is_none() && !args.iter().any(|(k, _)| k == &d.name) {
                self.flag("missing-required-argument");
            }
        }
        let _ = before;
    }
    fn check_fragment_body(&mut self, sels: &[MSelection], parent: &str, stack: &mut Vec<String>) {
        let pk = self.s.kind(parent);
        for sel in sels {
            match sel {
                MSelection::Field(f) => {
                    self.check_directives_permissive(&f.directives, "FIELD");
                    if f.name == "__typename" {
                        if f.sel.is_some() {
                            self.flag("leaf-with-selection");
                        }
                        if !f.args.is_empty() {
                            self.flag("unknown-argument");
                        }
                        continue;
                    }
                    let fd = match pk {
                        Some(Kind::Object | Kind::Interface) => self.s.field(parent, &f.name).cloned(),
                        _ => None,
                    };
                    let Some(fd) = fd else {
                        self.flag("field-not-found");
                        continue;
                    };
                    self.check_args_permissive(&f.args, &fd.args);
                    let base = fd.ty.base().to_string();
                    match (&f.sel, self.s.is_composite(&base)) {
                        (Some(s), true) => self.check_fragment_body(s, &base, stack),
                        (None, true) => self.flag("composite-without-selection"),
                        (Some(_), false) => self.flag("leaf-with-selection"),
                        (None, false) => {}
                    }
                }
                MSelection::Spread { name, directives } => {
                    self.check_directives_permissive(directives, "FRAGMENT_SPREAD");
                    let Some(fr) = self.frags.get(name).cloned() else {
                        self.flag("unknown-fragment");
                        continue;
                    };
                    if stack.contains(name) {
                        self.flag("fragment-cycle");
                        continue;
                    }
                    if self.s.is_composite(&fr.on) && self.s.is_composite(parent) {
                        if !types_overlap(self.s, parent, &fr.on) {
                            self.flag("impossible-spread");
                        }
                    }
                    if self.s.is_composite(&fr.on) {
                        stack.push(name.clone());
                        let sel = fr.sel.clone();
                        // only cycle detection continues through other fragments' bodies
                        self.cycle_only(&sel, stack);
                        stack.pop();
                    }
                }
                MSelection::Inline { on, directives, sel } => {
                    self.check_directives_permissive(directives, "INLINE_FRAGMENT");
                    match on {
                        None => self.check_fragment_body(sel, parent, stack),
                        Some(t) => {
                            if !self.s.is_composite(t) {
                                self.flag("fragment-on-invalid-type");
                                continue;
                            }
                            if self.s.is_composite(parent) {
                                if !types_overlap(self.s, parent, t) {
                                    self.flag("impossible-spread");
                                }
                            }
                            self.check_fragment_body(sel, t, stack);
                        }
                    }
                }
            }
        }
    }
    fn cycle_only(&mut self, sels: &[MSelection], stack: &mut Vec<String>) {
        for sel in sels {
            match sel {
                MSelection::Field(f) => {
                    if let Some(s) = &f.sel {
                        self.cycle_only(s, stack);
                    }
                }
                MSelection::Spread { name, .. } => {
                    if stack.contains(name) {
                        self.flag("fragment-cycle");
                        continue;
                    }
                    if let Some(fr) = self.frags.get(name).cloned() {
                        stack.push(name.clone());
                        self.cycle_only(&fr.sel, stack);
                        stack.pop();
                    }
                }
                MSelection::Inline { sel, .. } => self.cycle_only(sel, stack),
            }
        }
    }
}

fn contains_var(v: &MValue) -> bool {
    let mut s = BTreeSet::new();
    crate::gen_ops::vars_in_value(v, &mut s);
    !s.is_empty()
}
