//! introspect(M): the JSON a spec-conformant server returns for the standard introspection
//! query over schema model M.

use crate::choices::Choices;
use crate::model::*;
use crate::render::{r_value, Out, RenderOpts};
use crate::schema::{builtin_directives, Schema, BUILTIN_SCALARS};
use serde_json::{json, Map, Value};

pub struct IntrospectOpts {
    /// include the __Schema/__Type/... meta types
    pub meta_types: bool,
    /// emit optional members as absent instead of null (description, deprecationReason, specifiedByURL, isRepeatable)
    pub absent_optionals: bool,
    pub shuffle: bool,
}

fn type_ref(t: &MType, s: &Schema) -> Value {
    match t {
        MType::NonNull(inner) => json!({"kind": "NON_NULL", "name": null, "ofType": type_ref(inner, s)}),
        MType::List(inner) => json!({"kind": "LIST", "name": null, "ofType": type_ref(inner, s)}),
        MType::Named(n) => json!({"kind": kind_str(s.kind(n).unwrap_or(Kind::Scalar)), "name": n, "ofType": null}),
    }
}

fn kind_str(k: Kind) -> &'static str {
    match k {
        Kind::Scalar => "SCALAR",
        Kind::Object => "OBJECT",
        Kind::Interface => "INTERFACE",
        Kind::Union => "UNION",
        Kind::Enum => "ENUM",
        Kind::Input => "INPUT_OBJECT",
    }
}

fn literal(v: &MValue) -> String {
    let mut o = Out::new(RenderOpts::canonical(), None);
    r_value(&mut o, v);
    o.finish().text.trim().to_string()
}

fn deprecation(ds: &[MDirective]) -> (bool, Option<String>) {
    match ds.iter().find(|d| d.name == "deprecated") {
        None => (false, None),
        Some(d) => {
            let reason = d.args.iter().find(|(k, _)| k == "reason").and_then(|(_, v)| if let MValue::Str(s) = v { Some(s.clone()) } else { None });
            (true, Some(reason.unwrap_or_else(|| "No longer supported".to_string())))
        }
    }
}

fn opt(m: &mut Map<String, Value>, key: &str, v: Option<String>, absent: bool) {
    match v {
        Some(s) => {
            m.insert(key.into(), json!(s));
        }
        None => {
            if !absent {
                m.insert(key.into(), Value::Null);
            }
        }
    }
}

fn input_value(iv: &MInputValue, s: &Schema, o: &IntrospectOpts) -> Value {
    let mut m = Map::new();
    m.insert("name".into(), json!(iv.name));
    opt(&mut m, "description", iv.desc.clone(), o.absent_optionals);
    m.insert("type".into(), type_ref(&iv.ty, s));
    m.insert("defaultValue".into(), iv.default.as_ref().map(|d| json!(literal(d))).unwrap_or(Value::Null));
    let (dep, reason) = deprecation(&iv.directives);
    m.insert("isDeprecated".into(), json!(dep));
    opt(&mut m, "deprecationReason", reason, o.absent_optionals);
    Value::Object(m)
}

fn field(f: &MField, s: &Schema, o: &IntrospectOpts) -> Value {
    let mut m = Map::new();
    m.insert("name".into(), json!(f.name));
    opt(&mut m, "description", f.desc.clone(), o.absent_optionals);
    m.insert("args".into(), Value::Array(f.args.iter().map(|a| input_value(a, s, o)).collect()));
    m.insert("type".into(), type_ref(&f.ty, s));
    let (dep, reason) = deprecation(&f.directives);
    m.insert("isDeprecated".into(), json!(dep));
    opt(&mut m, "deprecationReason", reason, o.absent_optionals);
    Value::Object(m)
}

fn named_ref(n: &str, s: &Schema) -> Value {
    json!({"kind": kind_str(s.kind(n).unwrap_or(Kind::Object)), "name": n, "ofType": null})
}

fn type_def(t: &MTypeDef, s: &Schema, o: &IntrospectOpts, ch: &mut Option<&mut Choices>) -> Value {
    let mut m = Map::new();
    m.insert("kind".into(), json!(kind_str(t.kind)));
    m.insert("name".into(), json!(t.name));
    opt(&mut m, "description", t.desc.clone(), o.absent_optionals);
    let mut shuffle = |v: &mut Vec<Value>| {
        if o.shuffle {
            if let Some(c) = ch {
                c.shuffle(v);
            }
        }
    };
    match t.kind {
        Kind::Scalar => {
            let url = t.directives.iter().find(|d| d.name == "specifiedBy").and_then(|d| d.args.iter().find(|(k, _)| k == "url")).and_then(|(_, v)| if let MValue::Str(s) = v { Some(s.clone()) } else { None });
            opt(&mut m, "specifiedByURL", url, o.absent_optionals);
            for k in ["fields", "inputFields", "interfaces", "enumValues", "possibleTypes"] {
                m.insert(k.into(), Value::Null);
            }
        }
        Kind::Object | Kind::Interface => {
            m.insert("fields".into(), Value::Array(t.fields.iter().map(|f| field(f, s, o)).collect()));
            m.insert("inputFields".into(), Value::Null);
            let mut ifs: Vec<Value> = t.implements.iter().map(|i| named_ref(i, s)).collect();
            shuffle(&mut ifs);
            m.insert("interfaces".into(), Value::Array(ifs));
            m.insert("enumValues".into(), Value::Null);
            if t.kind == Kind::Interface {
                let mut ps: Vec<Value> = s.possible(&t.name).iter().map(|p| named_ref(p, s)).collect();
                shuffle(&mut ps);
                m.insert("possibleTypes".into(), Value::Array(ps));
            } else {
                m.insert("possibleTypes".into(), Value::Null);
            }
        }
        Kind::Union => {
            m.insert("fields".into(), Value::Null);
            m.insert("inputFields".into(), Value::Null);
            m.insert("interfaces".into(), Value::Null);
            m.insert("enumValues".into(), Value::Null);
            // member order is kept: the emitted union lists members in this order, and order
            // of union constituents is not semantic; shuffle as well
            let mut ps: Vec<Value> = t.members.iter().map(|p| named_ref(p, s)).collect();
            shuffle(&mut ps);
            m.insert("possibleTypes".into(), Value::Array(ps));
        }
        Kind::Enum => {
            m.insert("fields".into(), Value::Null);
            m.insert("inputFields".into(), Value::Null);
            m.insert("interfaces".into(), Value::Null);
            m.insert(
                "enumValues".into(),
                Value::Array(
                    t.values
                        .iter()
                        .map(|v| {
                            let mut e = Map::new();
                            e.insert("name".into(), json!(v.name));
                            opt(&mut e, "description", v.desc.clone(), o.absent_optionals);
                            let (dep, reason) = deprecation(&v.directives);
                            e.insert("isDeprecated".into(), json!(dep));
                            opt(&mut e, "deprecationReason", reason, o.absent_optionals);
                            Value::Object(e)
                        })
                        .collect(),
                ),
            );
            m.insert("possibleTypes".into(), Value::Null);
        }
        Kind::Input => {
            m.insert("fields".into(), Value::Null);
            m.insert("inputFields".into(), Value::Array(t.input_fields.iter().map(|f| input_value(f, s, o)).collect()));
            m.insert("interfaces".into(), Value::Null);
            m.insert("enumValues".into(), Value::Null);
            m.insert("possibleTypes".into(), Value::Null);
        }
    }
    Value::Object(m)
}

fn directive(d: &MDirectiveDef, s: &Schema, o: &IntrospectOpts) -> Value {
    let mut m = Map::new();
    m.insert("name".into(), json!(d.name));
    opt(&mut m, "description", d.desc.clone(), o.absent_optionals);
    m.insert("locations".into(), json!(d.locations));
    m.insert("args".into(), Value::Array(d.args.iter().map(|a| input_value(a, s, o)).collect()));
    if !(o.absent_optionals && !d.repeatable) {
        m.insert("isRepeatable".into(), json!(d.repeatable));
    }
    Value::Object(m)
}

fn meta_types() -> Vec<Value> {
    // abbreviated but well-formed __* types (a real server lists all of them)
    let scalar_ref = |n: &str| json!({"kind": "NON_NULL", "name": null, "ofType": {"kind": "SCALAR", "name": n, "ofType": null}});
    let f = |n: &str, t: Value| json!({"name": n, "description": null, "args": [], "type": t, "isDeprecated": false, "deprecationReason": null});
    vec![
        json!({"kind": "OBJECT", "name": "__Schema", "description": "A GraphQL Schema", "fields": [f("types", json!({"kind":"NON_NULL","name":null,"ofType":{"kind":"LIST","name":null,"ofType":{"kind":"NON_NULL","name":null,"ofType":{"kind":"OBJECT","name":"__Type","ofType":null}}}}))], "inputFields": null, "interfaces": [], "enumValues": null, "possibleTypes": null}),
        json!({"kind": "OBJECT", "name": "__Type", "description": null, "fields": [f("kind", json!({"kind":"NON_NULL","name":null,"ofType":{"kind":"ENUM","name":"__TypeKind","ofType":null}})), f("name", json!({"kind":"SCALAR","name":"String","ofType":null}))], "inputFields": null, "interfaces": [], "enumValues": null, "possibleTypes": null}),
        {
            let values: Vec<Value> = ["SCALAR", "OBJECT", "INTERFACE", "UNION", "ENUM", "INPUT_OBJECT", "LIST", "NON_NULL"]
                .iter()
                .map(|n| json!({"name": n, "description": null, "isDeprecated": false, "deprecationReason": null}))
                .collect();
            json!({"kind": "ENUM", "name": "__TypeKind", "description": null, "fields": null, "inputFields": null, "interfaces": null, "enumValues": values, "possibleTypes": null})
        },
        json!({"kind": "OBJECT", "name": "__Field", "description": null, "fields": [f("name", scalar_ref("String"))], "inputFields": null, "interfaces": [], "enumValues": null, "possibleTypes": null}),
    ]
}

pub fn introspect(s: &Schema, o: &IntrospectOpts, mut ch: Option<&mut Choices>) -> String {
    let mut types: Vec<Value> = vec![];
    for n in &s.order {
        types.push(type_def(&s.types[n], s, o, &mut ch));
    }
    for b in BUILTIN_SCALARS {
        types.push(type_def(&MTypeDef::new(Kind::Scalar, b), s, o, &mut ch));
    }
    if o.meta_types {
        types.extend(meta_types());
    }
    if o.shuffle {
        if let Some(c) = &mut ch {
            c.shuffle(&mut types);
        }
    }
    let mut directives: Vec<Value> = builtin_directives().iter().map(|d| directive(d, s, o)).collect();
    for n in &s.directive_order {
        directives.push(directive(&s.directives[n], s, o));
    }
    let name_obj = |op: OpType| s.root(op).map(|n| json!({"name": n})).unwrap_or(Value::Null);
    let mut schema = Map::new();
    opt(&mut schema, "description", s.schema_def.as_ref().and_then(|d| d.desc.clone()), o.absent_optionals);
    schema.insert("queryType".into(), name_obj(OpType::Query));
    schema.insert("mutationType".into(), name_obj(OpType::Mutation));
    schema.insert("subscriptionType".into(), name_obj(OpType::Subscription));
    schema.insert("types".into(), Value::Array(types));
    schema.insert("directives".into(), Value::Array(directives));
    serde_json::to_string_pretty(&json!({"__schema": Value::Object(schema)})).unwrap()
}
