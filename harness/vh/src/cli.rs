//! CLI subprocess driver: writes a project directory, runs the built nitrogql-cli binary,
//! captures status/stdout/stderr and a before/after listing of the directory.

use serde_json::Value;
use std::collections::BTreeMap;
use std::path::{Path, PathBuf};
use std::process::{Command, Stdio};
use std::sync::atomic::{AtomicUsize, Ordering};

pub const CLI_BIN: &str = "/verif/target/repo/release/nitrogql-cli";

static COUNTER: AtomicUsize = AtomicUsize::new(0);

pub struct Project {
    pub dir: PathBuf,
}

impl Project {
    /// fresh directory under `base`
    pub fn new(base: &Path) -> Project {
        let n = COUNTER.fetch_add(1, Ordering::Relaxed);
        let dir = base.join(format!("p{n}"));
        let _ = std::fs::remove_dir_all(&dir);
        std::fs::create_dir_all(&dir).unwrap();
        Project { dir }
    }
    pub fn write(&self, rel: &str, content: &str) {
        let p = self.dir.join(rel);
        if let Some(parent) = p.parent() {
            std::fs::create_dir_all(parent).unwrap();
        }
        std::fs::write(p, content).unwrap();
    }
    pub fn read(&self, rel: &str) -> Option<String> {
        std::fs::read_to_string(self.dir.join(rel)).ok()
    }
    pub fn path(&self, rel: &str) -> PathBuf {
        self.dir.join(rel)
    }
    /// relative path -> content hash (and length)
    pub fn snapshot(&self) -> BTreeMap<String, (u64, usize)> {
        fn walk(base: &Path, dir: &Path, out: &mut BTreeMap<String, (u64, usize)>) {
            let Ok(rd) = std::fs::read_dir(dir) else { return };
            for e in rd.flatten() {
                let p = e.path();
                if p.is_dir() {
                    walk(base, &p, out);
                } else if let Ok(bytes) = std::fs::read(&p) {
                    let rel = p.strip_prefix(base).unwrap().to_string_lossy().to_string();
                    out.insert(rel, (crate::runner::hash_of(&bytes), bytes.len()));
                }
            }
        }
        let mut out = BTreeMap::new();
        walk(&self.dir, &self.dir, &mut out);
        out
    }
    pub fn remove(self) {
        let _ = std::fs::remove_dir_all(&self.dir);
    }
}

#[derive(Clone, Debug)]
pub struct CliRun {
    pub status: Option<i32>,
    pub signal: bool,
    pub stdout: String,
    pub stderr: String,
}

impl CliRun {
    /// a panic inside the CLI is swallowed by its executor: stderr carries `panicked at`
    pub fn crashed(&self) -> bool {
        self.signal || self.stderr.contains("panicked at") || self.status == Some(101) || self.status == Some(134)
    }
    pub fn json(&self) -> Result<Value, String> {
        let t = self.stdout.trim();
        serde_json::from_str(t).map_err(|e| format!("stdout is not one JSON document: {e}: {:?}", &t[..t.len().min(200)]))
    }
}

pub fn run_cli(dir: &Path, args: &[&str]) -> CliRun {
    run_cli_styled(dir, args, 0)
}

pub const CLI_STYLES: usize = 6;

/// The same command started in another way: the project is the one whose `graphql.config.yaml` lies in `dir`.
/// 0: from `dir`, configuration file discovered; 1: from `dir` with `--config-file ./graphql.config.yaml`;
/// 2: from the parent directory with `--config-file <dir>/graphql.config.yaml`; 3: from `dir` with a path that
/// leaves and re-enters it (`../<dir>/graphql.config.yaml`); 4: from the parent directory with a detour
/// (`./<dir>/../<dir>/graphql.config.yaml`); 5: from `dir`, repeating the configuration's `schema` and `documents`
/// values as `--schema` / `--operation` arguments (they override the configuration with the same values).
/// Nothing is created or changed on disk.
pub fn run_cli_styled(dir: &Path, args: &[&str], style: usize) -> CliRun {
    let name = dir.file_name().map(|n| n.to_string_lossy().into_owned()).unwrap_or_default();
    let parent = dir.parent().unwrap_or(dir).to_path_buf();
    let (cwd, cfg): (PathBuf, Option<String>) = match style % CLI_STYLES {
        1 => (dir.to_path_buf(), Some("./graphql.config.yaml".into())),
        2 if !name.is_empty() => (parent, Some(format!("{name}/graphql.config.yaml"))),
        3 if !name.is_empty() => (dir.to_path_buf(), Some(format!("../{name}/graphql.config.yaml"))),
        4 if !name.is_empty() => (parent, Some(format!("./{name}/../{name}/graphql.config.yaml"))),
        _ => (dir.to_path_buf(), None),
    };
    let mut all: Vec<String> = vec![];
    if style % CLI_STYLES == 5 {
        // only the plain one-line forms the generated configurations use
        if let Ok(text) = std::fs::read_to_string(dir.join("graphql.config.yaml")) {
            let value_of = |key: &str| -> Option<String> {
                text.lines().find_map(|l| l.strip_prefix(key)).map(|v| v.trim().trim_matches('"').to_string()).filter(|v| !v.is_empty() && !v.starts_with('[') && !v.contains('\\'))
            };
            if let (Some(sc), Some(d)) = (value_of("schema:"), value_of("documents:")) {
                all.extend(["--schema".to_string(), sc, "--operation".to_string(), d]);
            }
        }
    }
    if let Some(c) = cfg {
        all.push("--config-file".into());
        all.push(c);
    }
    all.extend(args.iter().map(|a| a.to_string()));
    let out = Command::new(CLI_BIN)
        .args(&all)
        .current_dir(cwd)
        .env("NO_COLOR", "1")
        .env_remove("RUST_LOG")
        .stdin(Stdio::null())
        .output()
        .expect("cannot run nitrogql-cli (was ./check --setup run?)");
    CliRun {
        status: out.status.code(),
        signal: out.status.code().is_none(),
        stdout: String::from_utf8_lossy(&out.stdout).into_owned(),
        stderr: String::from_utf8_lossy(&out.stderr).into_owned(),
    }
}

/// strip ANSI colour escapes (the human format colours its output)
pub fn strip_ansi(s: &str) -> String {
    let mut out = String::new();
    let mut cs = s.chars().peekable();
    while let Some(c) = cs.next() {
        if c == '\u{1b}' {
            if cs.peek() == Some(&'[') {
                cs.next();
                for d in cs.by_ref() {
                    if d.is_ascii_alphabetic() {
                        break;
                    }
                }
            }
        } else {
            out.push(c);
        }
    }
    out
}
