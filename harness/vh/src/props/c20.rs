//! C20 — relative and resolved paths are mutually inverse and land on the intended file.

use crate::runner::*;
use nitrogql_utils::{normalize_path, relative_path, resolve_relative_path};
use serde_json::json;
use std::path::{Path, PathBuf};

/// reference normalisation on component lists; None when the path climbs above the root
pub fn ref_normalize(comps: &[&str]) -> Option<Vec<String>> {
    let mut stack: Vec<String> = vec![];
    for c in comps {
        match *c {
            "." | "" => {}
            ".." => {
                stack.pop()?;
            }
            n => stack.push(n.to_string()),
        }
    }
    Some(stack)
}

fn to_abs(comps: &[&str]) -> String {
    let mut s = String::new();
    for c in comps {
        s.push('/');
        s.push_str(c);
    }
    if s.is_empty() {
        s.push('/');
    }
    s
}

fn abs_of(stack: &[String]) -> PathBuf {
    let mut s = String::new();
    for c in stack {
        s.push('/');
        s.push_str(c);
    }
    if s.is_empty() {
        s.push('/');
    }
    PathBuf::from(s)
}

/// Interpret a relative path against a directory (reference semantics, no std helpers).
fn ref_apply(dir: &[String], rel: &str) -> Option<Vec<String>> {
    let mut stack = dir.to_vec();
    for c in rel.split('/') {
        match c {
            "" | "." => {}
            ".." => {
                stack.pop()?;
            }
            n => stack.push(n.to_string()),
        }
    }
    Some(stack)
}

pub struct PairInfo {
    pub nontrivial: bool,
    /// outside the statement's domain: one path is an ancestor directory of the other, so
    /// they cannot both be files of one file system
    pub out_of_domain: bool,
}

pub fn check_pair(a: &[&str], b: &[&str]) -> Result<PairInfo, Failure> {
    let a_s = to_abs(a);
    let b_s = to_abs(b);
    let detail = |extra: serde_json::Value| json!({"a": a_s, "b": b_s, "observed": extra});
    let na = ref_normalize(a).expect("domain: no climbing above root");
    let nb = ref_normalize(b).expect("domain: no climbing above root");
    let expect_b = abs_of(&nb);
    let proper_prefix = |p: &[String], q: &[String]| p.len() < q.len() && q[..p.len()] == *p;
    if proper_prefix(&na, &nb) || proper_prefix(&nb, &na) {
        return Ok(PairInfo { nontrivial: false, out_of_domain: true });
    }

    // normalize_path agrees with the reference, is idempotent, has no . / ..
    let got_nb = guard(|| normalize_path(Path::new(&b_s)))
        .map_err(|p| panic_failure("normalize_path", &p, detail(json!(null))))?;
    if got_nb != expect_b {
        return Err(Failure::new(
            "normalize-differs",
            format!("normalize_path({b_s}) = {got_nb:?}, expected {expect_b:?}"),
            detail(json!(got_nb)),
        ));
    }
    let again = normalize_path(&got_nb);
    if again != got_nb {
        return Err(Failure::new(
            "normalize-not-idempotent",
            format!("normalize(normalize({b_s})) = {again:?} != {got_nb:?}"),
            detail(json!(again)),
        ));
    }
    if got_nb
        .to_string_lossy()
        .split('/')
        .any(|c| c == "." || c == "..")
    {
        return Err(Failure::new(
            "normalize-leaves-dots",
            format!("normalize_path({b_s}) = {got_nb:?} still has . or .."),
            detail(json!(got_nb)),
        ));
    }

    let rel = guard(|| relative_path(Path::new(&a_s), Path::new(&b_s)))
        .map_err(|p| panic_failure("relative_path", &p, detail(json!(null))))?;
    let rel_s = rel.to_string_lossy().to_string();
    if !(rel_s.starts_with("./") || rel_s.starts_with("../")) {
        return Err(Failure::new(
            "relative-prefix",
            format!("relative_path({a_s}, {b_s}) = {rel_s:?} does not start with ./ or ../"),
            detail(json!(rel_s)),
        ));
    }
    // independent interpretation of the relative path from A's directory
    let mut dir = na.clone();
    dir.pop();
    let landed = ref_apply(&dir, &rel_s);
    if landed.as_ref() != Some(&nb) {
        return Err(Failure::new(
            "relative-lands-elsewhere",
            format!(
                "relative_path({a_s}, {b_s}) = {rel_s:?} leads from {:?} to {:?}, expected {:?}",
                abs_of(&dir),
                landed.map(|l| abs_of(&l)),
                expect_b
            ),
            detail(json!(rel_s)),
        ));
    }
    // mutual inverse through the repo's own resolver
    let back = guard(|| resolve_relative_path(Path::new(&a_s), &rel))
        .map_err(|p| panic_failure("resolve_relative_path", &p, detail(json!(rel_s))))?;
    if back != expect_b {
        return Err(Failure::new(
            "resolve-relative-not-inverse",
            format!("resolve({a_s}, relative({a_s},{b_s})={rel_s:?}) = {back:?}, expected {expect_b:?}"),
            detail(json!({"rel": rel_s, "back": back})),
        ));
    }
    // resolve_relative_path against the *textual* relative path b' = arbitrary dotted path:
    // resolving B's own spelling relative to A's directory, when A is already normal
    let common = na.iter().zip(nb.iter()).take_while(|(x, y)| x == y).count();
    let nontrivial = common < na.len().saturating_sub(1) && common < nb.len() && rel_s.contains("..");
    Ok(PairInfo { nontrivial, out_of_domain: false })
}

/// all component sequences of length 1..=max over the alphabet that stay below the root
fn sequences(alphabet: &[&'static str], max: usize, files_only: bool) -> Vec<Vec<&'static str>> {
    let mut out = vec![];
    let mut cur: Vec<Vec<&'static str>> = vec![vec![]];
    for _ in 0..max {
        let mut next = vec![];
        for p in &cur {
            for c in alphabet {
                let mut q = p.clone();
                q.push(*c);
                if ref_normalize(&q).is_some() {
                    next.push(q);
                }
            }
        }
        for q in &next {
            let last = *q.last().unwrap();
            if !files_only || (last != "." && last != "..") {
                out.push(q.clone());
            }
        }
        cur = next;
    }
    out
}

const DEEP_NAMES: &[&str] = &[
    "x", "y", ".", "..", "src", "generated", "a.b", "schema.graphql", "...", "caf\u{e9}", "__generated__",
    "d.ts", "x y", ".hidden", "..cache", ".generated", ".x.graphql",
    // names that differ from others of the pool only in letter case (distinct directories on Linux)
    "X", "Y", "Src", "GENERATED",
];

pub fn run(env: &Env) -> i32 {
    let mut rep = Report::new(
        env,
        "exploration",
        "pairs (A,B) of absolute file paths over {x,y,.,..} that never climb above the root, exhaustive to depth 5 in both tiers (all file-path pairs), normalisation alone exhaustive to depth 7, plus random pairs to depth 12 over a 21-name pool (dots, spaces, non-ASCII, names differing only in letter case); oracle: reference stack normalisation + reference interpretation of the relative path + repo resolve as inverse. Non-trivial: common prefix shorter than both directories and '..' in the relative path; distinct = (A,B).",
    );
    rep.assume("A and B denote files: their last component is a name, not '.' or '..' (callers pass file paths); paths that would climb above the root are outside the statement and are counted, not tested");
    rep.assume("A and B can coexist as files: neither normalised path is a proper ancestor directory of the other (such pairs are counted under the label out-of-domain:ancestor-pair and not asserted)");
    rep.assume("POSIX path syntax (the sandbox and CLI run on Linux)");

    let alphabet: [&'static str; 4] = ["x", "y", ".", ".."];
    let max_depth = 5;
    let files = sequences(&alphabet, max_depth, true);
    let all_seq_count: usize = (1..=max_depth).map(|d| 4usize.pow(d as u32)).sum();
    let staying = sequences(&alphabet, max_depth, false).len();
    rep.extra.insert(
        "domain".into(),
        json!({"sequences_total": all_seq_count, "not_climbing_above_root": staying, "file_paths": files.len(),
               "excluded_climbing": all_seq_count - staying}),
    );
    let n = files.len();
    let full = true;
    let pairs = (0..n).flat_map(move |i| (0..n).map(move |j| (i, j)));
    let files_ref = &files;
    rep.enumerate("exhaustive-depth5", full, pairs, |case, (i, j)| {
        let a = &files_ref[*i];
        let b = &files_ref[*j];
        let info = check_pair(a, b)?;
        if info.out_of_domain {
            case.label("out-of-domain:ancestor-pair");
            return Ok(());
        }
        if info.nontrivial {
            case.nontrivial(&(i, j));
        }
        case.sample(|| json!({"a": to_abs(a), "b": to_abs(b), "relative": relative_path(Path::new(&to_abs(a)), Path::new(&to_abs(b)))}));
        Ok(())
    });

    // normalisation alone: every non-climbing sequence to depth 7 (directories included)
    let all7 = sequences(&alphabet, 7, false);
    rep.enumerate("normalize-depth7", true, all7.into_iter(), |case, p| {
        let s = to_abs(p);
        let expect = abs_of(&ref_normalize(p).unwrap());
        let got = guard(|| normalize_path(Path::new(&s)))
            .map_err(|pn| panic_failure("normalize_path", &pn, json!({"path": s})))?;
        if got != expect {
            return Err(Failure::new(
                "normalize-differs",
                format!("normalize_path({s}) = {got:?}, expected {expect:?}"),
                json!({"path": s}),
            ));
        }
        if normalize_path(&got) != got {
            return Err(Failure::new("normalize-not-idempotent", format!("on {s}"), json!({"path": s})));
        }
        if p.iter().any(|c| *c == "..") && p.iter().any(|c| *c == ".") {
            case.nontrivial(&s);
        }
        case.sample(|| json!({"path": s, "normalized": got}));
        Ok(())
    });

    // random deeper paths
    rep.campaign("random-deep", env.cases(300_000, 4_000_000), (4, 40), |case| {
        let mut gen_path = |case: &mut Case| -> Vec<&'static str> {
            let len = case.ch.range(1, 12);
            let mut p: Vec<&'static str> = vec![];
            for _ in 0..len {
                let c = *case.ch.pick(DEEP_NAMES);
                p.push(c);
                if ref_normalize(&p).is_none() {
                    p.pop();
                    p.push("x");
                }
            }
            if matches!(p.last(), Some(&".") | Some(&"..")) {
                p.push("file.graphql");
            }
            p
        };
        let a = gen_path(case);
        let mut b = gen_path(case);
        // bias toward shared prefixes
        if case.ch.chance(1, 2) {
            let k = case.ch.below(a.len());
            let mut nb: Vec<&'static str> = a[..k].to_vec();
            nb.extend(b.iter());
            if ref_normalize(&nb).is_some() {
                b = nb;
            }
        }
        let info = check_pair(&a, &b)?;
        if info.out_of_domain {
            case.label("out-of-domain:ancestor-pair");
            return Ok(());
        }
        if info.nontrivial {
            case.nontrivial(&(a.clone(), b.clone()));
        }
        if a.len() > 5 || b.len() > 5 {
            case.label("deeper-than-5");
        }
        case.sample(|| json!({"a": to_abs(&a), "b": to_abs(&b)}));
        Ok(())
    });

    // project layouts through the built CLI: specifiers and source-map sources land on the intended files
    rep.note("campaign layouts (built CLI): generated valid projects (config root, schema / operation / output directories incl. trees that diverge and re-converge, output stems with extra dots, 1-4 operation files in nested directories with equal base names connected by variously spelled #import paths); `generate` must succeed, every relative module specifier in the operation and resolver declaration files must resolve (TS->JS extension mapping undone) to the generated schema declaration file, every `sources` entry of every source map to an existing input file. Non-trivial: >= 2 operation files or a dotted output stem");
    rep.shrink_iters = Some(150);
    let base = work_dir("c20");
    let b2 = base.clone();
    rep.campaign("layouts", env.cases(5_000, 40_000), (300, 1800), move |case| layout_case(case, &b2));
    let _ = std::fs::remove_dir_all(&base);
    rep.finish()
}

fn layout_case(case: &mut Case, base: &Path) -> CaseResult {
    // how the command is started (working directory, --config-file spelling): drawn first so that it varies
    let cli_style = case.ch.below(crate::cli::CLI_STYLES);
    case.label(&format!("cli-style-{cli_style}"));
    use crate::cli::run_cli;
    use crate::projects::{dir_of, gen_project, norm, write_project, ProjectOpts};
    let mut po = ProjectOpts::default();
    // more fragments => longer import chains through the nested library files
    po.doc.max_frags = 6;
    po.plugins = true;
    po.doc.all_fragments_used = true;
    let gp = gen_project(case, &po);
    let proj = write_project(&gp, base);
    let root = proj.path(&gp.layout.root);
    let run = crate::cli::run_cli_styled(&root, &["generate", "--output-format", "json"], cli_style);
    let detail = json!({"config": gp.config, "files": gp.schema_files.iter().chain(gp.op_files.iter()).map(|(p, t)| json!({"path": p, "text": t})).collect::<Vec<_>>(),
        "status": run.status, "stdout": run.stdout.chars().take(800).collect::<String>(), "stderr": run.stderr.chars().take(400).collect::<String>()});
    let res = (|| -> CaseResult {
        if run.crashed() {
            return Err(Failure::new("cli-crashed", "generate crashed".to_string(), detail.clone()));
        }
        if run.status != Some(0) {
            return Err(Failure::new("valid-project-rejected", format!("generate exits {:?} on a valid project (import paths / output paths not resolved as written?)", run.status), detail.clone()));
        }
        let abs = |rel: &str| norm(&proj.path(rel).to_string_lossy());
        let schema_out = abs(&format!("{}/{}", gp.layout.root, gp.layout.schema_output));
        let inputs: std::collections::BTreeSet<String> = gp.schema_files.iter().chain(gp.op_files.iter()).map(|(p, _)| abs(p)).collect();
        let outputs = crate::props::c06::expected_outputs(&gp);
        for out in outputs.iter().skip(1) {
            let path = abs(out);
            let Ok(text) = std::fs::read_to_string(&path) else {
                return Err(Failure::new("output-missing", format!("{out} was not written"), detail.clone()));
            };
            case.evals(1);
            // relative module specifiers
            for (i, _) in text.match_indices(" from \"") {
                let rest = &text[i + 7..];
                let Some(end) = rest.find('"') else { continue };
                let spec = &rest[..end];
                if !spec.starts_with('.') {
                    continue;
                }
                let target = norm(&format!("{}/{}", dir_of(&path), spec));
                // undo the TS -> JS extension mapping
                let cands: Vec<String> = [(".js", vec![".ts", ".d.ts", ".tsx"]), (".mjs", vec![".mts", ".d.mts"]), (".cjs", vec![".cts", ".d.cts"])]
                    .iter()
                    .filter_map(|(js, tss)| target.strip_suffix(js).map(|stem| tss.iter().map(|t| format!("{stem}{t}")).collect::<Vec<_>>()))
                    .flatten()
                    .chain(std::iter::once(target.clone()))
                    .collect();
                if !cands.iter().any(|c| *c == schema_out) {
                    return Err(Failure::new(
                        "specifier-lands-elsewhere",
                        format!("{out} imports {spec:?}, which denotes {target} - not the generated schema module {schema_out}"),
                        json!({"detail": detail, "declaration": out}),
                    ));
                }
            }
            // source map
            let map_path = format!("{path}.map");
            if let Ok(mt) = std::fs::read_to_string(&map_path) {
                if let Ok(v) = serde_json::from_str::<serde_json::Value>(&mt) {
                    for s in v["sources"].as_array().cloned().unwrap_or_default() {
                        let Some(s) = s.as_str() else { continue };
                        let target = norm(&format!("{}/{}", dir_of(&map_path), s));
                        // (`(plugin)`: pseudo source of a plugin's in-memory schema addition; C06 checks that no
                        // segment refers to it)
                        if !inputs.contains(&target) && !target.ends_with("/(plugin)") {
                            return Err(Failure::new(
                                "map-source-lands-elsewhere",
                                format!("{out}.map lists source {s:?}, which denotes {target} - not an input file"),
                                json!({"detail": detail, "map": format!("{out}.map")}),
                            ));
                        }
                    }
                }
            }
        }
        Ok(())
    })();
    proj.remove();
    res?;
    if gp.op_files.len() >= 2 || gp.layout.schema_output.matches('.').count() >= 3 {
        case.nontrivial(&(&gp.config, gp.op_files.iter().map(|f| f.0.clone()).collect::<Vec<_>>()));
    }
    case.label(&format!("op-files-{}", gp.op_files.len()));
    {
        // one specifier text denoting different files depending on the importing file
        let mut by_text: std::collections::BTreeMap<String, std::collections::BTreeSet<String>> = Default::default();
        for ((path, _), model) in gp.op_files.iter().zip(gp.op_file_models.iter()) {
            for d in model {
                if let crate::model::MExecDef::Import(i) = d {
                    by_text.entry(i.path.clone()).or_default().insert(crate::projects::norm(&format!("{}/{}", crate::projects::dir_of(path), i.path)));
                }
            }
        }
        if by_text.values().any(|t| t.len() >= 2) {
            case.label("same-specifier-different-targets");
        }
    }
    case.sample(|| json!({"config": gp.config, "operation_files": gp.op_files.iter().map(|f| f.0.clone()).collect::<Vec<_>>()}));
    Ok(())
}

/// reference relative path from file `from` to file `to` (both absolute, normalised)
pub fn ref_relative(from: &Path, to: &Path) -> String {
    let f: Vec<String> = from.to_string_lossy().split('/').filter(|c| !c.is_empty()).map(String::from).collect();
    let t: Vec<String> = to.to_string_lossy().split('/').filter(|c| !c.is_empty()).map(String::from).collect();
    let fdir = &f[..f.len().saturating_sub(1)];
    let common = fdir.iter().zip(t.iter()).take_while(|(a, b)| a == b).count();
    let ups = fdir.len() - common;
    let mut s = String::new();
    if ups == 0 {
        s.push_str("./");
    }
    for _ in 0..ups {
        s.push_str("../");
    }
    s.push_str(&t[common..].join("/"));
    s
}
