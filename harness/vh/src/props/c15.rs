//! C15 — introspection-JSON and SDL descriptions of a schema give the same results.

use crate::cli::*;
use crate::gen_ops::*;
use crate::gen_schema::*;
use crate::introspect::*;
use crate::model::*;
use crate::props::c01::capitalize;
use crate::props::c03;
use crate::refexec::{ScalarCfg, ScalarTs, Target};
use crate::render::*;
use crate::runner::*;
use crate::tsmini::{self, Program, Prop, Sem, Ty};
use serde_json::{json, Value};
use std::collections::BTreeSet;
use std::path::Path;
use std::rc::Rc;

/// order/position-insensitive normal form of a TS type AST
pub fn normalize_ty(t: &Ty) -> Ty {
    match t {
        Ty::Paren(t) => normalize_ty(t),
        Ty::Ref(p, a) => Ty::Ref(p.clone(), a.iter().map(normalize_ty).collect()),
        Ty::Obj(props) => {
            let mut ps: Vec<Prop> = props
                .iter()
                .map(|p| Prop { key: p.key.clone(), ty: normalize_ty(&p.ty), optional: p.optional, readonly: p.readonly, line: 0, col16: 0 })
                .collect();
            ps.sort_by(|a, b| a.key.cmp(&b.key));
            Ty::Obj(ps)
        }
        Ty::Array(t) => Ty::Array(Box::new(normalize_ty(t))),
        Ty::ReadonlyArray(t) => Ty::ReadonlyArray(Box::new(normalize_ty(t))),
        Ty::Union(ts) => {
            let mut v: Vec<Ty> = ts.iter().map(normalize_ty).collect();
            v.sort_by_key(|x| format!("{x:?}"));
            v.dedup();
            if v.len() == 1 { v.pop().unwrap() } else { Ty::Union(v) }
        }
        Ty::Inter(ts) => {
            let mut v: Vec<Ty> = ts.iter().map(normalize_ty).collect();
            v.sort_by_key(|x| format!("{x:?}"));
            Ty::Inter(v)
        }
        Ty::Keyof(t) => Ty::Keyof(Box::new(normalize_ty(t))),
        Ty::Index(a, b) => Ty::Index(Box::new(normalize_ty(a)), Box::new(normalize_ty(b))),
        Ty::Cond { check, ext, then, els } => Ty::Cond {
            check: Box::new(normalize_ty(check)),
            ext: Box::new(normalize_ty(ext)),
            then: Box::new(normalize_ty(then)),
            els: Box::new(normalize_ty(els)),
        },
        Ty::Fn { params, ret } => Ty::Fn { params: params.iter().map(|(n, t)| (n.clone(), normalize_ty(t))).collect(), ret: Box::new(normalize_ty(ret)) },
        Ty::Mapped { var, src, optional, readonly, body } => {
            Ty::Mapped { var: var.clone(), src: Box::new(normalize_ty(src)), optional: *optional, readonly: *readonly, body: Box::new(normalize_ty(body)) }
        }
        t => t.clone(),
    }
}

pub(crate) fn write_variant(base: &Path, schema_name: &str, schema_text: &str, scalars_yaml: &str, mode: &str, ops: &[(String, String)]) -> Project {
    let p = Project::new(base);
    let cfg = format!(
        "schema: \"./{schema_name}\"\ndocuments: \"./ops/*.graphql\"\nextensions:\n  nitrogql:\n    generate:\n      mode: \"{mode}\"\n      schemaOutput: \"./generated/schema.d.ts\"\n      resolversOutput: \"./generated/resolvers.d.ts\"\n{scalars_yaml}"
    );
    p.write("graphql.config.yaml", &cfg);
    p.write(schema_name, schema_text);
    for (n, t) in ops {
        p.write(&format!("ops/{n}"), t);
    }
    p
}

pub(crate) fn scalars_yaml(cfg: &ScalarCfg, s: &crate::schema::Schema) -> String {
    let custom = s.of_kind(Kind::Scalar);
    if custom.is_empty() {
        return String::new();
    }
    let mut out = String::from("      type:\n        scalarTypes:\n");
    for t in custom {
        match &cfg.map[&t.name] {
            ScalarTs::Single(x) => out.push_str(&format!("          {}: {}\n", t.name, serde_json::to_string(x).unwrap())),
            ScalarTs::SendReceive { send, receive } => out.push_str(&format!(
                "          {}:\n            send: {}\n            receive: {}\n",
                t.name,
                serde_json::to_string(send).unwrap(),
                serde_json::to_string(receive).unwrap()
            )),
            ScalarTs::Separate { resolver_input, resolver_output, operation_input, operation_output } => out.push_str(&format!(
                "          {}:\n            resolverInput: {}\n            resolverOutput: {}\n            operationInput: {}\n            operationOutput: {}\n",
                t.name,
                serde_json::to_string(resolver_input).unwrap(),
                serde_json::to_string(resolver_output).unwrap(),
                serde_json::to_string(operation_input).unwrap(),
                serde_json::to_string(operation_output).unwrap()
            )),
        }
    }
    out
}

/// files (by name) that have at least one check error, plus exit status
fn verdict(run: &CliRun) -> Result<(Option<i32>, BTreeSet<String>, usize), String> {
    let v = run.json()?;
    let mut files = BTreeSet::new();
    let mut n = 0;
    if let Some(errs) = v["check"]["errors"].as_array() {
        for e in errs {
            n += 1;
            if let Some(p) = e["file"]["path"].as_str() {
                files.insert(Path::new(p).file_name().unwrap().to_string_lossy().to_string());
            } else {
                files.insert("<no file>".into());
            }
        }
    }
    Ok((run.status, files, n))
}

fn two_sided(a: &Rc<Sem>, b: &Rc<Sem>) -> Result<Option<(String, Value)>, tsmini::Unsupported> {
    for (x, y, dir) in [(a, b, "sdl-not-in-json"), (b, a, "json-not-in-sdl")] {
        let mut budget = 40;
        for v in tsmini::inhabitants(x, &mut budget, 0)? {
            if !tsmini::member(&v, y, 0)? {
                return Ok(Some((dir.to_string(), v.to_json())));
            }
        }
    }
    Ok(None)
}

fn case_fn(case: &mut Case, base: &Path) -> CaseResult {
    let mut so = SchemaGenOpts::default();
    so.comment_close_in_text = !case.is_excluded("description_with_comment_close");
    let gs = gen_schema(&mut case.ch, &so);
    let s = &gs.schema;
    let dopts = DocGenOpts::default();
    let (gd, _) = gen_doc(&mut case.ch, s, &dopts);
    let faulty = case.ch.chance(1, 2);
    let mut doc = gd.doc.clone();
    let mut fault = None;
    if faulty {
        fault = c03::inject(&mut case.ch, &mut doc, s);
    }
    let cfg = ScalarCfg::generate(&mut case.ch, s, false);
    let sy = scalars_yaml(&cfg, s);
    let mode = *case.ch.pick(&crate::projects::MODES);
    let sdl = canon_ts(&gs.doc);
    let io = IntrospectOpts { meta_types: case.ch.flip(), absent_optionals: case.ch.flip(), shuffle: case.ch.flip() };
    let js = introspect(s, &io, Some(&mut case.ch));
    let ops = vec![("main.graphql".to_string(), canon_op(&doc))];
    let detail = json!({"sdl": sdl, "introspection": js, "operations": ops[0].1, "fault": fault.as_ref().map(|f| json!({"rule": f.label, "where": f.class}))});
    let pa = write_variant(base, "schema.graphqls", &sdl, &sy, mode, &ops);
    // the introspection route is chosen by the `.json` extension, whatever else the name contains
    let json_name = *case.ch.pick(&["schema.json", "schema.json", "graphql.schema.json", "api.v2.introspection.json"]);
    let pb = write_variant(base, json_name, &js, &sy, mode, &ops);
    let res = (|| -> CaseResult {
        let ra = run_cli(&pa.dir, &["check", "--output-format", "json"]);
        let rb = run_cli(&pb.dir, &["check", "--output-format", "json"]);
        for (r, which) in [(&ra, "sdl"), (&rb, "json")] {
            if r.crashed() {
                return Err(Failure::new(format!("cli-crashed:{which}"), r.stderr.lines().find(|l| l.contains("panicked")).unwrap_or("crash").to_string(), json!({"detail": detail, "stderr": r.stderr})));
            }
        }
        let va = verdict(&ra).map_err(|e| Failure::new("check-output-unreadable:sdl", e, detail.clone()))?;
        let vb = verdict(&rb).map_err(|e| Failure::new("check-output-unreadable:json", e, json!({"detail": detail, "stdout": rb.stdout, "stderr": rb.stderr})))?;
        case.evals(1);
        if va.0 != vb.0 || va.1 != vb.1 || (va.2 == 0) != (vb.2 == 0) {
            return Err(Failure::new(
                "check-verdict-differs",
                format!("check: SDL route exit {:?} files {:?}; introspection route exit {:?} files {:?}", va.0, va.1, vb.0, vb.1),
                json!({"detail": detail, "sdl_stdout": ra.stdout, "json_stdout": rb.stdout}),
            ));
        }
        if va.0 != Some(0) {
            case.label("rejected-by-both");
            return Ok(());
        }
        if fault.is_some() {
            // an injected fault that both routes accept is C03's business (known there);
            // generate may legitimately not cope with it
            case.label("faulty-accepted-by-both");
            return Ok(());
        }
        // generate on both
        let ga = run_cli(&pa.dir, &["generate", "--output-format", "json"]);
        let gb = run_cli(&pb.dir, &["generate", "--output-format", "json"]);
        for (r, which) in [(&ga, "sdl"), (&gb, "json")] {
            if r.crashed() || r.status != Some(0) {
                return Err(Failure::new(format!("generate-failed:{which}"), format!("status {:?}: {}", r.status, r.stdout), json!({"detail": detail, "stderr": r.stderr})));
            }
        }
        let ext = match mode {
            "with-loader-ts-5.0" => "d.graphql.ts",
            "with-loader-ts-4.0" => "graphql.d.ts",
            _ => "graphql.ts",
        };
        let mut progs = vec![];
        for (p, which) in [(&pa, "sdl"), (&pb, "json")] {
            let mut prog = Program::new();
            let schema_dts = p.read("generated/schema.d.ts").unwrap_or_default();
            let res_dts = p.read("generated/resolvers.d.ts").unwrap_or_default();
            let op_dts = p.read(&format!("ops/main.{ext}")).unwrap_or_default();
            prog.add_module("Schema", &schema_dts).map_err(|e| Failure::new(format!("not-well-formed:schema:{which}"), format!("{} at {}:{}", e.msg, e.line, e.col), json!({"detail": detail, "text": schema_dts})))?;
            prog.add_module("resolvers", &res_dts).map_err(|e| Failure::new(format!("not-well-formed:resolvers:{which}"), format!("{} at {}:{}", e.msg, e.line, e.col), json!({"detail": detail, "text": res_dts})))?;
            prog.add_module("ops", &op_dts).map_err(|e| Failure::new(format!("not-well-formed:operations:{which}"), format!("{} at {}:{}", e.msg, e.line, e.col), json!({"detail": detail, "text": op_dts})))?;
            progs.push(prog);
        }
        let unsup = |e: tsmini::Unsupported| Failure::new("harness:unsupported-ts", e.0, detail.clone());
        // schema aliases
        for n in &s.order {
            let k = s.kind(n).unwrap();
            for t in Target::ALL {
                let applicable = match k {
                    Kind::Scalar | Kind::Enum => true,
                    Kind::Input => t.is_input(),
                    _ => !t.is_input(),
                };
                if !applicable {
                    continue;
                }
                let a = progs[0].alias("Schema", &[t.ns(), n]);
                let b = progs[1].alias("Schema", &[t.ns(), n]);
                match (a, b) {
                    (Ok(a), Ok(b)) => {
                        case.evals(1);
                        if let Some((dir, v)) = two_sided(&a, &b).map_err(unsup)? {
                            return Err(Failure::new(
                                format!("schema-alias-differs:{:?}", k),
                                format!("{}.{n} differs between the routes ({dir})", t.ns()),
                                json!({"detail": detail, "value": v, "type": n, "target": t.ns()}),
                            ));
                        }
                    }
                    (Err(e), Ok(_)) | (Ok(_), Err(e)) => {
                        return Err(Failure::new("schema-alias-only-in-one-route", format!("{}.{n}: {}", t.ns(), e.0), detail.clone()));
                    }
                    (Err(_), Err(_)) => {}
                }
            }
        }
        // operation aliases
        for d in &doc {
            let names: Vec<String> = match d {
                MExecDef::Op(o) => {
                    let c = capitalize(o.name.as_deref().unwrap_or(""));
                    vec![format!("{c}Result"), format!("{c}Variables")]
                }
                MExecDef::Frag(f) => vec![f.name.clone()],
                _ => vec![],
            };
            for n in names {
                let a = progs[0].alias("ops", &[&n]).map_err(unsup)?;
                let b = progs[1].alias("ops", &[&n]).map_err(unsup)?;
                case.evals(1);
                if let Some((dir, v)) = two_sided(&a, &b).map_err(unsup)? {
                    return Err(Failure::new("operation-alias-differs", format!("{n} differs between the routes ({dir})"), json!({"detail": detail, "value": v, "type": n})));
                }
            }
        }
        // resolvers: same declaration up to order
        let ra = progs[0].modules["resolvers"].types.get("Resolvers").map(|d| normalize_ty(&d.ty));
        let rb = progs[1].modules["resolvers"].types.get("Resolvers").map(|d| normalize_ty(&d.ty));
        let filter_meta = |t: Option<Ty>| -> Option<Ty> {
            match t {
                Some(Ty::Obj(ps)) => Some(Ty::Obj(ps.into_iter().filter(|p| !p.key.starts_with("__")).collect())),
                t => t,
            }
        };
        if filter_meta(ra.clone()) != filter_meta(rb.clone()) {
            return Err(Failure::new(
                "resolvers-differ",
                "the Resolvers type differs between the routes".to_string(),
                json!({"detail": detail, "sdl": pa.read("generated/resolvers.d.ts"), "json": pb.read("generated/resolvers.d.ts")}),
            ));
        }
        case.evals(1);
        Ok(())
    })();
    pa.remove();
    pb.remove();
    res?;
    let through = gs.labels.contains(&"interface-implements-interface");
    let renamed = gs.labels.contains(&"renamed-roots");
    let deprecated = sdl.contains("@deprecated");
    let custom_dir = gd.labels.contains("custom-directive");
    if faulty && fault.is_some() {
        case.label("faulty-document");
    }
    if io.meta_types {
        case.label("meta-types-in-json");
    }
    if io.absent_optionals {
        case.label("optional-keys-absent");
    }
    if [through, renamed, deprecated, custom_dir].iter().filter(|b| **b).count() >= 2 {
        case.nontrivial(&(&sdl, &ops));
    }
    case.sample(|| json!({"sdl": sdl, "operations": ops[0].1, "introspection_options": {"meta_types": io.meta_types, "absent_optionals": io.absent_optionals, "shuffled": io.shuffle}}));
    Ok(())
}

pub fn run(env: &Env) -> i32 {
    let mut rep = Report::new(
        env,
        "exploration",
        "a generated schema model is rendered as SDL and as the JSON result of the standard introspection query (shuffled array orders, optional members null or absent, __* meta types on/off, built-in scalars and directives included); operation documents are valid or carry an injected fault (C03 operators). Through the built CLI, two projects that differ only in the schema file: check must give the same exit status and the same set of files with diagnostics; for accepted documents generate must emit schema/operation aliases with the same members (two-sided inhabitant sampling under tsmini) and the same Resolvers declaration up to order. Non-trivial: schema has >= 2 of {interface implementing interface, renamed roots, deprecated item, custom directive used by the document}.",
    );
    rep.assume("declaration order, comments, source maps and default-value literals are ignored; __* meta types present only in the JSON route are out of scope");
    rep.shrink_iters = Some(150);
    let base = work_dir("c15");
    let b2 = base.clone();
    rep.campaign("routes", env.cases(1_500, 12_000), (300, 1600), move |case| case_fn(case, &b2));
    let _ = std::fs::remove_dir_all(&base);
    rep.finish()
}
