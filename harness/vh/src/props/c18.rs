//! C18 — CLI status, diagnostics and written files are consistent and well-located.

use crate::cli::*;
use crate::model::*;
use crate::projects::*;
use crate::refparse::{self, LTok, T};
use crate::render::*;
use crate::runner::*;
use serde_json::{json, Value};
use std::collections::{BTreeMap, BTreeSet};
use std::path::Path;

#[derive(Clone, Debug, PartialEq, Eq)]
enum Stage {
    /// reported as a command error (parse, import resolution)
    Command,
    /// reported as check diagnostics
    Check,
}

#[derive(Clone, Debug)]
struct Injected {
    file: String, // project-relative path
    kind: &'static str, // "schema" | "operation"
    stage: Stage,
    what: &'static str,
}

fn plain_field(name: &str) -> MSelection {
    MSelection::Field(MFieldSel { alias: None, name: name.into(), args: vec![], directives: vec![], sel: None })
}

fn first_op_mut(doc: &mut MOpDoc) -> Option<&mut MOperation> {
    doc.iter_mut().find_map(|d| if let MExecDef::Op(o) = d { Some(o) } else { None })
}

fn token_starts(text: &str, ext_import: bool) -> Option<Vec<LTok>> {
    if ext_import {
        if let Ok((_, toks)) = refparse::parse_op_doc_toks(text) {
            return Some(toks);
        }
    }
    refparse::lex(text, ext_import).ok()
}

/// is (line, col) [0-based] the start of a token of `text`? For unparsable text: any
/// position at or before the end of the text (+1 line) where a token could start.
fn at_token_start(text: &str, ext_import: bool, line: i64, col: i64) -> bool {
    if line < 0 || col < 0 {
        return false;
    }
    match token_starts(text, ext_import) {
        Some(toks) => toks.iter().any(|t| t.line as i64 == line && (t.col as i64 == col || t.col16 as i64 == col)),
        None => {
            // lexically broken file (not generated here): only require being inside the text
            let lines: Vec<&str> = text.split('\n').collect();
            (line as usize) < lines.len() + 1
        }
    }
}

struct Located {
    path: String,
    line: i64,
    col: i64,
    file_type: Option<String>,
}

/// `path:line:col` triples (1-based) in free text; paths are absolute and contain no spaces
fn triples_in(text: &str, _inputs: &BTreeMap<String, (String, &'static str)>) -> Vec<Located> {
    let mut out = vec![];
    for word in text.split(|c: char| c.is_whitespace()) {
        if !word.starts_with('/') {
            continue;
        }
        let parts: Vec<&str> = word.rsplitn(3, ':').collect();
        if parts.len() != 3 {
            continue;
        }
        if let (Ok(c), Ok(l)) = (parts[0].parse::<i64>(), parts[1].parse::<i64>()) {
            out.push(Located { path: norm(parts[2]), line: l - 1, col: c - 1, file_type: None });
        }
    }
    out
}

fn case_fn(case: &mut Case, base: &Path) -> CaseResult {
    // how the command is started (working directory, --config-file spelling): drawn first so that it varies
    let cli_style = case.ch.below(crate::cli::CLI_STYLES);
    case.label(&format!("cli-style-{cli_style}"));
    let mut po = ProjectOpts::default();
    po.extend_builtin_scalar = true;
    po.wild_trivia = false;
    let mut gp = gen_project(case, &po);
    let command = *case.ch.pick(&["check", "generate"]);
    let format = *case.ch.pick(&["json", "json", "rdjson", "human"]);
    let n_faults = if case.ch.chance(1, 3) { 0 } else { case.ch.range(1, 3) };
    let allow_syntax_rdjson = !case.is_excluded("syntax_fault_rdjson");
    let mut injected: Vec<Injected> = vec![];
    for _ in 0..n_faults {
        let in_schema = case.ch.chance(1, 3);
        if in_schema {
            let i = case.ch.below(gp.schema_files.len());
            if injected.iter().any(|x| x.file == gp.schema_files[i].0) {
                continue;
            }
            let which = case.ch.below(4);
            let (rel, text) = gp.schema_files[i].clone();
            match which {
                0 => {
                    gp.schema_files[i].1 = format!("{text}extend type {} {{ badField{i}: NoSuchType{i} }}\n", gp.gs.schema.root(OpType::Query).unwrap());
                    injected.push(Injected { file: rel, kind: "schema", stage: Stage::Check, what: "field of unknown type" });
                }
                1 => {
                    if case.ch.chance(1, 3) && !injected.iter().any(|x| x.what == "redeclared built-in scalar") {
                        // the other declaration is the built-in one, which has no position of its own
                        let b = *case.ch.pick(&["String", "Int", "Float", "Boolean", "ID"]);
                        gp.schema_files[i].1 = format!("{text}scalar {b}\n");
                        injected.push(Injected { file: rel, kind: "schema", stage: Stage::Check, what: "redeclared built-in scalar" });
                    } else {
                        gp.schema_files[i].1 = format!("{text}scalar DuplicatedScalar{i}\nscalar DuplicatedScalar{i}\n");
                        injected.push(Injected { file: rel, kind: "schema", stage: Stage::Check, what: "duplicate type definition" });
                    }
                }
                2 => {
                    // half of the time behind a block-string description whose lines start with multi-byte
                    // white space (U+3000, NBSP): the human renderer quotes and re-indents these lines
                    // (the whole block is indented, so the common indentation of the quoted context is not zero)
                    gp.schema_files[i].1 = match case.ch.below(3) {
                        0 => format!("{text}  \"\"\"\n  two\n\u{3000}wide line\n  \"\"\"\n  scalar WithUnknownDirective{i} @noSuchDirective\n"),
                        1 => format!("{text}    \"\"\"\n\u{a0}\u{a0}nbsp line\n    \"\"\"\n    scalar WithUnknownDirective{i} @noSuchDirective\n"),
                        _ => format!("{text}scalar WithUnknownDirective{i} @noSuchDirective\n"),
                    };
                    injected.push(Injected { file: rel, kind: "schema", stage: Stage::Check, what: "unknown directive" });
                }
                _ => {
                    if format == "rdjson" && !allow_syntax_rdjson {
                        let _ = case.allow("syntax_fault_rdjson");
                        continue;
                    }
                    // syntax error in the middle: a stray ')' after the first line
                    let mut lines: Vec<&str> = text.split('\n').collect();
                    let at = 1.min(lines.len() - 1);
                    lines.insert(at, ") stray");
                    gp.schema_files[i].1 = lines.join("\n");
                    injected.push(Injected { file: rel, kind: "schema", stage: Stage::Command, what: "syntax error" });
                }
            }
        } else {
            let i = case.ch.below(gp.op_files.len());
            if injected.iter().any(|x| x.file == gp.op_files[i].0) {
                continue;
            }
            let rel = gp.op_files[i].0.clone();
            let which = case.ch.below(12);
            let mut doc = gp.op_file_models[i].clone();
            let has_op = doc.iter().any(|d| matches!(d, MExecDef::Op(_)));
            match which {
                10 | 11 => {
                    // argument faults (C03 operators: unknown argument, missing required argument, literal of the wrong
                    // type): their diagnostics involve a position in the schema (the definition of the field) as well
                    let op = *case.ch.pick(&[6usize, 7, 7, 8]);
                    let Some(f) = crate::props::c03::inject_which(&mut case.ch, &mut doc, &gp.gs.schema, op) else { continue };
                    if f.label == "missing-required-argument" && case.ch.flip() {
                        // no argument list at all
                        fn clear(sels: &mut [MSelection]) {
                            for s in sels {
                                match s {
                                    MSelection::Field(f) => {
                                        if f.alias.as_deref() == Some("missing_arg_variant") {
                                            f.args.clear();
                                        }
                                        if let Some(x) = &mut f.sel {
                                            clear(x);
                                        }
                                    }
                                    MSelection::Inline { sel, .. } => clear(sel),
                                    _ => {}
                                }
                            }
                        }
                        for d in doc.iter_mut() {
                            match d {
                                MExecDef::Op(o) => clear(&mut o.sel),
                                MExecDef::Frag(fr) => clear(&mut fr.sel),
                                _ => {}
                            }
                        }
                    }
                    gp.op_files[i].1 = canon_op(&doc);
                    gp.op_file_models[i] = doc;
                    let what: &'static str = match f.label {
                        "unknown-argument" => "unknown argument",
                        "missing-required-argument" => "required argument missing",
                        _ => "argument literal of the wrong type",
                    };
                    injected.push(Injected { file: rel, kind: "operation", stage: Stage::Check, what });
                }
                0 | 1 | 2 if has_op => {
                    let o = first_op_mut(&mut doc).unwrap();
                    let what = match which {
                        0 => {
                            if o.op == OpType::Subscription {
                                continue;
                            }
                            o.sel.push(plain_field("no_such_field"));
                            "unknown field"
                        }
                        1 => {
                            if o.op == OpType::Subscription {
                                continue;
                            }
                            o.sel.push(MSelection::Spread { name: "NoSuchFragment".into(), directives: vec![] });
                            "unknown fragment"
                        }
                        _ => {
                            o.directives.push(MDirective { name: "noSuchDirective".into(), args: vec![] });
                            "unknown directive"
                        }
                    };
                    gp.op_files[i].1 = canon_op(&doc);
                    gp.op_file_models[i] = doc;
                    injected.push(Injected { file: rel, kind: "operation", stage: Stage::Check, what });
                }
                3 if has_op => {
                    let o = first_op_mut(&mut doc).unwrap().clone();
                    if o.name.is_none() {
                        continue;
                    }
                    let mut copy = o.clone();
                    copy.vars.clear();
                    copy.directives.clear();
                    copy.sel = vec![plain_field("__typename")];
                    if copy.op == OpType::Subscription {
                        continue;
                    }
                    doc.push(MExecDef::Op(copy));
                    gp.op_files[i].1 = canon_op(&doc);
                    gp.op_file_models[i] = doc;
                    injected.push(Injected { file: rel, kind: "operation", stage: Stage::Check, what: "duplicate operation name" });
                }
                4 => {
                    gp.op_files[i].1 = format!("#import Nothing from \"./does-not-exist.graphql\"\n{}", gp.op_files[i].1);
                    injected.push(Injected { file: rel, kind: "operation", stage: Stage::Check, what: "import of a missing file" });
                    // half of the time a second file gets an import fault of its own (every offending file must
                    // be named, not only the first one the resolver meets)
                    if gp.op_files.len() >= 2 && case.ch.flip() {
                        let j = (i + 1 + case.ch.below(gp.op_files.len() - 1)) % gp.op_files.len();
                        if !injected.iter().any(|x| x.file == gp.op_files[j].0) {
                            gp.op_files[j].1 = format!("#import AlsoNothing from \"./also-missing.graphql\"\n{}", gp.op_files[j].1);
                            injected.push(Injected { file: gp.op_files[j].0.clone(), kind: "operation", stage: Stage::Check, what: "import of a missing file (second file)" });
                        }
                    }
                }
                5 => {
                    if format == "rdjson" && !allow_syntax_rdjson {
                        let _ = case.allow("syntax_fault_rdjson");
                        continue;
                    }
                    let text = gp.op_files[i].1.clone();
                    let mut lines: Vec<&str> = text.split('\n').collect();
                    let at = 1.min(lines.len() - 1);
                    lines.insert(at, ") stray");
                    gp.op_files[i].1 = lines.join("\n");
                    injected.push(Injected { file: rel, kind: "operation", stage: Stage::Command, what: "syntax error" });
                }
                6 => {
                    if format == "rdjson" && !allow_syntax_rdjson {
                        let _ = case.allow("syntax_fault_rdjson");
                        continue;
                    }
                    // unclosed brace: the error position is the line after the final newline
                    let text = gp.op_files[i].1.trim_end().to_string();
                    if let Some(t) = text.strip_suffix('}') {
                        gp.op_files[i].1 = format!("{t}\n");
                        injected.push(Injected { file: rel, kind: "operation", stage: Stage::Command, what: "unclosed brace at end of file" });
                    }
                }
                7 | 8 => {
                    // unknown field inside a fragment definition (possibly one that other files import):
                    // the diagnostic belongs to the file that holds the fragment
                    let Some(fr) = doc.iter_mut().find_map(|d| if let MExecDef::Frag(f) = d { Some(f) } else { None }) else { continue };
                    fr.sel.push(plain_field("no_such_field_in_fragment"));
                    gp.op_files[i].1 = canon_op(&doc);
                    gp.op_file_models[i] = doc;
                    injected.push(Injected { file: rel, kind: "operation", stage: Stage::Check, what: "unknown field in a fragment" });
                }
                9 => {
                    // the same faulty operation as the first line of two operation files: two
                    // diagnostics with equal message, line and column in different files
                    if gp.op_files.len() < 2 {
                        continue;
                    }
                    let j = (i + 1 + case.ch.below(gp.op_files.len() - 1)) % gp.op_files.len();
                    if injected.iter().any(|x| x.file == gp.op_files[j].0) {
                        continue;
                    }
                    for (k, nm) in [(i, "TwinFaultA"), (j, "TwinFaultB")] {
                        let line = format!("query {nm} {{ no_such_twin_field }}\n");
                        gp.op_files[k].1 = format!("{line}{}", gp.op_files[k].1);
                        let mut m = vec![MExecDef::Op(MOperation { op: OpType::Query, name: Some(nm.into()), vars: vec![], directives: vec![], sel: vec![plain_field("no_such_twin_field")], shorthand: false })];
                        m.extend(gp.op_file_models[k].iter().cloned());
                        gp.op_file_models[k] = m;
                        injected.push(Injected { file: gp.op_files[k].0.clone(), kind: "operation", stage: Stage::Check, what: "unknown field (same text at the same position in two files)" });
                    }
                }
                _ => continue,
            }
        }
    }
    // one project in six (when no schema fault was injected): the schema is given as the introspection JSON a
    // server would return for it (one file) instead of SDL files
    if !injected.iter().any(|x| x.kind == "schema") && case.ch.chance(1, 6) {
        let io = crate::introspect::IntrospectOpts { meta_types: case.ch.flip(), absent_optionals: case.ch.flip(), shuffle: false };
        let js = crate::introspect::introspect(&gp.gs.schema, &io, None);
        let dir = crate::projects::dir_of(&gp.schema_files[0].0);
        let json_rel = format!("{dir}/schema.introspection.json");
        // the config's schema entry: same directory, relative to the config root
        let old_glob = gp.config.lines().find(|l| l.starts_with("schema:")).unwrap_or("").to_string();
        let new_line = old_glob.replace("*.graphqls", "schema.introspection.json");
        if new_line != old_glob {
            gp.config = gp.config.replacen(&old_glob, &new_line, 1);
            gp.schema_files = vec![(json_rel, js)];
            case.label("introspection-json-schema");
        }
    }
    let proj = write_project(&gp, base);
    let cwd = proj.path(&gp.layout.root);
    let mut inputs: BTreeMap<String, (String, &'static str)> = BTreeMap::new();
    for (rel, text) in &gp.schema_files {
        inputs.insert(norm(&proj.path(rel).to_string_lossy()), (text.clone(), "schema"));
    }
    for (rel, text) in &gp.op_files {
        inputs.insert(norm(&proj.path(rel).to_string_lossy()), (text.clone(), "operation"));
    }
    let detail = json!({"config": gp.config, "command": command, "format": format,
        "faults": injected.iter().map(|f| json!({"file": f.file, "what": f.what})).collect::<Vec<_>>(),
        "files": gp.schema_files.iter().chain(gp.op_files.iter()).map(|(p, t)| json!({"path": p, "text": t})).collect::<Vec<_>>()});
    let before = proj.snapshot();
    let run = crate::cli::run_cli_styled(&cwd, &[command, "--output-format", format], cli_style);
    let after = proj.snapshot();
    let res = (|| -> CaseResult {
        let fail = |sig: &str, msg: String| Failure::new(sig, msg, json!({"detail": detail, "status": run.status, "stdout": run.stdout, "stderr": strip_ansi(&run.stderr)}));
        if run.crashed() {
            return Err(fail("cli-crashed", format!("{command} crashed: {}", run.stderr.lines().find(|l| l.contains("panicked")).unwrap_or("signal"))));
        }
        let faulty = !injected.is_empty();
        case.evals(1);
        match (faulty, run.status) {
            (false, Some(0)) | (true, Some(1)) => {}
            (false, st) => return Err(fail("nonzero-exit-on-valid-project", format!("exit {st:?} on a project without faults"))),
            (true, st) => return Err(fail("zero-exit-on-faulty-project", format!("exit {st:?} although faults were injected: {:?}", injected.iter().map(|f| f.what).collect::<Vec<_>>()))),
        }
        // files
        let changed: BTreeSet<String> = after.iter().filter(|(k, v)| before.get(*k) != Some(v)).map(|(k, _)| k.clone()).chain(before.keys().filter(|k| !after.contains_key(*k)).cloned()).collect();
        if command == "check" || faulty {
            if !changed.is_empty() {
                return Err(fail("files-changed", format!("{command} ({}) changed the directory: {changed:?}", if faulty { "failing" } else { "check" })));
            }
        }
        // structured output
        let mut located: Vec<Located> = vec![];
        if format == "human" {
            if faulty && strip_ansi(&run.stderr).trim().is_empty() {
                return Err(fail("human-output-empty", "no output on stderr for a failing run".into()));
            }
            located.extend(triples_in(&strip_ansi(&run.stderr), &inputs));
        } else {
            let v: Value = run.json().map_err(|e| fail("stdout-not-one-json-document", e))?;
            if format == "json" {
                if let Some(errs) = v["check"]["errors"].as_array() {
                    for e in errs {
                        let ft = e["fileType"].as_str().map(String::from);
                        if !matches!(ft.as_deref(), Some("schema") | Some("operation")) {
                            return Err(fail("diagnostic-without-filetype", format!("diagnostic {e} has no valid fileType")));
                        }
                        if e["message"].as_str().map(|m| m.is_empty()).unwrap_or(true) {
                            return Err(fail("diagnostic-without-message", format!("diagnostic {e}")));
                        }
                        if let Some(p) = e["file"]["path"].as_str() {
                            located.push(Located {
                                path: norm(p),
                                line: e["file"]["line"].as_i64().unwrap_or(-1),
                                col: e["file"]["column"].as_i64().unwrap_or(-1),
                                file_type: ft,
                            });
                        }
                    }
                }
                if let Some(m) = v["error"]["message"].as_str() {
                    located.extend(triples_in(&strip_ansi(m), &inputs));
                }
                if command == "generate" && !faulty {
                    let listed: BTreeSet<String> = v["generate"]["files"]
                        .as_array()
                        .cloned()
                        .unwrap_or_default()
                        .iter()
                        .filter_map(|f| f["path"].as_str().map(|p| norm(p)))
                        .collect();
                    let changed_abs: BTreeSet<String> = changed.iter().map(|r| norm(&proj.path(r).to_string_lossy())).collect();
                    if listed != changed_abs {
                        return Err(fail(
                            "written-files-differ-from-listed",
                            format!("generate lists {:?} but created/modified {:?}", listed.difference(&changed_abs).collect::<Vec<_>>(), changed_abs.difference(&listed).collect::<Vec<_>>()),
                        ));
                    }
                    for p in &listed {
                        if !Path::new(p).exists() {
                            return Err(fail("listed-file-missing", format!("{p} is listed but does not exist")));
                        }
                    }
                }
            } else {
                // rdjson
                if v["source"]["name"] != "nitrogql" || !v["diagnostics"].is_array() {
                    return Err(fail("rdjson-shape", "missing source.name / diagnostics".into()));
                }
                for d in v["diagnostics"].as_array().unwrap() {
                    if let Some(p) = d["location"]["path"].as_str() {
                        located.push(Located {
                            path: norm(p),
                            line: d["location"]["range"]["start"]["line"].as_i64().unwrap_or(0) - 1,
                            col: d["location"]["range"]["start"]["column"].as_i64().unwrap_or(0) - 1,
                            file_type: None,
                        });
                    }
                }
            }
        }
        // every located diagnostic: existing input file of the right kind, at a token start
        for l in &located {
            let Some((text, kind)) = inputs.get(&l.path) else {
                return Err(fail("diagnostic-names-non-input-file", format!("diagnostic names {} which is not an input file", l.path)));
            };
            if let Some(ft) = &l.file_type {
                if ft != kind {
                    return Err(fail("diagnostic-filetype-mismatch", format!("{} is a {kind} file but the diagnostic says fileType {ft}", l.path)));
                }
            }
            // files with an injected syntax error are not lexable as a whole: use the
            // pristine text for token starts when possible
            let is_op = *kind == "operation";
            if !at_token_start(text, is_op, l.line, l.col) {
                return Err(fail(
                    "diagnostic-not-at-token-start",
                    format!("diagnostic at {}:{}:{} (0-based) is not the start of a token", l.path, l.line, l.col),
                ));
            }
            case.evals(1);
        }
        if faulty {
            if located.is_empty() {
                let stage = if injected.iter().any(|f| f.stage == Stage::Command) { "command-error" } else { "check-error" };
                return Err(fail(
                    format!("failure-not-located:{format}:{stage}").as_str(),
                    format!("exit 1 but no diagnostic locates a fault by file/line/column ({} format; faults: {:?})", format, injected.iter().map(|f| f.what).collect::<Vec<_>>()),
                ));
            }
            // check-stage faults: every offending file is named (when nothing earlier aborted the run)
            let command_level = injected.iter().any(|f| f.stage == Stage::Command);
            let schema_faulty = injected.iter().any(|f| f.kind == "schema");
            if !command_level {
                for f in &injected {
                    if f.kind == "operation" && schema_faulty {
                        continue; // operations are not checked against an invalid schema
                    }
                    // (a built-in scalar defined again is a duplicate definition too)
                    let is_dup = |w: &str| w == "duplicate type definition" || w == "redeclared built-in scalar";
                    if f.what == "import of a missing file" || is_dup(f.what) {
                        // resolution errors stop at the first one of their stage
                        let same_stage = injected.iter().filter(|g| g.what == f.what || (is_dup(g.what) && is_dup(f.what))).count();
                        if same_stage > 1 {
                            continue;
                        }
                    }
                    // import errors abort the operation stage: other operation files are not reached
                    if f.kind == "operation" && f.what != "import of a missing file" && injected.iter().any(|g| g.what == "import of a missing file") {
                        continue;
                    }
                    if f.kind == "schema" && !is_dup(f.what) && injected.iter().any(|g| is_dup(g.what)) {
                        continue;
                    }
                    let abs = norm(&proj.path(&f.file).to_string_lossy());
                    if !located.iter().any(|l| l.path == abs) {
                        return Err(fail("offending-file-not-named", format!("{} ({}) is not named by any diagnostic", f.file, f.what)));
                    }
                }
            }
        } else if !located.is_empty() {
            return Err(fail("diagnostic-on-valid-project", "exit 0 but diagnostics were printed".into()));
        }
        Ok(())
    })();
    proj.remove();
    res?;
    let files_with_faults: BTreeSet<&String> = injected.iter().map(|f| &f.file).collect();
    case.label(&format!("{command}/{format}"));
    for f in &injected {
        case.label(&format!("fault:{}", f.what));
    }
    if files_with_faults.len() >= 2 || (command == "generate" && injected.is_empty() && gp.layout.resolvers_output.is_some()) {
        case.nontrivial(&(&gp.config, &gp.schema_files, &gp.op_files, command, format));
    }
    case.sample(|| json!({"command": command, "format": format, "faults": injected.iter().map(|f| json!({"file": f.file, "what": f.what})).collect::<Vec<_>>()}));
    Ok(())
}

/// fixed two-file project with one fault; Err when the failing run does not locate the fault
fn fixed_probe(base: &Path, schema: &str, op: &str, format: &str, faulty_file: &str) -> CaseResult {
    let proj = Project::new(base);
    proj.write("graphql.config.yaml", "schema: \"*.graphqls\"\ndocuments: \"*.graphql\"\n");
    proj.write("s.graphqls", schema);
    proj.write("q.graphql", op);
    let run = run_cli(&proj.dir, &["check", "--output-format", format]);
    let detail = json!({"schema": schema, "operation": op, "format": format, "status": run.status, "stdout": run.stdout, "stderr": strip_ansi(&run.stderr)});
    let abs = norm(&proj.path(faulty_file).to_string_lossy());
    proj.remove();
    if run.crashed() {
        return Err(Failure::new("cli-crashed", "crash", detail));
    }
    if run.status != Some(1) {
        return Err(Failure::new("zero-exit-on-faulty-project", format!("exit {:?}", run.status), detail));
    }
    let inputs = BTreeMap::new();
    let mut located = triples_in(&strip_ansi(&run.stderr), &inputs);
    if format != "human" {
        let v: Value = run.json().map_err(|e| Failure::new("stdout-not-one-json-document", e, detail.clone()))?;
        if let Some(m) = v["error"]["message"].as_str() {
            located.extend(triples_in(&strip_ansi(m), &inputs));
        }
        for e in v["check"]["errors"].as_array().cloned().unwrap_or_default() {
            if let Some(p) = e["file"]["path"].as_str() {
                located.push(Located { path: norm(p), line: e["file"]["line"].as_i64().unwrap_or(-1), col: e["file"]["column"].as_i64().unwrap_or(-1), file_type: None });
            }
        }
        for d in v["diagnostics"].as_array().cloned().unwrap_or_default() {
            if let Some(p) = d["location"]["path"].as_str() {
                located.push(Located { path: norm(p), line: 0, col: 0, file_type: None });
            }
        }
    }
    if !located.iter().any(|l| l.path == abs) {
        return Err(Failure::new(format!("failure-not-located:{format}:command-error"), format!("exit 1 but nothing locates the fault in {faulty_file}"), detail));
    }
    Ok(())
}

/// Projects whose globs go through a symbolic link to a directory that lives elsewhere (`documents: lnk/../ops/*.graphql`
/// with `lnk -> ../elsewhere/sub`: the operating system resolves `lnk/..` to `elsewhere`, not to the project). Every
/// located diagnostic must name a file that exists, and the faulty file (by its real location) must be named.
fn symlink_case(case: &mut Case, base: &Path) -> CaseResult {
    let format = *case.ch.pick(&["json", "rdjson", "human"]);
    let in_schema = case.ch.chance(1, 3);
    let proj = Project::new(base);
    let root = proj.path("app");
    let elsewhere = proj.path("elsewhere");
    std::fs::create_dir_all(root.clone()).unwrap();
    std::fs::create_dir_all(elsewhere.join("sub")).unwrap();
    std::fs::create_dir_all(elsewhere.join("ops")).unwrap();
    std::fs::create_dir_all(elsewhere.join("schema")).unwrap();
    // app/lnk -> ../elsewhere/sub, so that app/lnk/.. is elsewhere/
    if std::os::unix::fs::symlink("../elsewhere/sub", root.join("lnk")).is_err() {
        proj.remove();
        case.discard("symbolic links unavailable");
        return Ok(());
    }
    // a decoy with the lexically normalised paths: files that are NOT inputs
    if case.ch.flip() {
        proj.write("app/ops/q1.graphql", "query Decoy { a }\n");
        proj.write("app/schema/s.graphqls", "type Query { a: Int }\n");
        case.label("decoy-at-lexical-path");
    }
    proj.write("app/graphql.config.yaml", "schema: \"lnk/../schema/*.graphqls\"\ndocuments: \"lnk/../ops/*.graphql\"\n");
    let fault = case.ch.below(3);
    let schema = if in_schema { "type Query { a: Int b: NoSuchType }\n" } else { "type Query { a: Int }\n" };
    let q1 = if in_schema {
        "query Q1 { a }\n"
    } else {
        match fault {
            0 => "query Q1 { a nope }\n",
            1 => "query Q1 { a ...NoSuchFragment }\n",
            _ => "query Q1 { a\n",
        }
    };
    proj.write("elsewhere/schema/s.graphqls", schema);
    proj.write("elsewhere/ops/q1.graphql", q1);
    proj.write("elsewhere/ops/q2.graphql", "query Q2 { a }\n");
    let run = run_cli(&root, &["check", "--output-format", format]);
    let detail = json!({"layout": "app/lnk -> ../elsewhere/sub; globs lnk/../schema/*.graphqls and lnk/../ops/*.graphql", "schema": schema, "q1": q1, "format": format,
        "status": run.status, "stdout": run.stdout, "stderr": strip_ansi(&run.stderr)});
    let faulty = std::fs::canonicalize(proj.path(if in_schema { "elsewhere/schema/s.graphqls" } else { "elsewhere/ops/q1.graphql" })).unwrap();
    let res = (|| -> CaseResult {
        if run.crashed() {
            return Err(Failure::new("cli-crashed", "crash", detail.clone()));
        }
        if run.status != Some(1) {
            return Err(Failure::new("zero-exit-on-faulty-project", format!("exit {:?} (are the files behind the link read at all?)", run.status), detail.clone()));
        }
        // paths exactly as printed (no lexical normalisation: that is the point here)
        let raw_paths = |text: &str| -> Vec<String> {
            text.split(|c: char| c.is_whitespace())
                .filter(|w| w.starts_with('/'))
                .filter_map(|w| {
                    let parts: Vec<&str> = w.rsplitn(3, ':').collect();
                    (parts.len() == 3 && parts[0].parse::<i64>().is_ok() && parts[1].parse::<i64>().is_ok()).then(|| parts[2].to_string())
                })
                .collect()
        };
        let mut paths: Vec<String> = raw_paths(&strip_ansi(&run.stderr));
        if format != "human" {
            let v: Value = run.json().map_err(|e| Failure::new("stdout-not-one-json-document", e, detail.clone()))?;
            if let Some(m) = v["error"]["message"].as_str() {
                paths.extend(raw_paths(&strip_ansi(m)));
            }
            for e in v["check"]["errors"].as_array().cloned().unwrap_or_default() {
                if let Some(p) = e["file"]["path"].as_str() {
                    paths.push(p.to_string());
                }
            }
            for d in v["diagnostics"].as_array().cloned().unwrap_or_default() {
                if let Some(p) = d["location"]["path"].as_str() {
                    paths.push(p.to_string());
                }
            }
        }
        let mut named = false;
        for p in &paths {
            // as the operating system understands the path (symbolic links followed), not lexically
            match std::fs::canonicalize(p) {
                Ok(c) => named |= c == faulty,
                Err(_) => return Err(Failure::new("diagnostic-names-missing-file", format!("a diagnostic names {p}, which does not exist"), detail.clone())),
            }
        }
        if !named && !(format == "rdjson" && fault == 2 && !in_schema) {
            return Err(Failure::new("offending-file-not-named", format!("no diagnostic names {} (named: {paths:?})", faulty.display()), detail.clone()));
        }
        Ok(())
    })();
    proj.remove();
    res?;
    case.evals(1);
    case.label(format);
    case.nontrivial(&(format, in_schema, fault));
    case.sample(|| json!({"format": format, "fault_in_schema": in_schema}));
    Ok(())
}

pub fn run(env: &Env) -> i32 {
    let mut rep = Report::new(
        env,
        "exploration",
        "generated projects (layouts, modes and scalar mappings as C06), valid or with 1-3 injected faults in schema and/or operation files, drawn only from fault classes nitrogql's own tests cover (unknown field / type / fragment / directive, duplicate names, syntax errors in the middle and at end of file, import of a missing file); command check or generate; formats human / json / rdjson. Oracle on the built binary: exit 0 iff no fault, never a crash signature; json/rdjson stdout is exactly one JSON document of the documented shape; at least one fault is located by file/line/column (structured, or a path:line:col triple in the command error message / stderr); every located diagnostic names an existing input file of the right kind at a token start of a reference lexer; for check-stage faults every offending file is named; check and failing runs leave the directory byte-identical; successful generate creates/modifies exactly the listed files. Non-trivial: faults in >= 2 files, or a successful generate with >= 3 kinds of output.",
    );
    rep.assume("fault classes are limited to diagnostics nitrogql demonstrably implements, so C03/C05 misses are not re-reported here");
    rep.assume("positions are accepted in Unicode scalar values or UTF-16 code units; json is 0-based, rdjson and text are 1-based");
    rep.shrink_iters = Some(200);
    let base = work_dir("c18");
    let b2 = base.clone();
    {
        let b = base.clone();
        rep.probe("C18-rdjson-command-error-unlocated", move || fixed_probe(&b, "type Query { a: Int }\n) stray\n", "query Q { a }\n", "rdjson", "s.graphqls"));
        let b = base.clone();
        rep.probe("C18-eof-syntax-error-unlocated", move || fixed_probe(&b, "type Query { a: Int }\n", "query Q { a\n", "human", "q.graphql"));
        let b = base.clone();
        rep.probe("C18-eof-syntax-error-unlocated", move || fixed_probe(&b, "type Query { a: Int }\n", "query Q { a\n", "json", "q.graphql"));
    }
    rep.campaign("runs", env.cases(4_000, 100_000), (600, 2500), move |case| case_fn(case, &b2));
    rep.note("campaign symlinked-globs: the schema and documents globs go through a symbolic link to a directory elsewhere (`lnk/../ops/*.graphql`), where the operating system's and the lexical reading of `..` differ; every path a diagnostic names must exist and the faulty file must be named (compared after following links)");
    let b3 = base.clone();
    rep.campaign("symlinked-globs", env.cases(60, 600), (20, 100), move |case| symlink_case(case, &b3));
    let _ = std::fs::remove_dir_all(&base);
    rep.finish()
}
