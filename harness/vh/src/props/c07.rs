//! C07 — parsing yields exactly the document the text denotes, with true positions.

use crate::conv::*;
use crate::gen_syntax::*;
use crate::model::*;
use crate::refparse;
use crate::render::*;
use crate::runner::*;
use nitrogql_parser::{parse_operation_document, parse_type_system_document};
use serde_json::{json, Value};

pub fn render_opts_for(case: &mut Case, wild: bool) -> RenderOpts {
    if !wild {
        return RenderOpts::canonical();
    }
    let mut o = RenderOpts::wild();
    o.allow_shorthand = case.allow("shorthand_query");
    o.allow_eof_comment_no_newline = case.allow("eof_comment_no_newline");
    o.allow_surrogate_escape = case.allow("surrogate_escape");
    o.allow_cooked_block = case.allow("block_string_cooked");
    o
}

pub fn normalize_op_doc(doc: &MOpDoc) -> MOpDoc {
    doc.iter()
        .map(|d| match d {
            MExecDef::Op(o) => {
                let mut o = o.clone();
                o.shorthand = false;
                MExecDef::Op(o)
            }
            d => d.clone(),
        })
        .collect()
}

fn first_diff<X: PartialEq + std::fmt::Debug>(a: &[X], b: &[X]) -> String {
    if a.len() != b.len() {
        return format!("definition count {} vs {}", a.len(), b.len());
    }
    for (i, (x, y)) in a.iter().zip(b.iter()).enumerate() {
        if x != y {
            return format!("definition #{i}: expected {x:?}\n got {y:?}");
        }
    }
    "no difference".into()
}

/// classify which component differs, for stable signatures
fn diff_sig(expected: &str, got: &str) -> &'static str {
    // the two Debug strings; find first differing position and look at context keywords
    let e: Vec<char> = expected.chars().collect();
    let g: Vec<char> = got.chars().collect();
    let mut i = 0;
    while i < e.len() && i < g.len() && e[i] == g[i] {
        i += 1;
    }
    let ctx: String = e[..i].iter().collect();
    let last = |k: &str| ctx.rfind(k).map(|p| p as i64).unwrap_or(-1);
    let cands = [
        ("Str(", "string-value"),
        ("desc:", "description"),
        ("alias:", "alias"),
        ("default:", "default-value"),
        ("directives:", "directives"),
        ("implements:", "implements"),
        ("members:", "members"),
        ("values:", "enum-values"),
        ("locations:", "locations"),
        ("repeatable:", "repeatable"),
        ("ty:", "type"),
        ("args:", "arguments"),
        ("vars:", "variables"),
        ("targets:", "import-targets"),
        ("path:", "import-path"),
        ("roots:", "roots"),
    ];
    let mut best = ("", "structure");
    let mut best_pos = -1;
    for (k, name) in cands {
        let p = last(k);
        if p > best_pos {
            best_pos = p;
            best = (k, name);
        }
    }
    best.1
}

pub fn check_positions(
    recs: &[PosRec],
    r: &Rendered,
    detail: &Value,
    stats: &mut (u64, u64),
) -> Result<(), Failure> {
    for rec in recs {
        if rec.builtin {
            return Err(Failure::new(
                "position-builtin",
                format!("{} carries a builtin position", rec.what),
                detail.clone(),
            ));
        }
        let mut ok = false;
        let mut skipped = false;
        for t in &r.tokens {
            if t.line < rec.line && !t.after_lone_cr {
                continue;
            }
            let text_ok = if rec.expect == "\"" {
                t.kind == TokKind::Str
            } else if rec.what == "operation" {
                t.text == rec.expect || t.text == "{"
            } else {
                t.text == rec.expect
            };
            if !text_ok {
                continue;
            }
            if t.after_lone_cr {
                // pest does not treat a lone CR as a line terminator; the spec does. The
                // position oracle abstains after a lone CR (counted).
                skipped = true;
                continue;
            }
            if t.line == rec.line && (t.col == rec.col || t.col16 == rec.col || t.col_nobom == rec.col) {
                ok = true;
                break;
            }
        }
        if ok {
            stats.0 += 1;
        } else if skipped {
            stats.1 += 1;
        } else {
            return Err(Failure::new(
                format!("position-not-at-token:{}", rec.what),
                format!(
                    "{} reported at {}:{} but no token {:?} starts there",
                    rec.what, rec.line, rec.col, rec.expect
                ),
                detail.clone(),
            ));
        }
    }
    Ok(())
}

fn classify(case: &mut Case, r: &Rendered, kinds: usize, key: &str) {
    let s = &r.stats;
    if s.comments > 0 {
        case.label("has-comment");
    }
    if s.commas > 0 {
        case.label("has-comma-trivia");
    }
    if s.escapes > 0 {
        case.label("has-escape");
    }
    if s.block_strings > 0 {
        case.label("has-block-string");
    }
    if s.boms > 0 {
        case.label("has-bom");
    }
    if s.crlf > 0 {
        case.label("has-crlf");
    }
    if s.lone_cr > 0 {
        case.label("has-lone-cr");
    }
    if s.lead_pipe_amp > 0 {
        case.label("has-leading-pipe-or-amp");
    }
    if s.shorthand > 0 {
        case.label("has-shorthand");
    }
    if s.import_like > 0 {
        case.label("has-import-like-comment");
    }
    if s.comments > 0 && s.commas > 0 && (s.escapes > 0 || s.block_strings > 0) && kinds >= 2 {
        case.nontrivial(&(key, &r.text));
    }
}

pub fn check_op_text(doc: &MOpDoc, r: &Rendered) -> Result<(u64, u64), Failure> {
    let detail = json!({"text": r.text});
    let expected = normalize_op_doc(doc);
    // harness self-test
    match refparse::parse_op_doc(&r.text) {
        Ok(m) if m == expected => {}
        other => panic!(
            "harness self-test: reference parser disagrees with the renderer on {:?}: {:?}",
            r.text, other
        ),
    }
    let parsed = guard(|| parse_operation_document(&r.text).map(|d| {
        let mut ps = PosSink::default();
        let m = c_op_doc_ext(&d, &mut ps);
        (m, ps)
    }))
    .map_err(|p| panic_failure("parse_operation_document", &p, detail.clone()))?;
    let (got, ps) = match parsed {
        Ok(x) => x,
        Err(e) => {
            return Err(Failure::new(
                "rejects-valid-document",
                format!("parse_operation_document rejects a document of the language: {}", e.into_message()),
                detail,
            ));
        }
    };
    if got != expected {
        let d = first_diff(&expected, &got);
        let sig = diff_sig(&format!("{expected:?}"), &format!("{got:?}"));
        return Err(Failure::new(format!("wrong-document:{sig}"), d, detail));
    }
    let mut st = (0, 0);
    check_positions(&ps.recs, r, &detail, &mut st)?;
    Ok(st)
}

pub fn check_ts_text(doc: &MTsDoc, r: &Rendered) -> Result<(u64, u64), Failure> {
    let detail = json!({"text": r.text});
    match refparse::parse_ts_doc(&r.text) {
        Ok(m) if &m == doc => {}
        other => panic!(
            "harness self-test: reference parser disagrees with the renderer on {:?}: {:?}",
            r.text, other
        ),
    }
    let parsed = guard(|| parse_type_system_document(&r.text).map(|d| {
        let mut ps = PosSink::default();
        let m = c_ts_ext_doc(&d, &mut ps);
        (m, ps)
    }))
    .map_err(|p| panic_failure("parse_type_system_document", &p, detail.clone()))?;
    let (got, ps) = match parsed {
        Ok(x) => x,
        Err(e) => {
            return Err(Failure::new(
                "rejects-valid-document",
                format!("parse_type_system_document rejects a document of the language: {}", e.into_message()),
                detail,
            ));
        }
    };
    if &got != doc {
        let d = first_diff(doc, &got);
        let sig = diff_sig(&format!("{doc:?}"), &format!("{got:?}"));
        return Err(Failure::new(format!("wrong-document:{sig}"), d, detail));
    }
    let mut st = (0, 0);
    check_positions(&ps.recs, r, &detail, &mut st)?;
    Ok(st)
}

fn op_case(case: &mut Case) -> CaseResult {
    let wild = case.ch.chance(3, 4);
    let doc = g_op_doc(&mut case.ch, true);
    let opts = render_opts_for(case, wild);
    let r = render_op_doc(&doc, opts, Some(&mut case.ch));
    let (checked, skipped) = check_op_text(&doc, &r)?;
    case.evals(1 + checked);
    if skipped > 0 {
        case.label("positions-skipped-after-lone-cr");
    }
    let kinds = doc
        .iter()
        .map(|d| std::mem::discriminant(d))
        .collect::<std::collections::HashSet<_>>()
        .len();
    classify(case, &r, kinds, "op");
    case.sample(|| json!({"text": r.text}));
    Ok(())
}

/// Large documents (hundreds of kilobytes to a few megabytes, the size of real-world schemas): a generated document
/// repeated until the target size is reached (the parser does not care about repeated names). Oracle: the text is
/// accepted, the number of definitions is the expected one, the last definition is the right one and sits on the
/// right line.
fn large_case(case: &mut Case) -> CaseResult {
    let is_ts = case.ch.flip();
    let target = [300_000usize, 600_000, 1_200_000, 2_500_000][case.ch.below(4)];
    let (unit, n_defs): (String, usize) = if is_ts {
        let so = SynOpts { bare_object: false, bare_union: false };
        let doc = g_ts_doc_with(&mut case.ch, so);
        let mut o = RenderOpts::canonical();
        // descriptions as block strings are what makes real schemas expensive to parse
        o.random_strings = case.ch.flip();
        o.allow_block = true;
        (render_ts_doc(&doc, o, Some(&mut case.ch)).text, doc.len())
    } else {
        let doc: MOpDoc = g_op_doc(&mut case.ch, false);
        (render_op_doc(&doc, RenderOpts::canonical(), Some(&mut case.ch)).text, doc.len())
    };
    if n_defs == 0 || unit.is_empty() {
        return Ok(());
    }
    let unit = if unit.ends_with('\n') { unit } else { format!("{unit}\n") };
    let reps = (target / unit.len()).max(2);
    let text = unit.repeat(reps);
    let lines_per_unit = unit.matches('\n').count();
    let detail = json!({"unit": unit, "repetitions": reps, "bytes": text.len()});
    let t0 = std::time::Instant::now();
    let (count, last_line): (usize, usize) = if is_ts {
        let r = guard(|| {
            parse_type_system_document(&text).map(|d| {
                let mut ps = PosSink::default();
                let m = c_ts_ext_doc(&d, &mut ps);
                (m.len(), ps.recs.iter().map(|r| r.line).max().unwrap_or(0))
            })
        })
            .map_err(|p| panic_failure("parse_type_system_document", &p, detail.clone()))?;
        match r {
            Ok(x) => x,
            Err(e) => return Err(Failure::new("rejects-valid-document:large", format!("a type system document of {} bytes ({} definitions) is rejected: {}", text.len(), n_defs * reps, e.into_message().chars().take(200).collect::<String>()), detail)),
        }
    } else {
        let r = guard(|| {
            parse_operation_document(&text).map(|d| {
                let mut ps = PosSink::default();
                let m = c_op_doc_ext(&d, &mut ps);
                (m.len(), ps.recs.iter().map(|r| r.line).max().unwrap_or(0))
            })
        })
            .map_err(|p| panic_failure("parse_operation_document", &p, detail.clone()))?;
        match r {
            Ok(x) => x,
            Err(e) => return Err(Failure::new("rejects-valid-document:large", format!("an operation document of {} bytes ({} definitions) is rejected: {}", text.len(), n_defs * reps, e.into_message().chars().take(200).collect::<String>()), detail)),
        }
    };
    case.evals(1);
    if count != n_defs * reps {
        return Err(Failure::new("wrong-document:large:definition-count", format!("{count} definitions, expected {}", n_defs * reps), detail));
    }
    // the largest reported line lies in the last repetition
    let lo = lines_per_unit * (reps - 1);
    if last_line < lo || last_line >= lines_per_unit * reps {
        return Err(Failure::new("wrong-position:large", format!("the largest reported line is {last_line}, expected within {lo}..{}", lines_per_unit * reps), detail));
    }
    case.label(if is_ts { "type-system" } else { "operations" });
    case.label(&format!("target-{}kB", target / 1000));
    if t0.elapsed().as_secs() >= 20 {
        case.label("slow(>=20s)");
    }
    case.nontrivial(&(&unit, reps));
    case.sample(|| json!({"bytes": text.len(), "definitions": count, "seconds": t0.elapsed().as_secs_f64()}));
    Ok(())
}

fn ts_case(case: &mut Case) -> CaseResult {
    let wild = case.ch.chance(3, 4);
    let so = SynOpts {
        bare_object: case.allow("bare_object_type"),
        bare_union: case.allow("bare_union_type"),
    };
    let doc = g_ts_doc_with(&mut case.ch, so);
    let opts = render_opts_for(case, wild);
    let r = render_ts_doc(&doc, opts, Some(&mut case.ch));
    let (checked, skipped) = check_ts_text(&doc, &r)?;
    case.evals(1 + checked);
    if skipped > 0 {
        case.label("positions-skipped-after-lone-cr");
    }
    let kinds = doc
        .iter()
        .map(|d| match d {
            MTsDef::Type(t) | MTsDef::TypeExt(t) => t.kind as usize,
            MTsDef::Schema(_) | MTsDef::SchemaExt(_) => 10,
            MTsDef::Directive(_) => 11,
        })
        .collect::<std::collections::HashSet<_>>()
        .len();
    classify(case, &r, kinds, "ts");
    case.sample(|| json!({"text": r.text}));
    Ok(())
}

fn probe_text_op(text: &str, expect: MOpDoc) -> CaseResult {
    let detail = json!({"text": text});
    let r = guard(|| parse_operation_document(text).map(|d| c_op_doc_ext(&d, &mut PosSink::default())))
        .map_err(|p| panic_failure("parse_operation_document", &p, detail.clone()))?;
    match r {
        Ok(m) if m == expect => Ok(()),
        Ok(m) => Err(Failure::new("wrong-document", format!("got {m:?}"), detail)),
        Err(e) => Err(Failure::new("rejects-valid-document", e.into_message(), detail)),
    }
}

fn probe_text_ts(text: &str, expect: MTsDoc) -> CaseResult {
    let detail = json!({"text": text});
    let r = guard(|| parse_type_system_document(text).map(|d| c_ts_ext_doc(&d, &mut PosSink::default())))
        .map_err(|p| panic_failure("parse_type_system_document", &p, detail.clone()))?;
    match r {
        Ok(m) if m == expect => Ok(()),
        Ok(m) => Err(Failure::new("wrong-document", format!("got {m:?}"), detail)),
        Err(e) => Err(Failure::new("rejects-valid-document", e.into_message(), detail)),
    }
}

fn field(name: &str) -> MSelection {
    MSelection::Field(MFieldSel { alias: None, name: name.into(), args: vec![], directives: vec![], sel: None })
}
fn query(sel: Vec<MSelection>) -> MExecDef {
    MExecDef::Op(MOperation { op: OpType::Query, name: None, vars: vec![], directives: vec![], sel, shorthand: false })
}

pub fn run(env: &Env) -> i32 {
    let mut rep = Report::new(
        env,
        "exploration",
        "abstract operation / type-system documents from a syntactic generator covering every production (values, types, directives, variable definitions, fragments, #import, all 7 definition kinds and their extensions, schema definitions/extensions, directive definitions) rendered canonically (25%) or with random legal trivia and string spellings (75%). Oracle: structural equality of nitrogql's AST (converted) with the generated model, and every reported position must be the start of a token of the right text in the renderer's token table. Non-trivial: rendering has a comment AND comma-trivia AND an escape/block string AND >=2 definition kinds; distinct = text.",
    );
    rep.assume("columns are compared in Unicode scalar values; when a BOM or astral character precedes the token on its line the UTF-16 and BOM-less readings are accepted too (the statement does not fix the unit)");
    rep.assume("positions after a lone CR line terminator are not compared (pest and the spec disagree on whether CR alone ends a line); the structural oracle still applies");
    rep.assume("trivia inside an #import line is limited to spaces between `#` and `import` and to spaces, tabs, commas and the BOM between the other parts (the extension's syntax is documented as a single comment-like line)");
    rep.assume("raw control characters other than TAB/LF/CR are never emitted unescaped (outside SourceCharacter in the October-2021 spec)");

    // known-finding probes (minimal inputs)
    rep.probe("C07-shorthand-query", || probe_text_op("{ a }", vec![query(vec![field("a")])]));
    rep.probe("C07-eof-comment", || probe_text_op("query { a } # c", vec![query(vec![field("a")])]));
    rep.probe("C07-surrogate-escape", || {
        probe_text_op(
            "query { a(x: \"\\uD83D\\uDE00\") }",
            vec![query(vec![MSelection::Field(MFieldSel {
                alias: None,
                name: "a".into(),
                args: vec![("x".into(), MValue::Str("\u{1F600}".into()))],
                directives: vec![],
                sel: None,
            })])],
        )
    });
    rep.probe("C07-block-string-raw", || {
        probe_text_op(
            "query { a(x: \"\"\"\n  hello\n  \"\"\") }",
            vec![query(vec![MSelection::Field(MFieldSel {
                alias: None,
                name: "a".into(),
                args: vec![("x".into(), MValue::Str("hello".into()))],
                directives: vec![],
                sel: None,
            })])],
        )
    });

    rep.probe("C07-bare-union", || probe_text_ts("union U", vec![MTsDef::Type(MTypeDef::new(Kind::Union, "U"))]));
    rep.probe("C07-bare-object", || probe_text_ts("type X", vec![MTsDef::Type(MTypeDef::new(Kind::Object, "X"))]));

    rep.campaign("op-docs", env.cases(60_000, 1_000_000), (0, 500), op_case);
    rep.campaign("ts-docs", env.cases(60_000, 1_000_000), (0, 500), ts_case);
    rep.note("campaign large-documents: a generated document repeated up to 0.3 / 0.6 / 1.2 / 2.5 MB (real-world schema sizes); accepted, right number of definitions, last definition on the right line");
    rep.campaign("large-documents", env.cases(16, 120), (0, 200), large_case);
    rep.merge_fuzz_summary();
    rep.finish()
}
