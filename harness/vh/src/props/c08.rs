//! C08 — no input text can make the toolchain panic; failures are diagnostics.
//!
//! Every stage reachable from the CLI with text is driven in-process behind catch_unwind
//! (parse, extension resolution, import resolution, check, and — only when check returned no
//! diagnostic — every printer; otherwise diagnostic rendering for every diagnostic), plus
//! `parse_config`, plus the built CLI binary on generated project directories. The loader ABI
//! part lives in vh-loader (`vh-loader C08`).

use crate::choices::Choices;
use crate::cli::{run_cli, Project};
use crate::gen_ops::*;
use crate::gen_schema::*;
use crate::gen_syntax::*;
use crate::model::*;
use crate::pipeline::{nitrogql_builtins, remove_builtins};
use crate::projects::*;
use crate::render::*;
use crate::runner::*;
use graphql_builtins::generate_builtins;
use nitrogql_ast::{set_current_file_of_pos, OperationDocument, TypeSystemDocument, TypeSystemOrExtensionDocument};
use nitrogql_checker::{check_operation_document, check_type_system_document, OperationCheckContext};
use nitrogql_config_file::{parse_config, Config, GenerateMode};
use nitrogql_error::{print_positioned_error, PositionedError};
use nitrogql_parser::{parse_operation_document, parse_type_system_document};
use nitrogql_printer::{
    print_js_for_operation_document, print_types_for_operation_document, GraphQLPrinter, OperationJSPrinterOptions,
    OperationTypePrinterOptions, ResolverTypePrinter, ResolverTypePrinterOptions, SchemaTypePrinter, SchemaTypePrinterOptions,
};
use nitrogql_semantics::{
    ast_to_type_system, resolve_operation_extensions, resolve_operation_imports, resolve_schema_extensions, OperationExtension,
    OperationResolver,
};
use serde_json::{json, Value};
use sourcemap_writer::{print_source_map_json, JsStringWriter, SourceWriter};
use std::collections::HashMap;
use std::path::{Path, PathBuf};
use std::sync::Mutex;
use std::time::{Duration, Instant};

// ---------------------------------------------------------------------------
// in-flight table for the termination oracle

static INFLIGHT: Mutex<Vec<(u64, Instant, String, Vec<u16>)>> = Mutex::new(Vec::new());

fn thread_key() -> u64 {
    hash_of(&std::thread::current().id())
}

struct InflightGuard(u64);
impl InflightGuard {
    fn enter(campaign: &str, choices: &[u16]) -> InflightGuard {
        let k = thread_key();
        let mut t = INFLIGHT.lock().unwrap();
        t.retain(|e| e.0 != k);
        t.push((k, Instant::now(), campaign.to_string(), choices.to_vec()));
        InflightGuard(k)
    }
}
impl Drop for InflightGuard {
    fn drop(&mut self) {
        if let Ok(mut t) = INFLIGHT.lock() {
            t.retain(|e| e.0 != self.0);
        }
    }
}

/// seconds a single case (input <= 8 KiB per file) may take before it is re-run in a fresh process
const CASE_LIMIT_S: u64 = 30;

fn start_termination_monitor(env: &Env) {
    if env.replay.is_some() {
        return;
    }
    let seed = env.seed;
    std::thread::spawn(move || loop {
        std::thread::sleep(Duration::from_millis(500));
        let stuck = {
            let t = INFLIGHT.lock().unwrap();
            t.iter().find(|e| e.1.elapsed().as_secs() >= CASE_LIMIT_S).map(|e| (e.2.clone(), e.3.clone()))
        };
        let Some((campaign, choices)) = stuck else { continue };
        let dir = format!("{VERIF}/replays/C08");
        let _ = std::fs::create_dir_all(&dir);
        let path = format!("{dir}/{campaign}-timeout-{:012x}.json", hash_of(&choices) & 0xffff_ffff_ffff);
        let body = json!({"property": "C08", "campaign": campaign, "seed": seed, "choices": choices,
            "signature": "timeout", "message": format!("a case did not finish within {CASE_LIMIT_S}s"), "detail": null});
        let _ = std::fs::write(&path, serde_json::to_string_pretty(&body).unwrap());
        // confirm twice in a fresh process before reporting
        let mut confirmed = 0;
        for _ in 0..2 {
            let exe = std::env::current_exe().unwrap();
            let mut child = std::process::Command::new(exe)
                .args(["C08", "--replay", &path])
                .stdout(std::process::Stdio::null())
                .stderr(std::process::Stdio::null())
                .spawn()
                .unwrap();
            let t0 = Instant::now();
            loop {
                match child.try_wait() {
                    Ok(Some(_)) => break,
                    _ if t0.elapsed().as_secs() >= CASE_LIMIT_S => {
                        let _ = child.kill();
                        let _ = child.wait();
                        confirmed += 1;
                        break;
                    }
                    _ => std::thread::sleep(Duration::from_millis(100)),
                }
            }
        }
        if confirmed == 2 {
            println!("  failure[{campaign}] timeout: a case did not terminate within {CASE_LIMIT_S}s (confirmed twice in a fresh process)");
            println!("VIOLATION property=C08 replay={path}");
            std::process::exit(1);
        } else {
            println!("INCONCLUSIVE property=C08 a case exceeded {CASE_LIMIT_S}s here but not in a fresh process (machine load?) replay={path}");
            std::process::exit(2);
        }
    });
}

// ---------------------------------------------------------------------------
// the pipeline (cli/src/{check,generate}.rs order), every stage guarded

struct Ops<'a, 'src> {
    by_path: HashMap<&'a Path, (&'a OperationDocument<'src>, &'a OperationExtension<'src>)>,
}
impl<'src> OperationResolver<'src> for Ops<'_, 'src> {
    fn resolve(&self, path: &Path) -> Option<(&OperationDocument<'src>, &OperationExtension<'src>)> {
        self.by_path.get(path).copied()
    }
}

#[derive(Default, Debug, Clone)]
pub struct Reached {
    pub schema_parsed: bool,
    pub schema_checked: bool,
    pub ops_parsed: bool,
    pub ops_checked: bool,
    pub generated: bool,
    pub diagnostics: usize,
    pub rendered: usize,
    /// introspection route only: the schema is not a valid type system and the case stopped there
    pub excluded_invalid_json_schema: bool,
}

fn render_errors(errs: Vec<PositionedError>, files: &Vec<(PathBuf, &str, ())>, detail: &Value, reached: &mut Reached) -> Result<(), Failure> {
    for e in errs {
        reached.diagnostics += 1;
        let out = guard(|| print_positioned_error(&e, files)).map_err(|p| panic_failure("print_positioned_error", &p, detail.clone()))?;
        if !out.is_empty() {
            reached.rendered += 1;
        }
    }
    Ok(())
}

/// Runs everything `nitrogql check` + `nitrogql generate` would run on these texts.
pub fn run_pipeline(
    schema_files: &[(PathBuf, String)],
    op_files: &[(PathBuf, String)],
    config: &Config,
    detail: &Value,
) -> Result<Reached, Failure> {
    let mut reached = Reached::default();
    let files: Vec<(PathBuf, &str, ())> = schema_files.iter().chain(op_files.iter()).map(|(p, t)| (p.clone(), t.as_str(), ())).collect();
    // ---- schema
    let mut docs = vec![];
    let mut errs: Vec<PositionedError> = vec![];
    for (i, (_, text)) in schema_files.iter().enumerate() {
        set_current_file_of_pos(i);
        match guard(|| parse_type_system_document(text)).map_err(|p| panic_failure("parse_type_system_document", &p, detail.clone()))? {
            Ok(d) => docs.push(d),
            Err(e) => errs.push(e.into()),
        }
    }
    if !errs.is_empty() {
        render_errors(errs, &files, detail, &mut reached)?;
        return Ok(reached);
    }
    reached.schema_parsed = true;
    let mut merged = TypeSystemOrExtensionDocument::merge(docs);
    merged.extend(generate_builtins());
    merged.extend(nitrogql_builtins());
    let sdoc: TypeSystemDocument =
        match guard(|| resolve_schema_extensions(merged)).map_err(|p| panic_failure("resolve_schema_extensions", &p, detail.clone()))? {
            Ok(d) => d,
            Err(e) => {
                render_errors(vec![e.into()], &files, detail, &mut reached)?;
                return Ok(reached);
            }
        };
    let cerrs = guard(|| check_type_system_document(&sdoc)).map_err(|p| panic_failure("check_type_system_document", &p, detail.clone()))?;
    reached.schema_checked = true;
    let schema_ok = cerrs.is_empty();
    render_errors(cerrs.into_iter().map(Into::into).collect(), &files, detail, &mut reached)?;
    if !schema_ok {
        return Ok(reached);
    }
    ops_and_generate(&sdoc, None, schema_files.len(), op_files, &files, config, detail, reached)
}

/// The same for a schema given as an introspection result (a `.json` schema file): the CLI reads it with
/// schema_from_introspection_json, runs no schema check, checks operations against the schema value and
/// prints from `type_system_to_ast(&value)`.
pub fn run_pipeline_json(
    json_text: &str,
    op_files: &[(PathBuf, String)],
    config: &Config,
    detail: &Value,
    // open finding C08-introspection-invalid-schema-unchecked: stop where nitrogql's own type-system checker
    // (which the CLI does not run on such schemas) would have stopped
    gate_invalid_schema: bool,
) -> Result<Reached, Failure> {
    let mut reached = Reached::default();
    let jfile = vec![(PathBuf::from("/p/schema.json"), json_text.to_string())];
    let files: Vec<(PathBuf, &str, ())> = jfile.iter().chain(op_files.iter()).map(|(p, t)| (p.clone(), t.as_str(), ())).collect();
    let r = guard(|| nitrogql_introspection::schema_from_introspection_json::<nitrogql_ast::base::Pos>(json_text))
        .map_err(|p| panic_failure("schema_from_introspection_json", &p, detail.clone()))?;
    let Ok(value) = r else {
        reached.diagnostics += 1;
        return Ok(reached);
    };
    reached.schema_parsed = true;
    let sdoc = guard(|| nitrogql_semantics::type_system_to_ast(&value)).map_err(|p| panic_failure("type_system_to_ast", &p, detail.clone()))?;
    // nitrogql's type-system checker on the re-created AST (never a panic; the `__` names of the meta types
    // an introspection result lists are not faults)
    let cerrs = guard(|| check_type_system_document(&sdoc)).map_err(|p| panic_failure("check_type_system_document", &p, detail.clone()))?;
    let invalid = cerrs.iter().any(|e| !matches!(e.message, nitrogql_checker::CheckErrorMessage::UnscoUnsco));
    // the open finding is about results that are self-consistent (every reference names a listed type of a kind that
    // may stand there - what schema_from_introspection_json itself verifies) but not valid type systems; a result
    // that is not even self-consistent and was accepted all the same goes on to the printers
    if invalid && gate_invalid_schema && introspection_self_consistent(json_text) {
        reached.excluded_invalid_json_schema = true;
        return Ok(reached);
    }
    reached.schema_checked = true;
    ops_and_generate(&sdoc, Some(&value), 1, op_files, &files, config, detail, reached)
}

/// reference version of the loader's consistency rule: root types are listed objects; field types are listed output
/// types, argument / input field types listed input types, `interfaces` listed interfaces, `possibleTypes` listed
/// objects (following `ofType` through LIST and NON_NULL only). Shapes the deserialiser rejects anyway are skipped.
pub fn introspection_self_consistent(json_text: &str) -> bool {
    let Ok(v) = serde_json::from_str::<Value>(json_text) else { return true };
    let sch = &v["__schema"];
    let Some(types) = sch["types"].as_array() else { return true };
    let mut kinds: HashMap<&str, &str> = HashMap::new();
    for t in types {
        if let (Some(n), Some(k)) = (t["name"].as_str(), t["kind"].as_str()) {
            kinds.insert(n, k);
        }
    }
    const OUT: &[&str] = &["SCALAR", "OBJECT", "INTERFACE", "UNION", "ENUM"];
    const INP: &[&str] = &["SCALAR", "ENUM", "INPUT_OBJECT"];
    let name_ok = |n: &str, allowed: &[&str]| kinds.get(n).map(|k| allowed.contains(k)).unwrap_or(false);
    let ref_ok = |r: &Value, allowed: &[&str]| -> bool {
        let mut r = r;
        while matches!(r["kind"].as_str(), Some("LIST") | Some("NON_NULL")) {
            if r["ofType"].is_null() {
                return true;
            }
            r = &r["ofType"];
        }
        match r["name"].as_str() {
            Some(n) => name_ok(n, allowed),
            None => true,
        }
    };
    let inputs_ok = |vals: &Value| vals.as_array().map(|a| a.iter().all(|x| ref_ok(&x["type"], INP))).unwrap_or(true);
    for k in ["queryType", "mutationType", "subscriptionType"] {
        if let Some(n) = sch[k]["name"].as_str() {
            if !name_ok(n, &["OBJECT"]) {
                return false;
            }
        }
    }
    for t in types {
        for f in t["fields"].as_array().into_iter().flatten() {
            if !ref_ok(&f["type"], OUT) || !inputs_ok(&f["args"]) {
                return false;
            }
        }
        if t["interfaces"].as_array().into_iter().flatten().any(|i| !ref_ok(i, &["INTERFACE"])) {
            return false;
        }
        if t["possibleTypes"].as_array().into_iter().flatten().any(|i| !ref_ok(i, &["OBJECT"])) {
            return false;
        }
        if !inputs_ok(&t["inputFields"]) {
            return false;
        }
    }
    sch["directives"].as_array().into_iter().flatten().all(|d| inputs_ok(&d["args"]))
}

#[allow(clippy::too_many_arguments)]
fn ops_and_generate(
    sdoc: &TypeSystemDocument,
    schema_value: Option<&graphql_type_system::Schema<std::borrow::Cow<'_, str>, nitrogql_ast::base::Pos>>,
    n_schema: usize,
    op_files: &[(PathBuf, String)],
    files: &Vec<(PathBuf, &str, ())>,
    config: &Config,
    detail: &Value,
    mut reached: Reached,
) -> Result<Reached, Failure> {
    // ---- operations
    let mut parsed = vec![];
    let mut errs: Vec<PositionedError> = vec![];
    for (i, (path, text)) in op_files.iter().enumerate() {
        set_current_file_of_pos(n_schema + i);
        match guard(|| parse_operation_document(text)).map_err(|p| panic_failure("parse_operation_document", &p, detail.clone()))? {
            Ok(d) => parsed.push((path.clone(), d, n_schema + i)),
            Err(e) => errs.push(e.into()),
        }
    }
    if !errs.is_empty() {
        render_errors(errs, files, detail, &mut reached)?;
        return Ok(reached);
    }
    reached.ops_parsed = true;
    let mut step1 = vec![];
    let mut errs: Vec<PositionedError> = vec![];
    for (path, doc, idx) in parsed {
        match guard(|| resolve_operation_extensions(doc)).map_err(|p| panic_failure("resolve_operation_extensions", &p, detail.clone()))? {
            Ok((d, e)) => step1.push((path, d, e, idx)),
            Err(e) => errs.push(e.into()),
        }
    }
    if !errs.is_empty() {
        render_errors(errs, files, detail, &mut reached)?;
        return Ok(reached);
    }
    let resolver = Ops { by_path: step1.iter().map(|(p, d, e, _)| (p.as_path(), (d, e))).collect() };
    let mut resolved: Vec<(PathBuf, OperationDocument, usize)> = vec![];
    let mut errs: Vec<PositionedError> = vec![];
    for (path, doc, ext, idx) in step1.iter() {
        match guard(|| resolve_operation_imports((path, doc, ext), &resolver))
            .map_err(|p| panic_failure("resolve_operation_imports", &p, detail.clone()))?
        {
            Ok(d) => resolved.push((path.clone(), d, *idx)),
            Err(e) => errs.push(e.into()),
        }
    }
    if !errs.is_empty() {
        render_errors(errs, files, detail, &mut reached)?;
        return Ok(reached);
    }
    let converted;
    let schema = match schema_value {
        Some(v) => v,
        None => {
            converted = guard(|| ast_to_type_system(sdoc)).map_err(|p| panic_failure("ast_to_type_system", &p, detail.clone()))?;
            &converted
        }
    };
    let ctx = OperationCheckContext::new(schema);
    let mut all_ok = true;
    for (_, doc, _) in &resolved {
        let cerrs = guard(|| check_operation_document(doc, &ctx)).map_err(|p| panic_failure("check_operation_document", &p, detail.clone()))?;
        all_ok &= cerrs.is_empty();
        render_errors(cerrs.into_iter().map(Into::into).collect(), files, detail, &mut reached)?;
    }
    reached.ops_checked = true;
    if !all_ok {
        return Ok(reached);
    }
    // ---- generate (only after a passing check, as run_generate does)
    let all_paths: Vec<&Path> = files.iter().map(|f| f.0.as_path()).collect();
    let schema_indices: Vec<usize> = (0..all_paths.len()).map(|i| if i < n_schema { i } else { usize::MAX }).collect();
    guard(|| {
        let options = SchemaTypePrinterOptions::from_config(config);
        let mut writer = SourceWriter::new();
        writer.set_file_index_mapper(schema_indices.clone());
        let mut printer = SchemaTypePrinter::new(options, &mut writer);
        let _ = printer.print_document(sdoc);
        let b = writer.into_buffers();
        let mut map = String::new();
        let _ = print_source_map_json(Path::new("/p/schema.d.ts"), &all_paths[..n_schema], &b.names, &b.source_map, &mut map);
    })
    .map_err(|p| panic_failure("SchemaTypePrinter", &p, detail.clone()))?;
    guard(|| {
        let mut buffer = String::new();
        let mut writer = JsStringWriter::new(&mut buffer);
        remove_builtins(sdoc).print_graphql(&mut writer);
    })
    .map_err(|p| panic_failure("print_graphql(schema)", &p, detail.clone()))?;
    guard(|| {
        let mut options = ResolverTypePrinterOptions::from_config(config);
        options.schema_source = "./schema".into();
        let mut writer = SourceWriter::new();
        writer.set_file_index_mapper(schema_indices.clone());
        let mut printer = ResolverTypePrinter::new(options, &mut writer);
        let plugins: Vec<nitrogql_plugin::Plugin> = vec![];
        let _ = printer.print_document(sdoc, &plugins);
    })
    .map_err(|p| panic_failure("ResolverTypePrinter", &p, detail.clone()))?;
    for (path, doc, idx) in &resolved {
        guard(|| {
            let mut options = OperationTypePrinterOptions::from_config(config);
            options.schema_source = "./schema".into();
            options.print_values = matches!(config.generate.mode, GenerateMode::StandaloneTS4_0);
            let mut writer = SourceWriter::new();
            let indices: Vec<usize> = (0..all_paths.len()).map(|i| if i < n_schema || i == *idx { i.min(n_schema) } else { usize::MAX }).collect();
            writer.set_file_index_mapper(indices);
            print_types_for_operation_document(options, schema, doc, &mut writer);
            let b = writer.into_buffers();
            let mut map = String::new();
            let _ = print_source_map_json(path, &all_paths, &b.names, &b.source_map, &mut map);
        })
        .map_err(|p| panic_failure("print_types_for_operation_document", &p, detail.clone()))?;
        guard(|| {
            let mut writer = SourceWriter::new();
            print_js_for_operation_document(OperationJSPrinterOptions::from_config(config), doc, &mut writer);
        })
        .map_err(|p| panic_failure("print_js_for_operation_document", &p, detail.clone()))?;
        guard(|| {
            let mut buffer = String::new();
            let mut writer = JsStringWriter::new(&mut buffer);
            doc.print_graphql(&mut writer);
        })
        .map_err(|p| panic_failure("print_graphql(operation)", &p, detail.clone()))?;
    }
    reached.generated = true;
    Ok(reached)
}

// ---------------------------------------------------------------------------
// text generators

/// full token vocabulary for soups / replacements
const PUNCT: &[&str] = &["!", "$", "&", "(", ")", "...", ":", "=", "@", "[", "]", "{", "|", "}", ",", "..", ".", "#", "*", "-", "\"", "\"\"\"", "\\"];
const KEYWORDS: &[&str] = &[
    "query", "mutation", "subscription", "fragment", "on", "type", "interface", "union", "enum", "input", "scalar", "schema",
    "extend", "directive", "implements", "repeatable", "true", "false", "null", "import", "from",
];
pub const HOSTILE_TOKENS: &[&str] = &[
    "\"\"\"\n\u{3000}wide indent\n  two\n\"\"\"",
    "\"\"\"\n\u{a0}\u{a0}nbsp\n\ttab\n \u{2003}em\n\"\"\"",
    "\"\"\"\n    deep\n  \u{1F600}astral first\n\"\"\"",
    "\"\u{3000}\"",
    "\"\\u{1F600}\"",
    "\"\\uD83D\\uDE00\"",
    "\"\\uD800\"",
    "\"\\uDC00x\"",
    "\"\\u{110000}\"",
    "\"\\u{}\"",
    "\"\\u12\"",
    "\"\\q\"",
    "\"unterminated",
    "\"\"\"unterminated block",
    "\"\"\"\\\"\"\"\"\"\"",
    "# comment \u{1F600}\n",
    "#\u{3000}wide comment\n",
    "#import * from \"./lib.graphql\"\n",
    "#import A, A from \"./lib.graphql\"\n",
    "#import from from \"./lib.graphql\"\n",
    "# import  *  from  \"\"\n",
    "#import * from \"\"\"./lib.graphql\"\"\"\n",
    "#import",
    "\u{FEFF}",
    "\r",
    "\r\n",
    "\u{0}",
    "\u{2028}",
    "$",
    "$$v",
    "@skip(if: $v)",
    "@include(if: true)",
    "@deprecated(reason: 1)",
    "@nitrogql_ts_type(resolverInput: \"A\", resolverOutput: \"B\", operationInput: \"C\", operationOutput: \"D\")",
    "@specifiedBy(url: \"x\")",
    "__typename",
    "__schema",
    "__type",
    "... on",
    "...",
    "= [",
    "1.",
    "1e",
    "-",
    "0123",
    "9999999999999999999999999999999999999999",
    "1e999999",
    "&",
    "|",
];

pub fn pool_token(ch: &mut Choices) -> String {
    match ch.below(8) {
        0 => ch.pick(PUNCT).to_string(),
        1 => ch.pick(KEYWORDS).to_string(),
        2 => ch.pick(NAMES).to_string(),
        3 => ch.pick(TYPE_NAMES).to_string(),
        4 => match ch.below(4) {
            0 => ch.pick(INTS).to_string(),
            1 => ch.pick(FLOATS).to_string(),
            2 => format!("${}", ch.pick(NAMES)),
            _ => ch.pick(ENUM_VALUES).to_string(),
        },
        5 => quote_plain(*ch.pick(STRINGS)),
        6 => ch.pick(HOSTILE_TOKENS).to_string(),
        _ => ch.pick(&["{", "}", "(", ")", "[", "]", ":", "!", "@", "..."]).to_string(),
    }
}

pub fn token_texts(r: &Rendered) -> Vec<String> {
    r.tokens.iter().map(|t| t.text.clone()).collect()
}

fn is_name_tok(t: &str) -> bool {
    t.chars().next().map(|c| c.is_ascii_alphabetic() || c == '_').unwrap_or(false)
}
fn is_value_tok(t: &str) -> bool {
    t.starts_with('"') || t.chars().next().map(|c| c.is_ascii_digit() || c == '-').unwrap_or(false) || matches!(t, "true" | "false" | "null")
}

/// syntax-preserving mutations: the text still parses (mostly) but means something else
pub fn mutate_tokens_semantic(ch: &mut Choices, toks: &mut Vec<String>) -> usize {
    let k = ch.range(1, 3);
    for _ in 0..k {
        if toks.is_empty() {
            return 0;
        }
        let names: Vec<usize> = (0..toks.len()).filter(|&j| is_name_tok(&toks[j]) && !KEYWORDS[..16].contains(&toks[j].as_str())).collect();
        let values: Vec<usize> = (0..toks.len()).filter(|&j| is_value_tok(&toks[j])).collect();
        let bangs: Vec<usize> = (0..toks.len()).filter(|&j| toks[j] == "!").collect();
        match ch.below(8) {
            0 | 1 | 2 if names.len() >= 2 => {
                // a name becomes another name of the document
                let a = *ch.pick(&names);
                let b = *ch.pick(&names);
                toks[a] = toks[b].clone();
            }
            3 | 4 if !names.is_empty() => {
                let a = *ch.pick(&names);
                toks[a] = if ch.flip() { ch.pick(NAMES).to_string() } else { ch.pick(TYPE_NAMES).to_string() };
            }
            5 if !values.is_empty() => {
                let a = *ch.pick(&values);
                toks[a] = match ch.below(6) {
                    0 => ch.pick(INTS).to_string(),
                    1 => ch.pick(FLOATS).to_string(),
                    2 => quote_plain(*ch.pick(STRINGS)),
                    3 => ch.pick(&["true", "false", "null"]).to_string(),
                    4 => ch.pick(ENUM_VALUES).to_string(),
                    _ => ch.pick(&["[]", "{}", "[1, \"a\"]", "{a: 1}", "[[null]]", "$v", "$c0"]).to_string(),
                };
            }
            6 if !bangs.is_empty() => {
                let a = *ch.pick(&bangs);
                toks.remove(a);
            }
            _ => {
                // duplicate a whole brace-balanced item: find `name {...}` or a single token
                let i = ch.below(toks.len());
                let t = toks[i].clone();
                if is_name_tok(&t) {
                    toks.insert(i, t);
                }
            }
        }
    }
    k
}

/// token-level mutation of a token sequence; returns the number of mutations applied
pub fn mutate_tokens(ch: &mut Choices, toks: &mut Vec<String>, donor: &[String]) -> usize {
    if ch.chance(2, 3) {
        return mutate_tokens_semantic(ch, toks);
    }
    let k = ch.range(1, 3);
    for _ in 0..k {
        if toks.is_empty() {
            toks.push(pool_token(ch));
            continue;
        }
        let i = ch.below(toks.len());
        match ch.below(9) {
            0 => {
                toks.remove(i);
            }
            1 => {
                let t = toks[i].clone();
                toks.insert(i, t);
            }
            2 => {
                if i + 1 < toks.len() {
                    toks.swap(i, i + 1);
                }
            }
            3 | 4 => toks[i] = pool_token(ch),
            5 => toks.insert(i, pool_token(ch)),
            6 => {
                // splice a slice of the donor document
                if !donor.is_empty() {
                    let a = ch.below(donor.len());
                    let n = ch.range(1, 6).min(donor.len() - a);
                    for (j, t) in donor[a..a + n].iter().enumerate() {
                        toks.insert(i + j, t.clone());
                    }
                }
            }
            7 => toks.truncate(i),
            _ => {
                // replace a name by another name occurring in the document (semantic faults)
                let names: Vec<usize> = (0..toks.len()).filter(|&j| toks[j].chars().next().map(|c| c.is_ascii_alphabetic() || c == '_').unwrap_or(false)).collect();
                if names.len() >= 2 {
                    let a = *ch.pick(&names);
                    let b = *ch.pick(&names);
                    toks[a] = toks[b].clone();
                } else {
                    toks[i] = pool_token(ch);
                }
            }
        }
    }
    k
}

/// join tokens with legal-looking separators: spaces, newlines with varied indentation
pub fn join_tokens(ch: &mut Choices, toks: &[String]) -> String {
    let mut s = String::new();
    let mut depth: usize = 0;
    for t in toks {
        if t == "}" {
            depth = depth.saturating_sub(1);
        }
        match ch.below(6) {
            0 | 1 => {
                s.push('\n');
                for _ in 0..depth.min(6) {
                    s.push_str("  ");
                }
            }
            2 => s.push_str("\n\t"),
            _ => s.push(' '),
        }
        s.push_str(t);
        if t == "{" {
            depth += 1;
        }
    }
    s.push('\n');
    s
}

/// character-level mutation
pub fn mutate_chars(ch: &mut Choices, text: &str) -> String {
    const CHARS: &[char] = &[
        '"', '\\', '{', '}', '(', ')', '#', '\n', '\r', '\u{FEFF}', '\u{0}', '\u{3000}', '\u{a0}', '\u{1F600}', '\u{301}', 'u', '$', '@', '.', ' ', '\t', '\u{2028}', '\u{D7FF}',
        '\u{E000}', '\u{10FFFF}', '0', 'e', '-', ':', '!', '&', '|', '=', '[', ']', ',', '*',
    ];
    let mut cs: Vec<char> = text.chars().collect();
    let k = ch.range(1, 4);
    for _ in 0..k {
        let i = if cs.is_empty() { 0 } else { ch.below(cs.len() + 1) };
        match ch.below(4) {
            0 if i < cs.len() => {
                cs.remove(i);
            }
            1 if i < cs.len() => cs[i] = *ch.pick(CHARS),
            2 => cs.truncate(i),
            _ => cs.insert(i.min(cs.len()), *ch.pick(CHARS)),
        }
    }
    cs.into_iter().collect()
}

pub fn soup(ch: &mut Choices, max: usize) -> String {
    let n = ch.range(0, max);
    let toks: Vec<String> = (0..n).map(|_| pool_token(ch)).collect();
    join_tokens(ch, &toks)
}

pub fn unicode_soup(ch: &mut Choices) -> String {
    const CHARS: &[&str] = &[
        "a", "Z", "_", "0", " ", "\n", "\r", "\r\n", "\t", ",", "\"", "\"\"\"", "\\", "\\u", "\\u{", "}", "{", "#", "\u{FEFF}", "\u{0}", "\u{1}", "\u{7f}", "\u{80}", "\u{a0}", "\u{3000}",
        "\u{301}", "\u{200d}", "\u{1F600}", "\u{10FFFF}", "\u{D7FF}", "\u{E000}", "\u{FFFE}", "\u{FFFF}", "\u{2028}", "\u{2029}", "é", "日本", "type", "query", "(", ")", ":", "$", "@", "!",
        "...", "D800", "DC00", "110000", "import", "from", "*",
    ];
    let n = ch.range(0, 60);
    let mut s = String::new();
    for _ in 0..n {
        s.push_str(*ch.pick(CHARS));
    }
    s
}

/// insert a hostile block-string description in front of a definition keyword or a field name
fn insert_description(ch: &mut Choices, toks: &mut Vec<String>) {
    let kw = ["type", "interface", "enum", "input", "scalar", "union", "directive"];
    let spots: Vec<usize> = (0..toks.len()).filter(|&i| kw.contains(&toks[i].as_str()) && (i == 0 || toks[i - 1] != "extend")).collect();
    if spots.is_empty() {
        return;
    }
    let at = *ch.pick(&spots);
    let d = ch.pick(&HOSTILE_TOKENS[..3]).to_string();
    toks.insert(at, d);
}

pub fn configs() -> Vec<Config> {
    let texts = [
        "schema: s.graphql\ndocuments: o.graphql\n",
        "schema: s.graphql\ndocuments: o.graphql\nextensions:\n  nitrogql:\n    generate:\n      mode: standalone-ts-4.0\n      emitSchemaRuntime: true\n      export:\n        defaultExportForOperation: false\n        variablesType: true\n        operationResultType: true\n      name:\n        capitalizeOperationNames: false\n        fragmentTypeSuffix: Frag\n        fragmentVariableSuffix: Doc\n      type:\n        allowUndefinedAsOptionalInput: false\n        scalarTypes:\n          DateTime: string\n          JSON:\n            send: unknown\n            receive: unknown\n",
        "schema: s.graphql\ndocuments: o.graphql\nextensions:\n  nitrogql:\n    generate:\n      mode: with-loader-ts-4.0\n      export:\n        variablesType: true\n",
    ];
    texts.iter().map(|t| parse_config(t).expect("harness config")).collect()
}

// ---------------------------------------------------------------------------
// cases

pub struct Texts {
    pub schema: Vec<(PathBuf, String)>,
    pub ops: Vec<(PathBuf, String)>,
    pub mode: &'static str,
    pub mutated: bool,
}

pub fn cap(s: String) -> String {
    // inputs are bounded to 8 KiB per file (the statement's "ordinary limits")
    if s.len() <= 8192 {
        return s;
    }
    let mut end = 8192;
    while !s.is_char_boundary(end) {
        end -= 1;
    }
    s[..end].to_string()
}

/// nesting depth of brackets in a text (cheap upper bound on parser recursion)
pub fn nesting(text: &str) -> usize {
    let mut d: usize = 0;
    let mut m = 0;
    for c in text.chars() {
        match c {
            '{' | '[' | '(' => {
                d += 1;
                m = m.max(d);
            }
            '}' | ']' | ')' => d = d.saturating_sub(1),
            _ => {}
        }
    }
    m
}

pub fn gen_texts(case: &mut Case, which: u8) -> Texts {
    // which: 0 valid, 1 op token mutation, 2 schema token mutation, 3 char mutation, 4 soups, 5 injected rule violations
    // mutation decisions are drawn first so that they do not depend on how many choices the
    // document generators consume (an exhausted source yields zeros only)
    let mut mch = Choices::new((0..if which >= 4 { 240 } else { 48 }).map(|_| case.ch.raw()).collect());
    let mut so = SchemaGenOpts::default();
    so.descriptions = 2;
    let gs = gen_schema(&mut case.ch, &so);
    let (mut gd, _) = gen_doc(&mut case.ch, &gs.schema, &DocGenOpts::default());
    if which == 5 {
        // semantically faulty but syntactically fine: the C03 fault operators (unknown fields, fragment
        // cycles - also through inline fragments and in subscriptions -, wrong variable types, misplaced
        // directives, ...), one to three of them
        let n = mch.range(1, 3);
        for _ in 0..n {
            let _ = crate::props::c03::inject(&mut mch, &mut gd.doc, &gs.schema);
        }
    }
    let wild = |case: &mut Case| {
        let mut r = if case.ch.chance(2, 3) { RenderOpts::wild() } else { RenderOpts::canonical() };
        r.allow_cooked_block = true;
        r
    };
    let sfiles_m = split_into_extensions(&mut case.ch, &gs.doc);
    let mut schema: Vec<(PathBuf, Rendered)> = vec![];
    for (i, f) in sfiles_m.iter().enumerate() {
        let o = wild(case);
        schema.push((PathBuf::from(format!("/p/schema/s{i}.graphql")), render_ts_doc(f, o, Some(&mut case.ch))));
    }
    // operations: optionally split fragments into a library file
    let frags: MOpDoc = gd.doc.iter().filter(|d| matches!(d, MExecDef::Frag(_))).cloned().collect();
    let ops_only: MOpDoc = gd.doc.iter().filter(|d| matches!(d, MExecDef::Op(_))).cloned().collect();
    let mut op_models: Vec<(PathBuf, MOpDoc)> = vec![];
    if !frags.is_empty() && !ops_only.is_empty() && case.ch.chance(1, 2) {
        let mut main: MOpDoc = vec![MExecDef::Import(MImport { targets: vec![None], path: "./lib.graphql".into() })];
        main.extend(ops_only);
        op_models.push((PathBuf::from("/p/ops/main.graphql"), main));
        op_models.push((PathBuf::from("/p/ops/lib.graphql"), frags));
        case.label("has-import");
    } else {
        op_models.push((PathBuf::from("/p/ops/main.graphql"), gd.doc.clone()));
    }
    let mut ops: Vec<(PathBuf, Rendered)> = vec![];
    for (p, m) in &op_models {
        let o = wild(case);
        ops.push((p.clone(), render_op_doc(m, o, Some(&mut case.ch))));
    }
    let mut mode = "valid";
    let mut mutated = false;
    let mut schema_t: Vec<(PathBuf, String)> = schema.iter().map(|(p, r)| (p.clone(), r.text.clone())).collect();
    let mut ops_t: Vec<(PathBuf, String)> = ops.iter().map(|(p, r)| (p.clone(), r.text.clone())).collect();
    match which {
        1 => {
            mode = "op-token-mutation";
            let i = mch.below(ops.len());
            let mut toks = token_texts(&ops[i].1);
            let donor = token_texts(&ops[mch.below(ops.len())].1);
            mutate_tokens(&mut mch, &mut toks, &donor);
            ops_t[i].1 = join_tokens(&mut mch, &toks);
            mutated = true;
        }
        2 => {
            mode = "schema-token-mutation";
            let i = mch.below(schema.len());
            let mut toks = token_texts(&schema[i].1);
            let donor = token_texts(&schema[mch.below(schema.len())].1);
            if mch.chance(1, 2) {
                insert_description(&mut mch, &mut toks);
            }
            mutate_tokens(&mut mch, &mut toks, &donor);
            schema_t[i].1 = join_tokens(&mut mch, &toks);
            mutated = true;
        }
        3 => {
            mode = "char-mutation";
            if mch.chance(1, 2) {
                let i = mch.below(ops.len());
                ops_t[i].1 = mutate_chars(&mut mch, &ops_t[i].1);
            } else {
                let i = mch.below(schema.len());
                schema_t[i].1 = mutate_chars(&mut mch, &schema_t[i].1);
            }
            mutated = true;
        }
        4 => {
            mode = "soup";
            let uni = mch.chance(1, 3);
            let text = if uni { unicode_soup(&mut mch) } else { soup(&mut mch, 40) };
            if mch.chance(1, 2) {
                let i = mch.below(ops.len());
                ops_t[i].1 = text;
            } else {
                let i = mch.below(schema.len());
                schema_t[i].1 = text;
            }
            mutated = true;
        }
        5 => {
            mode = "semantic-faults";
            mutated = true;
        }
        _ => {}
    }
    for f in schema_t.iter_mut().chain(ops_t.iter_mut()) {
        f.1 = cap(std::mem::take(&mut f.1));
    }
    Texts { schema: schema_t, ops: ops_t, mode, mutated }
}

pub fn pipeline_case(case: &mut Case, campaign: &'static str, which: u8, cfgs: &[Config]) -> CaseResult {
    let _g = InflightGuard::enter(campaign, case.ch.data());
    let t = gen_texts(case, which);
    let cfg = case.ch.pick(cfgs).clone();
    if t.schema.iter().chain(t.ops.iter()).any(|f| nesting(&f.1) > 64) {
        case.discard("nesting beyond ordinary limits");
        return Ok(());
    }
    if exponential_generate(&t.schema, &t.ops) && !case.allow("generate_exponential_nested_merge") {
        // open known finding: excluded by construction (counted in excluded_by_known_finding)
        case.label("excluded:generate-exponential");
        return Ok(());
    }
    let detail = json!({
        "mode": t.mode,
        "schema_files": t.schema.iter().map(|(p, s)| json!({"path": p, "text": s})).collect::<Vec<_>>(),
        "operation_files": t.ops.iter().map(|(p, s)| json!({"path": p, "text": s})).collect::<Vec<_>>(),
    });
    let reached = run_pipeline(&t.schema, &t.ops, &cfg, &detail)?;
    if std::env::var("VH_DEBUG_C08").is_ok() && which == 2 && !reached.schema_parsed {
        for (_, text) in &t.schema {
            if let Err(e) = parse_type_system_document(text) {
                let pe: PositionedError = e.into();
                let files: Vec<(PathBuf, &str, ())> = vec![(PathBuf::from("x"), text.as_str(), ())];
                eprintln!("DEBUG schema parse failure: {}\n=====", print_positioned_error(&pe, &files));
            }
        }
    }
    if std::env::var("VH_DEBUG_C08").is_ok() && which == 1 && !reached.ops_parsed {
        for (_, text) in &t.ops {
            if let Err(e) = parse_operation_document(text) {
                eprintln!("DEBUG op parse failure: {}\n-----\n{}\n=====", e.into_message(), text);
            }
        }
    }
    case.evals(1 + reached.diagnostics as u64);
    case.label(t.mode);
    if reached.generated {
        case.label("reached-generate");
    } else if reached.ops_checked {
        case.label("reached-operation-check");
    } else if reached.ops_parsed {
        case.label("reached-import-resolution");
    } else if reached.schema_checked {
        case.label("reached-schema-check");
    } else if reached.schema_parsed {
        case.label("reached-extension-resolution");
    } else {
        case.label("stopped-at-schema-parse");
    }
    if reached.rendered > 0 {
        case.label("rendered-diagnostics");
    }
    // non-trivial: got beyond the parsers (both schema and operations parsed), or is a mutation that was
    // still rejected with a rendered diagnostic
    if reached.ops_parsed || (t.mutated && reached.rendered > 0) {
        case.nontrivial(&(t.mode, &t.schema, &t.ops));
    }
    case.sample(|| json!({"mode": t.mode, "reached": format!("{reached:?}"), "operation_text": t.ops[0].1.chars().take(300).collect::<String>()}));
    Ok(())
}

/// both parsers on one text, plus the later stages that need no schema, plus rendering of
/// every diagnostic. Returns what was reached and whether either parser accepted the text.
pub fn parsers_only_text(text: &str) -> Result<(Reached, bool), Failure> {
    let detail = json!({"text": text});
    let files: Vec<(PathBuf, &str, ())> = vec![(PathBuf::from("/p/x.graphql"), text, ())];
    let mut reached = Reached::default();
    let mut any_ok = false;
    set_current_file_of_pos(0);
    match guard(|| parse_operation_document(text)).map_err(|p| panic_failure("parse_operation_document", &p, detail.clone()))? {
        Ok(doc) => {
            any_ok = true;
            // the stages that need no schema
            if let Ok((d, _)) = guard(|| resolve_operation_extensions(doc)).map_err(|p| panic_failure("resolve_operation_extensions", &p, detail.clone()))? {
                guard(|| {
                    let mut buffer = String::new();
                    let mut writer = JsStringWriter::new(&mut buffer);
                    d.print_graphql(&mut writer);
                })
                .map_err(|p| panic_failure("print_graphql(operation)", &p, detail.clone()))?;
            }
        }
        Err(e) => render_errors(vec![e.into()], &files, &detail, &mut reached)?,
    }
    match guard(|| parse_type_system_document(text)).map_err(|p| panic_failure("parse_type_system_document", &p, detail.clone()))? {
        Ok(doc) => {
            any_ok = true;
            let r = guard(|| resolve_schema_extensions(doc)).map_err(|p| panic_failure("resolve_schema_extensions", &p, detail.clone()))?;
            match r {
                Ok(d) => {
                    let cerrs = guard(|| check_type_system_document(&d)).map_err(|p| panic_failure("check_type_system_document", &p, detail.clone()))?;
                    render_errors(cerrs.into_iter().map(Into::into).collect(), &files, &detail, &mut reached)?;
                }
                Err(e) => render_errors(vec![e.into()], &files, &detail, &mut reached)?,
            }
        }
        Err(e) => render_errors(vec![e.into()], &files, &detail, &mut reached)?,
    }
    Ok((reached, any_ok))
}

fn parser_only_case(case: &mut Case) -> CaseResult {
    let _g = InflightGuard::enter("parsers", case.ch.data());
    // raw text straight into both parsers + diagnostic rendering of the syntax error
    let mut mch = Choices::new((0..200).map(|_| case.ch.raw()).collect());
    let text = cap(match mch.below(4) {
        0 => unicode_soup(&mut mch),
        1 => soup(&mut mch, 60),
        2 => {
            let doc = g_op_doc(&mut case.ch, true);
            let r = render_op_doc(&doc, RenderOpts::wild(), Some(&mut case.ch));
            if mch.chance(1, 2) {
                let mut toks = token_texts(&r);
                mutate_tokens(&mut mch, &mut toks, &[]);
                join_tokens(&mut mch, &toks)
            } else {
                mutate_chars(&mut mch, &r.text)
            }
        }
        _ => {
            let doc = g_ts_doc_with(&mut case.ch, SynOpts { bare_object: true, bare_union: true });
            let r = render_ts_doc(&doc, RenderOpts::wild(), Some(&mut case.ch));
            if mch.chance(1, 2) {
                let mut toks = token_texts(&r);
                mutate_tokens(&mut mch, &mut toks, &[]);
                join_tokens(&mut mch, &toks)
            } else {
                mutate_chars(&mut mch, &r.text)
            }
        }
    });
    if nesting(&text) > 64 {
        case.discard("nesting beyond ordinary limits");
        return Ok(());
    }
    let (reached, any_ok) = parsers_only_text(&text)?;
    case.evals(2 + reached.diagnostics as u64);
    if any_ok {
        case.label("parsed");
        case.nontrivial(&text);
    } else {
        case.label("rejected");
    }
    case.sample(|| json!({"text": text.chars().take(200).collect::<String>()}));
    Ok(())
}

pub const CONFIG_SEEDS: &[&str] = &[
    "schema: ./schema/*.graphql\ndocuments: ./src/**/*.graphql\n",
    "schema:\n  - a.graphql\n  - b.graphql\ndocuments:\n  - c.graphql\nextensions:\n  nitrogql:\n    plugins:\n      - \"nitrogql:model-plugin\"\n    generate:\n      mode: with-loader-ts-5.0\n      schemaOutput: ./g/schema.d.ts\n      resolversOutput: ./g/resolvers.d.ts\n      serverGraphqlOutput: ./g/schema.ts\n      schemaModuleSpecifier: \"@/schema\"\n      emitSchemaRuntime: true\n      type:\n        scalarTypes:\n          Date: string\n          Big:\n            send: bigint\n            receive: string\n          Four:\n            resolverInput: A\n            resolverOutput: B\n            operationInput: C\n            operationOutput: D\n        allowUndefinedAsOptionalInput: false\n      name:\n        operationResultTypeSuffix: R\n        variablesTypeSuffix: V\n        fragmentTypeSuffix: F\n        capitalizeOperationNames: false\n        queryVariableSuffix: Q\n        mutationVariableSuffix: M\n        subscriptionVariableSuffix: S\n        fragmentVariableSuffix: X\n      export:\n        defaultExportForOperation: false\n        variablesType: true\n        operationResultType: true\n",
    "{\"schema\": \"s.graphql\", \"documents\": [\"o.graphql\"], \"extensions\": {\"nitrogql\": {\"generate\": {\"mode\": \"standalone-ts-4.0\"}}}}",
];
pub const CONFIG_FRAGMENTS: &[&str] = &[
    ":", "- ", "\n", "  ", "[", "]", "{", "}", "\"", "'", "&a", "*a", "!!str", "|", ">", "?", "%", "@", "`", "null", "~", "true", "1", "1.5", "schema", "documents", "extensions", "nitrogql",
    "generate", "mode", "type", "scalarTypes", "send", "receive", "name", "export", "plugins", "with-loader-ts-5.0", "bogus-mode", "\t", "\u{FEFF}", "\u{0}", "---", "...", "<<: *a", "#",
    "\u{1F600}", "resolverInput", "capitalizeOperationNames", "x: &x [*x]",
];

fn config_case(case: &mut Case) -> CaseResult {
    let _g = InflightGuard::enter("config-text", case.ch.data());
    let text = cap(match case.ch.below(4) {
        0 => {
            let seed = case_pick(case, CONFIG_SEEDS);
            mutate_chars(&mut case.ch, seed)
        }
        1 => {
            // line-level mutation: delete / duplicate / re-indent / replace value
            let seed = case_pick(case, CONFIG_SEEDS).to_string();
            let mut lines: Vec<String> = seed.split('\n').map(String::from).collect();
            let k = case.ch.range(1, 3);
            for _ in 0..k {
                if lines.is_empty() {
                    break;
                }
                let i = case.ch.below(lines.len());
                match case.ch.below(5) {
                    0 => {
                        lines.remove(i);
                    }
                    1 => {
                        let l = lines[i].clone();
                        lines.insert(i, l);
                    }
                    2 => lines[i] = format!("  {}", lines[i]),
                    3 => lines[i] = lines[i].trim_start().to_string(),
                    _ => {
                        if let Some(p) = lines[i].find(':') {
                            let v = *case.ch.pick(CONFIG_FRAGMENTS);
                            lines[i] = format!("{}: {}", &lines[i][..p], v);
                        }
                    }
                }
            }
            lines.join("\n")
        }
        2 => {
            let n = case.ch.range(0, 30);
            let mut s = String::new();
            for _ in 0..n {
                s.push_str(*case.ch.pick(CONFIG_FRAGMENTS));
                if case.ch.chance(1, 3) {
                    s.push(' ');
                }
            }
            s
        }
        _ => unicode_soup(&mut case.ch),
    });
    let detail = json!({"config_text": text});
    let r = guard(|| parse_config(&text)).map_err(|p| panic_failure("parse_config", &p, detail.clone()))?;
    case.evals(1);
    if r.is_some() {
        case.label("accepted");
        case.nontrivial(&text);
    } else {
        case.label("rejected");
    }
    case.sample(|| json!({"config_text": text.chars().take(200).collect::<String>(), "accepted": r.is_some()}));
    Ok(())
}

fn case_pick<'a>(case: &mut Case, items: &[&'a str]) -> &'a str {
    items[case.ch.below(items.len())]
}

/// the built binary on a generated project with one mutated input file
fn cli_case(case: &mut Case, base: &Path) -> CaseResult {
    let _g = InflightGuard::enter("cli", case.ch.data());
    let mut po = ProjectOpts::default();
    po.wild_trivia = true;
    po.schema.descriptions = 2;
    let mut mch = Choices::new((0..200).map(|_| case.ch.raw()).collect());
    let mut gp = gen_project(case, &po);
    let command: &[&str] = match mch.below(3) {
        0 => &["check"],
        1 => &["generate"],
        _ => &["check", "generate"],
    };
    let format = *mch.pick(&["human", "json", "rdjson"]);
    let mutation = mch.below(6);
    let mut mode = "valid";
    // (file path relative to the project, byte offset share, bytes) of a non-UTF-8 sequence put into a written file
    let mut raw_bytes: Option<(String, usize, Vec<u8>)> = None;
    match mutation {
        1 => {
            mode = "op-char-mutation";
            let i = mch.below(gp.op_files.len());
            gp.op_files[i].1 = mutate_chars(&mut mch, &gp.op_files[i].1.clone());
        }
        2 => {
            mode = "schema-char-mutation";
            let i = mch.below(gp.schema_files.len());
            gp.schema_files[i].1 = mutate_chars(&mut mch, &gp.schema_files[i].1.clone());
        }
        3 => {
            mode = "soup-file";
            let t = if mch.chance(1, 2) { soup(&mut mch, 30) } else { unicode_soup(&mut mch) };
            if mch.chance(1, 2) {
                let i = mch.below(gp.op_files.len());
                gp.op_files[i].1 = t;
            } else {
                let i = mch.below(gp.schema_files.len());
                gp.schema_files[i].1 = t;
            }
        }
        4 => {
            if mch.chance(1, 3) {
                // a documented option combination instead of a character mutation: the schema types come from a
                // module specifier and no schema declaration file is generated
                mode = "config-module-specifier-without-schema-output";
                let lines: Vec<String> = gp.config.lines().filter(|l| !l.trim_start().starts_with("schemaOutput:") && !l.trim_start().starts_with("resolversOutput:")).map(String::from).collect();
                gp.config = lines.join("\n") + "\n      schemaModuleSpecifier: \"@/generated/schema\"\n";
            } else {
                mode = "config-mutation";
                gp.config = mutate_chars(&mut mch, &gp.config.clone());
            }
        }
        5 => {
            // a file on disk need not be UTF-8 (Latin-1 comment, truncated multi-byte character, UTF-16 BOM)
            mode = "non-utf8-file";
            let rel = match mch.below(3) {
                0 => gp.op_files[mch.below(gp.op_files.len())].0.clone(),
                1 => gp.schema_files[mch.below(gp.schema_files.len())].0.clone(),
                _ => crate::projects::join(&gp.layout.root, "graphql.config.yaml"),
            };
            let bytes: Vec<u8> = match mch.below(5) {
                0 => vec![0xFF],
                1 => vec![0xC3, 0x28],
                2 => vec![0xE3, 0x81],
                3 => vec![0xFF, 0xFE, b'q', 0x00],
                _ => vec![0xED, 0xA0, 0x80],
            };
            raw_bytes = Some((rel, mch.below(1000), bytes));
        }
        _ => {}
    }
    if gp.schema_files.iter().chain(gp.op_files.iter()).any(|f| nesting(&f.1) > 64) {
        case.discard("nesting beyond ordinary limits");
        return Ok(());
    }
    {
        let sf: Vec<(PathBuf, String)> = gp.schema_files.iter().map(|(p, t)| (PathBuf::from(p), t.clone())).collect();
        let of: Vec<(PathBuf, String)> = gp.op_files.iter().map(|(p, t)| (PathBuf::from(p), t.clone())).collect();
        if exponential_generate(&sf, &of) && !case.allow("generate_exponential_nested_merge") {
            case.label("excluded:generate-exponential");
            return Ok(());
        }
    }
    let dir = base.join(format!("p{:016x}", hash_of(&(case.ch.data(), thread_key()))));
    let proj: Project = write_project(&gp, &dir);
    let root = proj.path(&gp.layout.root);
    if let Some((rel, share, bytes)) = &raw_bytes {
        let path = proj.path(rel);
        let mut content = std::fs::read(&path).expect("written file");
        let at = content.len() * share / 1000;
        content.splice(at..at, bytes.iter().copied());
        std::fs::write(&path, content).expect("rewrite file");
    }
    let mut args: Vec<&str> = vec![];
    args.extend_from_slice(command);
    args.extend_from_slice(&["--output-format", format]);
    let t0 = Instant::now();
    let run = run_cli(&root, &args);
    let took = t0.elapsed();
    let detail = json!({
        "mode": mode, "args": args, "config": gp.config,
        "schema_files": gp.schema_files, "operation_files": gp.op_files,
        "raw_bytes": raw_bytes.as_ref().map(|(rel, share, b)| json!({"file": rel, "offset_permille": share, "bytes": b})),
        "status": run.status, "stderr": run.stderr.chars().take(600).collect::<String>(),
        "stdout": run.stdout.chars().take(300).collect::<String>(),
    });
    proj.remove();
    case.evals(1);
    case.label(mode);
    if run.crashed() {
        // signature: panic location without line + message head
        let lines: Vec<&str> = run.stderr.lines().collect();
        let at = lines.iter().position(|l| l.contains("panicked at"));
        let line = at.map(|i| lines[i]).unwrap_or("").to_string();
        let loc: String = line.split("panicked at ").nth(1).unwrap_or("").split(':').next().unwrap_or("").to_string();
        // message head as in PanicInfo::signature (the message follows the `panicked at` line)
        let msg: String = at.map(|i| lines[i + 1..].iter().take(2).cloned().collect::<Vec<_>>().join("\n")).unwrap_or_default();
        let head: String = msg.chars().take_while(|c| !c.is_ascii_digit() && *c != '\'' && *c != '"' && *c != '`').take(48).collect();
        return Err(Failure::new(format!("cli-panic@{}:{}", loc.trim_start_matches("/repo/"), head.trim()), format!("the CLI panicked/aborted: {}", run.stderr.lines().take(3).collect::<Vec<_>>().join(" | ")), detail));
    }
    if !matches!(run.status, Some(0) | Some(1) | Some(2)) {
        return Err(Failure::new("cli-status", format!("unexpected exit status {:?}", run.status), detail));
    }
    if took.as_secs() >= CASE_LIMIT_S {
        return Err(Failure::new("cli-slow", format!("the CLI needed {:?}", took), detail));
    }
    if run.status == Some(0) {
        case.label("cli-exit-0");
    } else {
        case.label("cli-exit-nonzero");
    }
    if mutation == 0 || run.status != Some(0) {
        case.nontrivial(&(mode, &gp.schema_files, &gp.op_files, &gp.config, format));
    }
    case.sample(|| json!({"mode": mode, "args": args, "status": run.status}));
    Ok(())
}

// ---------------------------------------------------------------------------
// introspection JSON as schema text

/// paths of all JSON values satisfying `pred`, in document order
fn json_paths(v: &Value, pred: &dyn Fn(&Value) -> bool, cur: &mut Vec<String>, out: &mut Vec<Vec<String>>) {
    if pred(v) {
        out.push(cur.clone());
    }
    match v {
        Value::Object(m) => {
            for (k, x) in m {
                cur.push(k.clone());
                json_paths(x, pred, cur, out);
                cur.pop();
            }
        }
        Value::Array(a) => {
            for (i, x) in a.iter().enumerate() {
                cur.push(i.to_string());
                json_paths(x, pred, cur, out);
                cur.pop();
            }
        }
        _ => {}
    }
}

fn json_at<'a>(v: &'a mut Value, path: &[String]) -> Option<&'a mut Value> {
    let mut cur = v;
    for k in path {
        cur = match cur {
            Value::Object(m) => m.get_mut(k)?,
            Value::Array(a) => a.get_mut(k.parse::<usize>().ok()?)?,
            _ => return None,
        };
    }
    Some(cur)
}

const JSON_KINDS: &[&str] = &["SCALAR", "OBJECT", "INTERFACE", "UNION", "ENUM", "INPUT_OBJECT", "LIST", "NON_NULL", "THING"];

/// One structural mutation of an introspection result; returns its label.
fn mutate_introspection(ch: &mut Choices, v: &mut Value) -> &'static str {
    if !v["__schema"].is_object() {
        // an earlier mutation replaced the whole member: nothing left to mutate structurally
        return "schema-member-destroyed";
    }
    let is_type_ref = |x: &Value| x.get("kind").is_some() && x.get("ofType").is_some() && x.get("fields").is_none();
    let is_named_ref = |x: &Value| x.get("kind").is_some() && x.get("ofType").is_some() && x.get("fields").is_none() && x.get("name").map(|n| n.is_string()).unwrap_or(false);
    let pick_path = |ch: &mut Choices, v: &Value, pred: &dyn Fn(&Value) -> bool| -> Option<Vec<String>> {
        let mut out = vec![];
        json_paths(v, pred, &mut vec![], &mut out);
        if out.is_empty() { None } else { Some(out[ch.below(out.len())].clone()) }
    };
    match ch.below(13) {
        0 => {
            // a reference to a type the result does not list
            if let Some(p) = pick_path(ch, v, &is_named_ref) {
                json_at(v, &p).unwrap()["name"] = json!("Missing");
            }
            "dangling-type-reference"
        }
        12 => {
            // a named reference that also carries an inner type (only LIST and NON_NULL have one): the name counts
            if let Some(p) = pick_path(ch, v, &is_named_ref) {
                let r = json_at(v, &p).unwrap();
                let old = r["name"].clone();
                let kind = r["kind"].clone();
                r["ofType"] = json!({"kind": kind, "name": old, "ofType": null});
                if ch.flip() {
                    r["name"] = json!("Missing");
                }
            }
            "named-reference-with-inner-type"
        }
        1 => {
            // a reference to an existing type of another kind (the reference keeps its `kind` member)
            let names: Vec<String> = v["__schema"]["types"].as_array().map(|a| a.iter().filter_map(|t| t["name"].as_str().map(String::from)).collect()).unwrap_or_default();
            if let (Some(p), false) = (pick_path(ch, v, &is_named_ref), names.is_empty()) {
                json_at(v, &p).unwrap()["name"] = json!(names[ch.below(names.len())]);
            }
            "reference-to-type-of-other-kind"
        }
        2 => {
            if let Some(a) = v["__schema"]["types"].as_array_mut() {
                if !a.is_empty() {
                    let i = ch.below(a.len());
                    a.remove(i);
                }
            }
            "type-removed"
        }
        3 => {
            if let Some(a) = v["__schema"]["types"].as_array_mut() {
                if !a.is_empty() {
                    let i = ch.below(a.len());
                    let mut c = a[i].clone();
                    if ch.flip() {
                        // same name, another kind
                        c["kind"] = json!(*ch.pick(JSON_KINDS));
                    }
                    a.push(c);
                }
            }
            "type-duplicated"
        }
        4 => {
            let is_def = |x: &Value| x.get("kind").is_some() && x.get("fields").is_some();
            if let Some(p) = pick_path(ch, v, &is_def) {
                json_at(v, &p).unwrap()["kind"] = json!(*ch.pick(JSON_KINDS));
            }
            "definition-kind-changed"
        }
        5 => {
            if let Some(p) = pick_path(ch, v, &is_type_ref) {
                json_at(v, &p).unwrap()["kind"] = json!(*ch.pick(JSON_KINDS));
            }
            "reference-kind-changed"
        }
        6 => {
            // a member becomes null / disappears / changes its JSON type
            let any_obj = |x: &Value| x.is_object() && !x.as_object().unwrap().is_empty();
            if let Some(p) = pick_path(ch, v, &any_obj) {
                let o = json_at(v, &p).unwrap().as_object_mut().unwrap();
                let keys: Vec<String> = o.keys().cloned().collect();
                let k = keys[ch.below(keys.len())].clone();
                match ch.below(5) {
                    0 => {
                        o.remove(&k);
                    }
                    1 => {
                        o.insert(k, Value::Null);
                    }
                    2 => {
                        o.insert(k, json!([]));
                    }
                    3 => {
                        o.insert(k, json!(""));
                    }
                    _ => {
                        o.insert(k, json!({}));
                    }
                }
            }
            "member-nulled-or-retyped"
        }
        7 => {
            let k = *ch.pick(&["queryType", "mutationType", "subscriptionType"]);
            let names: Vec<String> = v["__schema"]["types"].as_array().map(|a| a.iter().filter_map(|t| t["name"].as_str().map(String::from)).collect()).unwrap_or_default();
            let n = if ch.flip() || names.is_empty() { "Missing".to_string() } else { names[ch.below(names.len())].clone() };
            v["__schema"][k] = json!({ "name": n });
            "root-type-changed"
        }
        8 => {
            // names that are not GraphQL names
            let has_name = |x: &Value| x.get("name").map(|n| n.is_string()).unwrap_or(false);
            if let Some(p) = pick_path(ch, v, &has_name) {
                let n = *ch.pick(&["", "a b", "1x", "__proto__", "constructor", "a-b", "\u{1F600}", "type", "Query"]);
                json_at(v, &p).unwrap()["name"] = json!(n);
            }
            "name-not-a-name"
        }
        9 => {
            // default values that are not GraphQL value syntax / of another type
            let has_default = |x: &Value| x.get("defaultValue").is_some();
            if let Some(p) = pick_path(ch, v, &has_default) {
                let d = *ch.pick(&["", "{", "[1,", "\"", "$v", "{a: 1}", "[[[1]]]", "ENUM_X", "null", "1e999", "\"\"\"x"]);
                json_at(v, &p).unwrap()["defaultValue"] = json!(d);
            }
            "default-value-mangled"
        }
        10 => {
            // an element appears twice (field, argument, enum value, interface, possible type, directive location)
            let non_empty_array = |x: &Value| x.as_array().map(|a| !a.is_empty()).unwrap_or(false);
            if let Some(p) = pick_path(ch, v, &non_empty_array) {
                let a = json_at(v, &p).unwrap().as_array_mut().unwrap();
                let i = ch.below(a.len());
                let c = a[i].clone();
                a.push(c);
            }
            "element-duplicated"
        }
        _ => {
            // an array loses all its elements (object without fields, union without members, enum without values)
            let non_empty_array = |x: &Value| x.as_array().map(|a| !a.is_empty()).unwrap_or(false);
            if let Some(p) = pick_path(ch, v, &non_empty_array) {
                json_at(v, &p).unwrap().as_array_mut().unwrap().clear();
            }
            "array-emptied"
        }
    }
}

/// schema text = introspection JSON (valid, structurally mutated or character-mutated); operations valid for the model
fn json_schema_case(case: &mut Case, cfgs: &[Config]) -> CaseResult {
    use crate::introspect::{introspect, IntrospectOpts};
    let _g = InflightGuard::enter("introspection-json", case.ch.data());
    let mut mch = Choices::new((0..120).map(|_| case.ch.raw()).collect());
    let mut so = SchemaGenOpts::default();
    so.comment_close_in_text = case.allow("description_with_comment_close");
    let gs = gen_schema(&mut case.ch, &so);
    let (gd, _) = gen_doc(&mut case.ch, &gs.schema, &DocGenOpts::default());
    let doc = tame_exponential(case, &gs.schema, gd.doc);
    let io = IntrospectOpts { meta_types: mch.flip(), absent_optionals: mch.flip(), shuffle: mch.flip() };
    let js = introspect(&gs.schema, &io, Some(&mut mch));
    let mut labels = vec![];
    let text = match mch.below(8) {
        0 => js,
        1 => {
            labels.push("json-char-mutation");
            mutate_chars(&mut mch, &js)
        }
        _ => {
            let mut v: Value = serde_json::from_str(&js).expect("introspect() renders JSON");
            // servers differ in how they render members that do not apply to a kind (`fields` of a union, ...): null,
            // or an empty list - half of the results use the latter
            if mch.flip() {
                labels.push("inapplicable-members-empty");
                if let Some(types) = v["__schema"]["types"].as_array_mut() {
                    for t in types {
                        for k in ["fields", "interfaces", "possibleTypes", "enumValues", "inputFields"] {
                            if t.get(k).map(|x| x.is_null()).unwrap_or(false) {
                                t[k] = json!([]);
                            }
                        }
                    }
                }
            }
            let n = 1 + mch.below(2);
            for _ in 0..n {
                labels.push(mutate_introspection(&mut mch, &mut v));
            }
            serde_json::to_string(&v).unwrap()
        }
    };
    let cfg = case.ch.pick(cfgs).clone();
    let ops = vec![(PathBuf::from("/p/ops.graphql"), canon_op(&doc))];
    let detail = json!({"mode": labels, "schema_json": text, "operation_files": [{"path": "/p/ops.graphql", "text": ops[0].1}]});
    let gate = case.is_excluded("introspection_invalid_schema");
    let reached = match run_pipeline_json(&text, &ops, &cfg, &detail, gate) {
        Ok(r) => r,
        Err(f) if std::env::var("VH_DEBUG_JSON").map(|v| v == "1" || f.signature.contains(&v)).unwrap_or(false) => {
            case.label(&format!("DEBUG {} <- {:?}", f.signature, labels));
            return Ok(());
        }
        Err(f) => return Err(f),
    };
    case.evals(1);
    if labels.is_empty() {
        case.label("valid-json");
    }
    for l in &labels {
        case.label(l);
    }
    if reached.excluded_invalid_json_schema {
        // counted in excluded_by_known_finding
        let _ = case.allow("introspection_invalid_schema");
        case.label("excluded:invalid-schema-unchecked");
    }
    if reached.schema_parsed {
        case.label("json-accepted");
    } else {
        case.label("json-rejected");
    }
    if reached.ops_checked {
        case.label("operations-checked");
    }
    if reached.generated {
        case.label("generated");
    }
    if reached.schema_parsed && !labels.is_empty() {
        case.nontrivial(&(&text, &ops[0].1));
    }
    case.sample(|| json!({"mutations": labels, "accepted": reached.schema_parsed, "generated": reached.generated}));
    Ok(())
}

fn text_probe(op: bool, text: &str) -> CaseResult {
    let detail = json!({"text": text});
    if op {
        guard(|| parse_operation_document(text).map(|_| ())).map_err(|p| panic_failure("parse_operation_document", &p, detail.clone()))?.ok();
    } else {
        guard(|| parse_type_system_document(text).map(|_| ())).map_err(|p| panic_failure("parse_type_system_document", &p, detail.clone()))?.ok();
    }
    Ok(())
}

pub fn run(env: &Env) -> i32 {
    let mut rep = Report::new(
        env,
        "exploration",
        "texts: (a) valid generated projects (schema split over files with extensions, hostile descriptions, operations with imports, wild trivia), (b) 1-3 token-level mutations of one file (delete/duplicate/swap/replace/insert/splice/truncate/rename, hostile string/comment/import/escape tokens, hostile block-string descriptions), (c) 1-4 character-level mutations, (d) one to three injected validation-rule violations (the 22 C03 fault operators), (d') token soup and Unicode soup (BOM, NUL, CR, astral, combining, surrogate-range and out-of-range escapes), (e) configuration text (mutated documented shapes, YAML fragments, Unicode). Each file <= 8 KiB, bracket nesting <= 64. Stages, each behind catch_unwind: both parsers, schema/operation extension resolution, import resolution, both checkers, then (only when every check returned no diagnostic) schema/resolver/operation type printers, JS printer, GraphQL printers, source-map JSON; otherwise print_positioned_error for every diagnostic; parse_config; the built CLI (check/generate x human/json/rdjson) on project directories with one mutated file or config. Oracle: no unwind, no abort/signal/status outside {0,1,2}, no `panicked at`, and termination within 30 s (re-confirmed twice in a fresh process). Non-trivial: both schema and operations got past the parsers, or a mutated input was rejected with a rendered diagnostic; distinct = texts.",
    );
    rep.assume("bracket/selection nesting deeper than 64 is outside 'ordinary limits' and is not generated (discarded and counted if a mutation produces it)");
    rep.assume("non-UTF-8 bytes cannot reach the library API (&str); the CLI reads files with read_to_string, so only UTF-8 is generated");
    rep.assume("release-like build (overflow checks off), as shipped; debug-only overflow panics are not counted");
    start_termination_monitor(env);

    // regression probes of repaired findings (fixed entries suppress nothing)
    rep.probe("C07-shorthand-query", || text_probe(true, "{ a }"));
    rep.probe("C08-unicode-escape-not-scalar", || text_probe(true, "query { a(x: \"\\uD800\") }"));
    rep.probe("C08-unicode-escape-not-scalar", || text_probe(true, "query { a(x: \"\\u{110000}\") }"));
    rep.probe("C08-unicode-escape-not-scalar", || text_probe(false, "\"\\uDFFF\" scalar A"));
    rep.probe("C08-config-invalid-yaml", || {
        guard(|| parse_config("schema: [").is_some()).map_err(|p| panic_failure("parse_config", &p, json!({"config_text": "schema: ["})))?;
        guard(|| parse_config("- a\n- b\n").is_some()).map_err(|p| panic_failure("parse_config", &p, json!({"config_text": "- a\n- b\n"})))?;
        Ok(())
    });

    let cfgs = configs();
    let c = &cfgs;
    let project_probe = |schema: &str, op: &str| -> CaseResult {
        let sf = vec![(PathBuf::from("/p/s.graphql"), schema.to_string())];
        let of = vec![(PathBuf::from("/p/o.graphql"), op.to_string())];
        run_pipeline(&sf, &of, &cfgs[0], &json!({"schema": schema, "operation": op})).map(|_| ())
    };
    rep.probe("C08-unused-fragment-generate-panic", || project_probe("type Query { a: Int }\n", "fragment F on Query { nope }\n"));
    rep.probe("C08-cross-kind-duplicate-type", || project_probe("input Int { name: String }\ntype Query { a(x: Int): String }\n", "query { a }\n"));
    rep.probe("C08-import-comment-exponential", || {
        // 40 import-like comment lines: 2^40 steps before the repair, microseconds after it
        let text = format!("{}query Q {{ a }}\n", "# import a\n".repeat(40));
        let (tx, rx) = std::sync::mpsc::channel();
        let t2 = text.clone();
        std::thread::spawn(move || {
            let _ = tx.send(parsers_only_text(&t2).map(|_| ()));
        });
        match rx.recv_timeout(Duration::from_secs(CASE_LIMIT_S)) {
            Ok(r) => r,
            Err(_) => Err(Failure::new("timeout", format!("parsing 40 import-like comment lines did not finish within {CASE_LIMIT_S}s"), json!({"text": text}))),
        }
    });
    rep.probe("C08-list-type-exponential", || {
        // 40 levels of list types, valid and unclosed: 2^40 steps before the repair, microseconds after it
        let valid = format!("type Query {{ a: {}Int{} }}\n", "[".repeat(40), "]".repeat(40));
        let unclosed = format!("type Query {{ a: {} b: Int }}\n", "[".repeat(40));
        for text in [valid, unclosed] {
            let (tx, rx) = std::sync::mpsc::channel();
            let t2 = text.clone();
            std::thread::spawn(move || {
                let _ = tx.send(parsers_only_text(&t2).map(|_| ()));
            });
            match rx.recv_timeout(Duration::from_secs(CASE_LIMIT_S)) {
                Ok(r) => r?,
                Err(_) => return Err(Failure::new("timeout", format!("parsing a list type of 40 levels did not finish within {CASE_LIMIT_S}s"), json!({"text": text}))),
            }
        }
        Ok(())
    });
    rep.probe("C08-generate-exponential-nested-merge", || {
        // d = 9 levels: about 10 s while the finding is open, milliseconds once it is repaired; the probe
        // waits 3 s (the worker thread is abandoned and dies with the process)
        let d = 9;
        let mut op = String::from("query Q($v: Boolean!) { a { ...F1 } }\n");
        for i in 1..d {
            op.push_str(&format!("fragment F{i} on A {{ a {{ ...F{} }} a {{ ...F{} }} a {{ ...F{} }} x @skip(if: $v) }}\n", i + 1, i + 1, i + 1));
        }
        op.push_str(&format!("fragment F{d} on A {{ x @skip(if: $v) y }}\n"));
        let schema = "type A { a: A x: Int y: Int }\ntype Query { a: A }\n".to_string();
        let (tx, rx) = std::sync::mpsc::channel();
        let (s2, o2) = (schema.clone(), op.clone());
        std::thread::spawn(move || {
            let sf = vec![(PathBuf::from("/p/s.graphql"), s2)];
            let of = vec![(PathBuf::from("/p/o.graphql"), o2)];
            let cfg = configs().remove(0);
            let _ = tx.send(run_pipeline(&sf, &of, &cfg, &Value::Null).map(|_| ()));
        });
        match rx.recv_timeout(Duration::from_secs(3)) {
            Ok(r) => r,
            Err(_) => Err(Failure::new("timeout:generate-exponential", "generate did not finish a 661-byte valid document within 3 s", json!({"schema": schema, "operation": op}))),
        }
    });
    rep.probe("C08-introspection-unlisted-type", || {
        let js = r#"{"__schema":{"queryType":{"name":"Query"},"mutationType":null,"subscriptionType":null,"directives":[],"types":[{"kind":"OBJECT","name":"Query","description":null,"fields":[{"name":"a","description":null,"args":[],"type":{"kind":"OBJECT","name":"Missing","ofType":null},"isDeprecated":false,"deprecationReason":null}],"inputFields":null,"interfaces":[],"enumValues":null,"possibleTypes":null}]}}"#;
        let of = vec![(PathBuf::from("/p/o.graphql"), "query Q { __typename }\n".to_string())];
        run_pipeline_json(js, &of, &cfgs[0], &json!({"schema_json": js}), false).map(|_| ())
    });
    rep.probe("C08-introspection-unlisted-type", || {
        // the unlisted name sits on a named reference that also has an `ofType` (which only wrappers have)
        let js = r#"{"__schema":{"queryType":{"name":"Query"},"mutationType":null,"subscriptionType":null,"directives":[],"types":[{"kind":"OBJECT","name":"Query","description":null,"fields":[{"name":"a","description":null,"args":[],"type":{"kind":"OBJECT","name":"Missing","ofType":{"kind":"OBJECT","name":"Query","ofType":null}},"isDeprecated":false,"deprecationReason":null}],"inputFields":null,"interfaces":[],"enumValues":null,"possibleTypes":null}]}}"#;
        let of = vec![(PathBuf::from("/p/o.graphql"), "query Q { __typename }\n".to_string())];
        run_pipeline_json(js, &of, &cfgs[0], &json!({"schema_json": js}), false).map(|_| ())
    });
    rep.probe("C08-user-defined-skip-without-if", || project_probe("directive @skip on FIELD\ndirective @include(x: Int) on FIELD\ntype Query { id: ID }\n", "query Q { id @skip a: id @include(x: 1) }\n"));
    rep.probe("C08-introspection-invalid-schema-unchecked", || {
        // object Dog lists interface Pet but lacks Pet's field `name`: not a valid schema; `check` is not run on
        // introspection schemas, the operation is valid against the interface, and generate looks `name` up on Dog
        let ty = |k: &str, n: &str| json!({"kind": k, "name": n, "ofType": null});
        let field = |n: &str, t: Value| json!({"name": n, "description": null, "args": [], "type": t, "isDeprecated": false, "deprecationReason": null});
        let def = |k: &str, n: &str, fields: Value, ifaces: Value, poss: Value| json!({"kind": k, "name": n, "description": null, "fields": fields, "inputFields": null, "interfaces": ifaces, "enumValues": null, "possibleTypes": poss});
        let js = json!({"__schema": {"queryType": {"name": "Query"}, "mutationType": null, "subscriptionType": null, "directives": [], "types": [
            def("OBJECT", "Query", json!([field("pet", ty("INTERFACE", "Pet"))]), json!([]), Value::Null),
            def("INTERFACE", "Pet", json!([field("name", ty("SCALAR", "String"))]), json!([]), json!([ty("OBJECT", "Dog")])),
            def("OBJECT", "Dog", json!([field("age", ty("SCALAR", "String"))]), json!([ty("INTERFACE", "Pet")]), Value::Null),
            def("SCALAR", "String", Value::Null, Value::Null, Value::Null),
        ]}})
        .to_string();
        let of = vec![(PathBuf::from("/p/o.graphql"), "query Q { pet { name } }\n".to_string())];
        run_pipeline_json(&js, &of, &cfgs[0], &json!({"schema_json": js, "operation": of[0].1}), false).map(|_| ())
    });
    rep.probe("C08-merge-conflict-panic", || project_probe("type Query { a: Int b: Query }\n", "query { x: a x: b { a } }\n"));
    rep.campaign("valid", env.cases(3_000, 150_000), (60, 2500), move |case| pipeline_case(case, "valid", 0, c));
    rep.campaign("op-token-mutation", env.cases(8_000, 400_000), (60, 2500), move |case| pipeline_case(case, "op-token-mutation", 1, c));
    rep.campaign("schema-token-mutation", env.cases(8_000, 400_000), (60, 2500), move |case| pipeline_case(case, "schema-token-mutation", 2, c));
    rep.campaign("char-mutation", env.cases(6_000, 300_000), (60, 2500), move |case| pipeline_case(case, "char-mutation", 3, c));
    rep.campaign("semantic-faults", env.cases(8_000, 400_000), (60, 2500), move |case| pipeline_case(case, "semantic-faults", 5, c));
    rep.campaign("soup-in-project", env.cases(3_000, 150_000), (60, 2500), move |case| pipeline_case(case, "soup-in-project", 4, c));
    rep.campaign("parsers", env.cases(30_000, 1_500_000), (0, 900), parser_only_case);
    rep.campaign("config-text", env.cases(20_000, 500_000), (0, 200), config_case);
    rep.note("campaign introspection-json: the schema text is an introspection result (what a `.json` schema file holds): the JSON a conformant server returns for a generated model, unchanged (1/8), character-mutated (1/8) or with 1-2 structural mutations (dangling / wrong-kind type references, named references with an inner type, removed or duplicated types and elements, changed kinds, nulled or retyped members, changed root types, names that are no names, mangled default values, emptied arrays); operations are valid for the unmutated model. Everything the CLI runs for such a schema is run: schema_from_introspection_json, type_system_to_ast, operation check against the schema value and, if it reports nothing, all printers. Non-trivial: a mutated JSON that is accepted");
    rep.campaign("introspection-json", env.cases(6_000, 300_000), (60, 2500), move |case| json_schema_case(case, c));
    rep.shrink_iters = Some(150);
    let base = work_dir("c08");
    let b2 = base.clone();
    rep.campaign("cli", env.cases(400, 8_000), (600, 2500), move |case| cli_case(case, &b2));
    let _ = std::fs::remove_dir_all(&base);
    // the loader ABI part runs in vh-loader (worker process); ./check merges its evidence here
    if let Ok(p) = std::env::var("VH_EXTRA_EVIDENCE") {
        match std::fs::read_to_string(&p).ok().and_then(|t| serde_json::from_str::<Value>(&t).ok()) {
            Some(v) => {
                rep.note(format!(
                    "loader ABI part (vh-loader C08): evaluations={} distinct_nontrivial={} violations={}",
                    v["coverage"]["evaluations"], v["coverage"]["distinct_nontrivial"], v["violations"]
                ));
                rep.extra.insert("loader_abi".into(), json!({"coverage": v["coverage"], "assumptions": v["assumptions"], "wall_s": v["wall_s"], "violations": v["violations"]}));
            }
            None => rep.note("loader ABI part: no evidence file found (vh-loader C08 did not finish)"),
        }
    }
    rep.merge_fuzz_summary();
    rep.finish()
}

/// Starting corpus for the libFuzzer targets (committed under harness/fuzz/seeds): small valid
/// inputs from the harness generators with fixed choice vectors.
pub fn write_fuzz_seeds(dir: &Path) {
    fn lcg(seed: u64, n: usize) -> Vec<u16> {
        let mut x = seed.wrapping_mul(0x9E37_79B9_7F4A_7C15).wrapping_add(1);
        (0..n)
            .map(|_| {
                x = x.wrapping_mul(6364136223846793005).wrapping_add(1442695040888963407);
                (x >> 40) as u16
            })
            .collect()
    }
    let mk = |sub: &str| {
        let d = dir.join(sub);
        let _ = std::fs::remove_dir_all(&d);
        std::fs::create_dir_all(&d).unwrap();
        d
    };
    let (d_op, d_ts, d_pipe, d_struct, d_cfg) = (mk("parse_op"), mk("parse_schema"), mk("pipeline"), mk("structured"), mk("config"));
    for i in 0..12u64 {
        let mut ch = Choices::new(lcg(i, 400));
        let doc = g_op_doc(&mut ch, true);
        let opts = if i % 2 == 0 { RenderOpts::canonical() } else { RenderOpts::wild() };
        std::fs::write(d_op.join(format!("op{i:02}.graphql")), render_op_doc(&doc, opts.clone(), Some(&mut ch)).text).unwrap();
        let mut ch = Choices::new(lcg(100 + i, 500));
        let doc = g_ts_doc(&mut ch);
        std::fs::write(d_ts.join(format!("ts{i:02}.graphql")), render_ts_doc(&doc, opts, Some(&mut ch)).text).unwrap();
        let mut ch = Choices::new(lcg(200 + i, 1500));
        let gs = gen_schema(&mut ch, &SchemaGenOpts::default());
        let (gd, _) = gen_doc(&mut ch, &gs.schema, &DocGenOpts::default());
        let text = format!("{}\n#####\n{}", canon_ts(&gs.doc), canon_op(&gd.doc));
        if text.len() <= 8000 {
            std::fs::write(d_pipe.join(format!("p{i:02}.txt")), text).unwrap();
        }
        let mut bytes = vec![(i % 5) as u8];
        for v in lcg(300 + i, 1200) {
            bytes.extend_from_slice(&v.to_le_bytes());
        }
        std::fs::write(d_struct.join(format!("c{i:02}.bin")), bytes).unwrap();
    }
    for (i, c) in CONFIG_SEEDS.iter().enumerate() {
        std::fs::write(d_cfg.join(format!("cfg{i}.yaml")), c).unwrap();
    }
    write_json_seeds(dir);
}

/// starting corpus of the `json_schema` target: introspection results of generated models
pub fn write_json_seeds(dir: &Path) {
    use crate::introspect::{introspect, IntrospectOpts};
    let d = dir.join("json_schema");
    let _ = std::fs::remove_dir_all(&d);
    std::fs::create_dir_all(&d).unwrap();
    for i in 0..8u64 {
        let mut x = i.wrapping_mul(0x9E37_79B9_7F4A_7C15).wrapping_add(77);
        let data: Vec<u16> = (0..1500)
            .map(|_| {
                x = x.wrapping_mul(6364136223846793005).wrapping_add(1442695040888963407);
                (x >> 40) as u16
            })
            .collect();
        let mut ch = Choices::new(data);
        let mut so = SchemaGenOpts::default();
        so.max_objects = 1;
        so.descriptions = 0;
        let gs = gen_schema(&mut ch, &so);
        let io = IntrospectOpts { meta_types: false, absent_optionals: i % 2 == 0, shuffle: false };
        let js = introspect(&gs.schema, &io, None);
        if js.len() <= 16000 {
            std::fs::write(d.join(format!("s{i:02}.json")), js).unwrap();
        }
    }
    // a hand-written minimal one
    std::fs::write(
        d.join("min.json"),
        r#"{"__schema":{"queryType":{"name":"Query"},"mutationType":null,"subscriptionType":null,"directives":[],"types":[{"kind":"OBJECT","name":"Query","description":null,"fields":[{"name":"a","description":null,"args":[{"name":"x","description":null,"type":{"kind":"SCALAR","name":"String","ofType":null},"defaultValue":"\"d\""}],"type":{"kind":"LIST","name":null,"ofType":{"kind":"SCALAR","name":"String","ofType":null}},"isDeprecated":false,"deprecationReason":null}],"inputFields":null,"interfaces":[],"enumValues":null,"possibleTypes":null},{"kind":"SCALAR","name":"String","description":null,"fields":null,"inputFields":null,"interfaces":null,"enumValues":null,"possibleTypes":null}]}}"#,
    )
    .unwrap();
}

// ---------------------------------------------------------------------------
// work estimate (known finding C08-generate-exponential-nested-merge)

/// work estimate above which a project is excluded while C08-generate-exponential-nested-merge is open
/// (about 0.3 s of `generate`)
pub const WORK_LIMIT: u64 = 150_000;

pub fn exponential_generate(schema: &[(PathBuf, String)], ops: &[(PathBuf, String)]) -> bool {
    let st: Vec<&str> = schema.iter().map(|x| x.1.as_str()).collect();
    let ot: Vec<&str> = ops.iter().map(|x| x.1.as_str()).collect();
    work_estimate_texts(&st, &ot, WORK_LIMIT) >= WORK_LIMIT
}

/// Upper-bound model of the number of selection-set evaluations the operation type printer performs
/// (and of the size of the type it emits): per selection set, one branch per possible object type and
/// per assignment of the boolean variables used at that level; per branch, every field occurrence with
/// a sub-selection is evaluated again. Saturates at `limit`.
pub fn work_estimate(s: &crate::schema::Schema, doc: &MOpDoc, limit: u64) -> u64 {
    use std::collections::BTreeSet;
    let frags = frag_map(doc);
    fn level<'a>(
        s: &crate::schema::Schema,
        frags: &'a std::collections::BTreeMap<String, MFragment>,
        obj: &str,
        sels: &'a [MSelection],
        seen: &mut BTreeSet<String>,
        vars: &mut BTreeSet<String>,
        subs: &mut Vec<(&'a [MSelection], String)>,
    ) {
        let dirs = |ds: &[MDirective], vars: &mut BTreeSet<String>| {
            for d in ds {
                if d.name == "skip" || d.name == "include" {
                    for (k, v) in &d.args {
                        if k == "if" {
                            if let MValue::Var(n) = v {
                                vars.insert(n.clone());
                            }
                        }
                    }
                }
            }
        };
        for sel in sels {
            match sel {
                MSelection::Field(f) => {
                    dirs(&f.directives, vars);
                    if let (Some(sub), Some(fd)) = (&f.sel, s.field(obj, &f.name)) {
                        subs.push((sub.as_slice(), fd.ty.base().to_string()));
                    }
                }
                MSelection::Spread { name, directives } => {
                    dirs(directives, vars);
                    if !seen.insert(name.clone()) {
                        continue;
                    }
                    if let Some(fr) = frags.get(name) {
                        if s.applies(&fr.on, obj) {
                            level(s, frags, obj, &fr.sel, seen, vars, subs);
                        }
                    }
                }
                MSelection::Inline { on, directives, sel } => {
                    dirs(directives, vars);
                    if on.as_ref().map(|t| s.applies(t, obj)).unwrap_or(true) {
                        level(s, frags, obj, sel, seen, vars, subs);
                    }
                }
            }
        }
    }
    fn size(s: &crate::schema::Schema, frags: &std::collections::BTreeMap<String, MFragment>, ty: &str, sels: &[MSelection], limit: u64, depth: usize) -> u64 {
        if depth > 40 {
            return limit;
        }
        let mut total: u64 = 0;
        for o in s.possible(ty) {
            let mut vars = BTreeSet::new();
            let mut subs = vec![];
            level(s, frags, &o, sels, &mut BTreeSet::new(), &mut vars, &mut subs);
            let mut inner: u64 = 1;
            for (sub, t) in subs {
                inner = inner.saturating_add(size(s, frags, &t, sub, limit, depth + 1));
                if inner >= limit {
                    return limit;
                }
            }
            total = total.saturating_add(inner.saturating_mul(1u64 << vars.len().min(20)));
            if total >= limit {
                return limit;
            }
        }
        total
    }
    let mut worst = 0;
    for d in doc {
        let w = match d {
            MExecDef::Op(o) => match s.root(o.op) {
                Some(r) => size(s, &frags, &r, &o.sel, limit, 0),
                None => 0,
            },
            MExecDef::Frag(f) => size(s, &frags, &f.on, &f.sel, limit, 0),
            MExecDef::Import(_) => 0,
        };
        worst = worst.max(w);
    }
    worst
}

/// work estimate from texts (reference parsers); 0 when something does not parse (the pipeline stops
/// before the printers then)
pub fn work_estimate_texts(schema_texts: &[&str], op_texts: &[&str], limit: u64) -> u64 {
    let mut defs = vec![];
    for t in schema_texts {
        match crate::refparse::parse_ts_doc(t) {
            Ok(d) => defs.extend(d),
            Err(_) => return 0,
        }
    }
    let schema = crate::schema::Schema::from_doc(&defs);
    let mut all: MOpDoc = vec![];
    for t in op_texts {
        match crate::refparse::parse_op_doc(t) {
            Ok(d) => all.extend(d),
            Err(_) => return 0,
        }
    }
    work_estimate(&schema, &all, limit)
}

/// While the finding C08-generate-exponential-nested-merge is open, generated documents whose work
/// estimate exceeds WORK_LIMIT are replaced by a trivial query (counted as redirected by the finding), so
/// that checks which run `generate` on valid documents neither hang nor report the same defect again.
pub fn tame_exponential(case: &mut Case, s: &crate::schema::Schema, doc: MOpDoc) -> MOpDoc {
    if work_estimate(s, &doc, WORK_LIMIT) < WORK_LIMIT || case.allow("generate_exponential_nested_merge") {
        return doc;
    }
    case.label("excluded:generate-exponential");
    vec![MExecDef::Op(MOperation {
        op: OpType::Query,
        name: Some("Tamed".into()),
        vars: vec![],
        directives: vec![],
        sel: vec![MSelection::Field(MFieldSel { alias: None, name: "__typename".into(), args: vec![], directives: vec![], sel: None })],
        shorthand: false,
    })]
}
