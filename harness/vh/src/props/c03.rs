//! C03 — `check` accepts no operation that violates an implemented validation rule.

use crate::choices::Choices;
use crate::gen_ops::*;
use crate::gen_schema::*;
use crate::model::*;
use crate::pipeline::*;
use crate::props::c04::{doc_opts_from_flags, schema_opts_from_flags};
use crate::refvalid;
use crate::render::*;
use crate::runner::*;
use crate::schema::Schema;
use serde_json::json;
use std::collections::BTreeMap;
use std::path::PathBuf;

/// rule label -> diagnostic kinds "of the kind belonging to that rule"
pub fn allowed_kinds(label: &str) -> &'static [&'static str] {
    match label {
        "dup-operation-name" => &["DuplicateOperationName"],
        "anonymous-not-alone" => &["UnNamedOperationMustBeSingle"],
        "subscription-single-root" => &["SubscriptionMustHaveExactlyOneRootField"],
        "field-not-found" => &["FieldNotFound"],
        "leaf-with-selection" => &["SelectionOnInvalidType"],
        "composite-without-selection" => &["MustSpecifySelectionSet"],
        "unknown-argument" => &["UnknownArgument", "ArgumentsNotNeeded"],
        "missing-required-argument" => &["RequiredArgumentNotSpecified"],
        "value-type-mismatch" => &["TypeMismatch", "UnknownEnumMember"],
        "dup-variable" => &["DuplicatedVariableName"],
        "variable-not-input-type" => &["NoOutputType", "UnknownType"],
        "undefined-variable" => &["UnknownVariable"],
        "variable-type-incompatible" => &["TypeMismatch"],
        "dup-fragment-name" => &["DuplicateFragmentName"],
        "fragment-on-invalid-type" => &["UnknownType", "InvalidFragmentTarget", "SelectionOnInvalidType"],
        "unknown-fragment" => &["UnknownFragment"],
        "fragment-cycle" => &["RecursingFragmentSpread"],
        "impossible-spread" => &["FragmentConditionNeverMatches"],
        "unknown-directive" => &["UnknownDirective"],
        "directive-misplaced" => &["DirectiveLocationNotAllowed"],
        "directive-repeated" => &["RepeatedDirective"],
        _ => &[],
    }
}

#[derive(Clone, Debug, PartialEq, Eq, Hash, PartialOrd, Ord)]
pub enum Container {
    Op(usize),
    Frag(String),
}

#[derive(Clone, Debug)]
pub struct Site {
    pub container: Container,
    pub parent: String,
    pub class: &'static str,
    pub depth: usize,
}

/// minimal number of spreads needed to reach each fragment from some operation
fn fragment_depths(doc: &MOpDoc) -> BTreeMap<String, usize> {
    let frags = frag_map(doc);
    let mut depth: BTreeMap<String, usize> = BTreeMap::new();
    fn direct(sels: &[MSelection], out: &mut Vec<String>) {
        for s in sels {
            match s {
                MSelection::Field(f) => {
                    if let Some(s) = &f.sel {
                        direct(s, out)
                    }
                }
                MSelection::Spread { name, .. } => out.push(name.clone()),
                MSelection::Inline { sel, .. } => direct(sel, out),
            }
        }
    }
    let mut frontier: Vec<String> = vec![];
    for d in doc {
        if let MExecDef::Op(o) = d {
            direct(&o.sel, &mut frontier);
        }
    }
    let mut level = 1;
    while !frontier.is_empty() {
        let mut next = vec![];
        for f in frontier {
            if depth.contains_key(&f) {
                continue;
            }
            depth.insert(f.clone(), level);
            if let Some(fr) = frags.get(&f) {
                direct(&fr.sel, &mut next);
            }
        }
        frontier = next;
        level += 1;
    }
    depth
}

/// Walk every selection set of the document with its parent type and site class.
fn walk_sites(
    doc: &mut MOpDoc,
    s: &Schema,
    f: &mut dyn FnMut(&mut Vec<MSelection>, &Site),
) {
    let depths = fragment_depths(doc);
    fn rec(
        sels: &mut Vec<MSelection>,
        s: &Schema,
        container: &Container,
        parent: &str,
        depth: usize,
        base_class: &'static str,
        inline: Option<bool>,
        f: &mut dyn FnMut(&mut Vec<MSelection>, &Site),
    ) {
        let class = match (base_class, inline, depth) {
            ("op", Some(true), _) => "inline-with-condition",
            ("op", Some(false), _) => "inline-without-condition",
            ("op", None, 0) => "op-root",
            ("op", None, _) => "nested-field",
            (c, _, _) => c,
        };
        let site = Site { container: container.clone(), parent: parent.to_string(), class, depth };
        f(sels, &site);
        for sel in sels.iter_mut() {
            match sel {
                MSelection::Field(fs) => {
                    if let Some(sub) = &mut fs.sel {
                        let base = s.field(parent, &fs.name).map(|d| d.ty.base().to_string());
                        if let Some(base) = base {
                            if s.is_composite(&base) {
                                rec(sub, s, container, &base, depth + 1, base_class, None, f);
                            }
                        }
                    }
                }
                MSelection::Inline { on, sel, .. } => {
                    let scope = on.clone().unwrap_or_else(|| parent.to_string());
                    if s.is_composite(&scope) {
                        rec(sel, s, container, &scope, depth + 1, base_class, Some(on.is_some()), f);
                    }
                }
                MSelection::Spread { .. } => {}
            }
        }
    }
    let mut op_idx = 0;
    for d in doc.iter_mut() {
        match d {
            MExecDef::Op(o) => {
                if let Some(root) = s.root(o.op) {
                    rec(&mut o.sel, s, &Container::Op(op_idx), &root, 0, "op", None, f);
                }
                op_idx += 1;
            }
            MExecDef::Frag(fr) => {
                let class = match depths.get(&fr.name) {
                    None => "unused-fragment",
                    Some(1) => "used-fragment",
                    Some(_) => "fragment-via-2-spreads",
                };
                if s.is_composite(&fr.on) {
                    let on = fr.on.clone();
                    rec(&mut fr.sel, s, &Container::Frag(fr.name.clone()), &on, 0, class, None, f);
                }
            }
            _ => {}
        }
    }
}

fn count_sites(doc: &mut MOpDoc, s: &Schema, pred: &dyn Fn(&Vec<MSelection>, &Site) -> bool) -> usize {
    let mut n = 0;
    walk_sites(doc, s, &mut |sels, site| {
        if pred(sels, site) {
            n += 1;
        }
    });
    n
}

/// apply `m` at the k-th site satisfying `pred`; returns the site class
fn mutate_site(
    doc: &mut MOpDoc,
    s: &Schema,
    k: usize,
    pred: &dyn Fn(&Vec<MSelection>, &Site) -> bool,
    m: &mut dyn FnMut(&mut Vec<MSelection>, &Site),
) -> Option<&'static str> {
    let mut n = 0;
    let mut class = None;
    walk_sites(doc, s, &mut |sels, site| {
        if class.is_none() && pred(sels, site) {
            if n == k {
                m(sels, site);
                class = Some(site.class);
            }
            n += 1;
        }
    });
    class
}

/// a value that is invalid for `ty` after all spec coercions; None when none exists
fn wrong_value(ch: &mut Choices, s: &Schema, ty: &MType, depth: usize) -> Option<(MValue, &'static str)> {
    match ty {
        MType::NonNull(t) => {
            if ch.chance(1, 3) {
                Some((MValue::Null, "null-into-nonnull"))
            } else {
                wrong_value(ch, s, t, depth).or(Some((MValue::Null, "null-into-nonnull")))
            }
        }
        MType::List(t) => {
            let (w, l) = wrong_value(ch, s, t, depth + 1)?;
            // (a list literal is never coerced as a "single value": `[null]` for `[[T!]]` reads as a list holding
            // one null inner list, which is fine - so a list-valued wrong element must stay wrapped)
            if w == MValue::Null || matches!(w, MValue::List(_)) || ch.chance(1, 2) {
                Some((MValue::List(vec![w]), if depth > 0 { "nested-list-element" } else { "list-element" }))
            } else {
                // single value: still wrong after list coercion
                Some((w, l))
            }
        }
        MType::Named(n) => match n.as_str() {
            "Int" => Some((
                match ch.below(5) {
                    0 => MValue::Str("1".into()),
                    1 => MValue::Float("1.5".into()),
                    2 => MValue::Bool(true),
                    3 => MValue::Enum("ONE".into()),
                    _ => MValue::Object(vec![]),
                },
                "scalar-kind",
            )),
            "Float" => Some((if ch.flip() { MValue::Str("1.0".into()) } else { MValue::Bool(false) }, "scalar-kind")),
            "String" => Some((
                match ch.below(3) {
                    0 => MValue::Int("1".into()),
                    1 => MValue::Bool(true),
                    _ => MValue::Enum("text".into()),
                },
                "scalar-kind",
            )),
            "Boolean" => Some((if ch.flip() { MValue::Int("1".into()) } else { MValue::Str("true".into()) }, "scalar-kind")),
            "ID" => Some((if ch.flip() { MValue::Float("1.5".into()) } else { MValue::Bool(true) }, "scalar-kind")),
            other => {
                let t = s.types.get(other)?;
                match t.kind {
                    Kind::Enum => Some(match ch.below(3) {
                        0 => (MValue::Enum("NOT_A_MEMBER".into()), "unknown-enum-member"),
                        1 => (MValue::Str(t.values[0].name.clone()), "string-for-enum"),
                        _ => (MValue::Int("0".into()), "int-for-enum"),
                    }),
                    Kind::Input => {
                        // required fields with plain valid values
                        let mut base: Vec<(String, MValue)> = vec![];
                        for f in &t.input_fields {
                            if f.ty.is_non_null() && f.default.is_none() {
                                base.push((f.name.clone(), plain_const_value(ch, &s.types, &f.ty, 1)));
                            }
                        }
                        match ch.below(4) {
                            0 => Some((MValue::Str("x".into()), "string-for-input-object")),
                            1 => {
                                base.push(("no_such_field".into(), MValue::Int("1".into())));
                                Some((MValue::Object(base), "input-object-unknown-field"))
                            }
                            2 => {
                                if base.is_empty() {
                                    base.push(("no_such_field".into(), MValue::Int("1".into())));
                                    Some((MValue::Object(base), "input-object-unknown-field"))
                                } else {
                                    let k = ch.below(base.len());
                                    base.remove(k);
                                    Some((MValue::Object(base), "input-object-missing-field"))
                                }
                            }
                            _ => {
                                if depth > 2 {
                                    return Some((MValue::Str("x".into()), "string-for-input-object"));
                                }
                                // wrong value in one field
                                let cands: Vec<&MInputValue> = t.input_fields.iter().collect();
                                let f = *ch.pick(&cands);
                                match wrong_value(ch, s, &f.ty, depth + 1) {
                                    Some((w, _)) => {
                                        base.retain(|(k, _)| k != &f.name);
                                        base.push((f.name.clone(), w));
                                        Some((MValue::Object(base), "input-object-field-type"))
                                    }
                                    None => Some((MValue::Str("x".into()), "string-for-input-object")),
                                }
                            }
                        }
                    }
                    _ => None, // custom scalar: everything is accepted
                }
            }
        },
    }
}

pub struct Fault {
    pub label: &'static str,
    pub class: String,
    pub detail: &'static str,
}

const EXEC_DIR_LOCS: &[&str] = &["OPERATION", "FIELD", "FRAGMENT_SPREAD", "INLINE_FRAGMENT", "FRAGMENT_DEFINITION", "VARIABLE_DEFINITION"];

/// Insert a directive list mutation at an executable location. Returns class.
fn mutate_directives(
    ch: &mut Choices,
    doc: &mut MOpDoc,
    s: &Schema,
    loc: &str,
    m: &mut dyn FnMut(&mut Vec<MDirective>, &str),
) -> Option<String> {
    match loc {
        "OPERATION" => {
            let ops: Vec<usize> = doc.iter().enumerate().filter(|(_, d)| matches!(d, MExecDef::Op(_))).map(|(i, _)| i).collect();
            if ops.is_empty() {
                return None;
            }
            let i = *ch.pick(&ops);
            if let MExecDef::Op(o) = &mut doc[i] {
                let l = match o.op {
                    OpType::Query => "QUERY",
                    OpType::Mutation => "MUTATION",
                    OpType::Subscription => "SUBSCRIPTION",
                };
                m(&mut o.directives, l);
            }
            Some("dirloc-OPERATION".into())
        }
        "VARIABLE_DEFINITION" => {
            let ops: Vec<usize> = doc
                .iter()
                .enumerate()
                .filter(|(_, d)| matches!(d, MExecDef::Op(o) if !o.vars.is_empty()))
                .map(|(i, _)| i)
                .collect();
            if ops.is_empty() {
                return None;
            }
            let i = *ch.pick(&ops);
            if let MExecDef::Op(o) = &mut doc[i] {
                let k = ch.below(o.vars.len());
                m(&mut o.vars[k].directives, "VARIABLE_DEFINITION");
            }
            Some("dirloc-VARIABLE_DEFINITION".into())
        }
        "FRAGMENT_DEFINITION" => {
            let depths = fragment_depths(doc);
            let fr: Vec<usize> = doc.iter().enumerate().filter(|(_, d)| matches!(d, MExecDef::Frag(_))).map(|(i, _)| i).collect();
            if fr.is_empty() {
                return None;
            }
            let i = *ch.pick(&fr);
            let mut used = true;
            if let MExecDef::Frag(f) = &mut doc[i] {
                used = depths.contains_key(&f.name);
                m(&mut f.directives, "FRAGMENT_DEFINITION");
            }
            Some(if used { "dirloc-FRAGMENT_DEFINITION".into() } else { "dirloc-FRAGMENT_DEFINITION-unused".into() })
        }
        _ => {
            let want = loc.to_string();
            let pred = move |sels: &Vec<MSelection>, _: &Site| {
                sels.iter().any(|x| match (x, want.as_str()) {
                    (MSelection::Field(_), "FIELD") => true,
                    (MSelection::Spread { .. }, "FRAGMENT_SPREAD") => true,
                    (MSelection::Inline { .. }, "INLINE_FRAGMENT") => true,
                    _ => false,
                })
            };
            let n = count_sites(doc, s, &pred);
            if n == 0 {
                return None;
            }
            let k = ch.below(n);
            let want2 = loc.to_string();
            let pick = ch.raw() as usize;
            let class = mutate_site(doc, s, k, &pred, &mut |sels, _| {
                let idxs: Vec<usize> = sels
                    .iter()
                    .enumerate()
                    .filter(|(_, x)| match (x, want2.as_str()) {
                        (MSelection::Field(_), "FIELD") => true,
                        (MSelection::Spread { .. }, "FRAGMENT_SPREAD") => true,
                        (MSelection::Inline { .. }, "INLINE_FRAGMENT") => true,
                        _ => false,
                    })
                    .map(|(i, _)| i)
                    .collect();
                let i = idxs[pick % idxs.len()];
                match &mut sels[i] {
                    MSelection::Field(f) => m(&mut f.directives, "FIELD"),
                    MSelection::Spread { directives, .. } => m(directives, "FRAGMENT_SPREAD"),
                    MSelection::Inline { directives, .. } => m(directives, "INLINE_FRAGMENT"),
                }
            })?;
            if class == "unused-fragment" {
                Some(format!("unused-fragment/dirloc-{loc}"))
            } else {
                Some(format!("dirloc-{loc}"))
            }
        }
    }
}

fn ensure_fragment(ch: &mut Choices, doc: &mut MOpDoc, s: &Schema) -> String {
    // returns the name of some fragment, creating a used one if none exists
    let names: Vec<String> = doc.iter().filter_map(|d| if let MExecDef::Frag(f) = d { Some(f.name.clone()) } else { None }).collect();
    if !names.is_empty() {
        return ch.pick(&names).clone();
    }
    // create `fragment Zed on <root> { __typename }` and spread it at the root of an op
    let mut target = None;
    for d in doc.iter_mut() {
        if let MExecDef::Op(o) = d {
            if o.op != OpType::Subscription {
                if let Some(root) = s.root(o.op) {
                    o.sel.push(MSelection::Spread { name: "Zed".into(), directives: vec![] });
                    target = Some(root);
                    break;
                }
            }
        }
    }
    let on = target.unwrap_or_else(|| s.root(OpType::Query).unwrap());
    doc.push(MExecDef::Frag(MFragment {
        name: "Zed".into(),
        on,
        directives: vec![],
        sel: vec![MSelection::Field(MFieldSel { alias: None, name: "__typename".into(), args: vec![], directives: vec![], sel: None })],
    }));
    "Zed".into()
}

fn plain_field(name: &str) -> MSelection {
    MSelection::Field(MFieldSel { alias: None, name: name.into(), args: vec![], directives: vec![], sel: None })
}

/// Inject one fault. Returns None when the chosen fault is not applicable to this document.
pub fn inject(ch: &mut Choices, doc: &mut MOpDoc, s: &Schema) -> Option<Fault> {
    let which = ch.below(23);
    inject_which(ch, doc, s, which)
}

/// one particular fault operator (6: unknown argument, 7: missing required argument, 8: literal of the wrong type, ...)
pub fn inject_which(ch: &mut Choices, doc: &mut MOpDoc, s: &Schema, which: usize) -> Option<Fault> {
    let any_site = |_: &Vec<MSelection>, _: &Site| true;
    match which {
        0 => {
            // duplicate operation name
            let ops: Vec<usize> = doc.iter().enumerate().filter(|(_, d)| matches!(d, MExecDef::Op(o) if o.name.is_some())).map(|(i, _)| i).collect();
            if ops.is_empty() {
                return None;
            }
            let i = *ch.pick(&ops);
            let mut copy = doc[i].clone();
            if let MExecDef::Op(o) = &mut copy {
                o.vars.clear();
                o.directives.clear();
                if o.op == OpType::Subscription {
                    // keep a single root field
                }
                // a trivially valid body keeps other rules out of the way
                if o.op != OpType::Subscription {
                    o.sel = vec![plain_field("__typename")];
                } else {
                    strip_vars_in_place(&mut o.sel);
                }
            }
            // operation names are unique across operation kinds: half of the copies become an operation of
            // another kind (when the schema has such a root type)
            let mut class = "document";
            if let MExecDef::Op(o) = &mut copy {
                if o.op != OpType::Subscription && ch.flip() {
                    let other: Vec<OpType> = [OpType::Query, OpType::Mutation].into_iter().filter(|k| *k != o.op && s.root(*k).is_some()).collect();
                    if let Some(k) = other.first() {
                        o.op = *k;
                        o.sel = vec![plain_field("__typename")];
                        class = "document-other-kind";
                    }
                }
            }
            let at = ch.below(doc.len() + 1);
            doc.insert(at, copy);
            Some(Fault { label: "dup-operation-name", class: class.into(), detail: "copy of a named operation" })
        }
        1 => {
            let n_ops = doc.iter().filter(|d| matches!(d, MExecDef::Op(_))).count();
            if n_ops == 0 {
                return None;
            }
            if n_ops == 1 {
                // add an anonymous query next to the existing (named or anonymous) one
                doc.push(MExecDef::Op(MOperation { op: OpType::Query, name: None, vars: vec![], directives: vec![], sel: vec![plain_field("__typename")], shorthand: false }));
                if let Some(MExecDef::Op(o)) = doc.iter().find(|d| matches!(d, MExecDef::Op(_))) {
                    let _ = o;
                }
            } else {
                let ops: Vec<usize> = doc.iter().enumerate().filter(|(_, d)| matches!(d, MExecDef::Op(_))).map(|(i, _)| i).collect();
                let i = *ch.pick(&ops);
                if let MExecDef::Op(o) = &mut doc[i] {
                    o.name = None;
                }
            }
            Some(Fault { label: "anonymous-not-alone", class: "document".into(), detail: "anonymous operation among several" })
        }
        2 => {
            // subscription with two root fields
            let root = s.root(OpType::Subscription)?;
            let fields: Vec<String> = s.types[&root].fields.iter().filter(|f| f.args.iter().all(|a| !(a.ty.is_non_null() && a.default.is_none()))).map(|f| f.name.clone()).collect();
            if fields.is_empty() {
                return None;
            }
            let mk = |ch: &mut Choices, alias: &str| -> MSelection {
                let f = ch.pick(&fields).clone();
                let fd = s.field(&root, &f).unwrap();
                let sel = if s.is_composite(fd.ty.base()) { Some(vec![plain_field("__typename")]) } else { None };
                MSelection::Field(MFieldSel { alias: Some(alias.into()), name: f, args: vec![], directives: vec![], sel })
            };
            let a = mk(ch, "s_one");
            let b = mk(ch, "s_two");
            let (sel, detail, class): (Vec<MSelection>, &'static str, &str) = match ch.below(3) {
                0 => (vec![a, b], "two direct root fields", "op-root"),
                1 => (vec![a, MSelection::Inline { on: None, directives: vec![], sel: vec![b] }], "second root field via inline fragment", "inline-without-condition"),
                _ => {
                    doc.push(MExecDef::Frag(MFragment { name: "SubExtra".into(), on: root.clone(), directives: vec![], sel: vec![b] }));
                    (vec![a, MSelection::Spread { name: "SubExtra".into(), directives: vec![] }], "second root field via fragment", "used-fragment")
                }
            };
            doc.push(MExecDef::Op(MOperation { op: OpType::Subscription, name: Some("SubFault".into()), vars: vec![], directives: vec![], sel, shorthand: false }));
            // other operations must be named for the document to stay otherwise valid
            for d in doc.iter_mut() {
                if let MExecDef::Op(o) = d {
                    if o.name.is_none() {
                        o.name = Some("WasAnonymous".into());
                    }
                }
            }
            Some(Fault { label: "subscription-single-root", class: class.into(), detail })
        }
        3 => {
            // unknown field
            let n = count_sites(doc, s, &any_site);
            if n == 0 {
                return None;
            }
            // a field that exists - on the enclosing object type, but not on the interface an inline fragment narrows
            // (widens) to: `me { ... on Node { name } }` where only User has `name`
            let narrowing = |site: &Site| -> Option<(String, String)> {
                let t = s.types.get(&site.parent)?;
                if t.kind != Kind::Object {
                    return None;
                }
                for i in &t.implements {
                    let it = s.types.get(i)?;
                    if let Some(f) = t.fields.iter().find(|f| !it.fields.iter().any(|g| g.name == f.name) && s.is_leaf(f.ty.base()) && !f.args.iter().any(|a| a.ty.is_non_null() && a.default.is_none())) {
                        return Some((i.clone(), f.name.clone()));
                    }
                }
                None
            };
            let pred_n = |_: &Vec<MSelection>, site: &Site| narrowing(site).is_some();
            let nn = count_sites(doc, s, &pred_n);
            if nn > 0 && ch.chance(1, 3) {
                let k = ch.below(nn);
                let class = mutate_site(doc, s, k, &pred_n, &mut |sels, site| {
                    let (iface, field) = narrowing(site).unwrap();
                    let mut f = match plain_field(&field) {
                        MSelection::Field(f) => f,
                        _ => unreachable!(),
                    };
                    f.alias = Some("only_on_the_object".into());
                    sels.push(MSelection::Inline { on: Some(iface), directives: vec![], sel: vec![MSelection::Field(f)] });
                })?;
                return Some(Fault { label: "field-not-found", class: format!("object-field-under-interface-condition/{class}"), detail: "field of the enclosing object selected under an inline fragment on an interface that lacks it" });
            }
            let k = ch.below(n);
            let mut detail = "unknown field on object/interface";
            let class = mutate_site(doc, s, k, &any_site, &mut |sels, site| {
                if s.kind(&site.parent) == Some(Kind::Union) {
                    sels.push(plain_field("id"));
                    detail = "regular field on union";
                } else {
                    sels.push(plain_field("no_such_field"));
                }
            })?;
            Some(Fault { label: "field-not-found", class: class.into(), detail })
        }
        4 => {
            // leaf with sub-selection
            let pred = |sels: &Vec<MSelection>, site: &Site| {
                sels.iter().any(|x| matches!(x, MSelection::Field(f) if f.sel.is_none() && f.name != "__typename" && s.field(&site.parent, &f.name).is_some()))
            };
            let n = count_sites(doc, s, &pred);
            if n == 0 {
                return None;
            }
            let k = ch.below(n);
            let class = mutate_site(doc, s, k, &pred, &mut |sels, site| {
                for x in sels.iter_mut() {
                    if let MSelection::Field(f) = x {
                        if f.sel.is_none() && f.name != "__typename" && s.field(&site.parent, &f.name).is_some() {
                            f.sel = Some(vec![plain_field("__typename")]);
                            break;
                        }
                    }
                }
            })?;
            Some(Fault { label: "leaf-with-selection", class: class.into(), detail: "selection set on a leaf field" })
        }
        5 => {
            let pred = |sels: &Vec<MSelection>, _: &Site| sels.iter().any(|x| matches!(x, MSelection::Field(f) if f.sel.is_some()));
            let n = count_sites(doc, s, &pred);
            if n == 0 {
                return None;
            }
            let k = ch.below(n);
            let class = mutate_site(doc, s, k, &pred, &mut |sels, _| {
                for x in sels.iter_mut() {
                    if let MSelection::Field(f) = x {
                        if f.sel.is_some() {
                            f.sel = None;
                            break;
                        }
                    }
                }
            })?;
            Some(Fault { label: "composite-without-selection", class: class.into(), detail: "composite field without selection set" })
        }
        6 => {
            // unknown argument on a field, or on a directive
            if ch.chance(1, 3) {
                let loc = *ch.pick(&["FIELD", "FRAGMENT_SPREAD", "INLINE_FRAGMENT"]);
                let class = mutate_directives(ch, doc, s, loc, &mut |ds, _| {
                    ds.retain(|d| d.name != "skip");
                    ds.push(MDirective { name: "skip".into(), args: vec![("if".into(), MValue::Bool(false)), ("bogus".into(), MValue::Int("1".into()))] });
                })?;
                return Some(Fault { label: "unknown-argument", class: format!("directive-arg/{class}"), detail: "unknown argument on @skip" });
            }
            let pred = |sels: &Vec<MSelection>, _: &Site| sels.iter().any(|x| matches!(x, MSelection::Field(_)));
            let n = count_sites(doc, s, &pred);
            if n == 0 {
                return None;
            }
            let k = ch.below(n);
            let class = mutate_site(doc, s, k, &pred, &mut |sels, _| {
                for x in sels.iter_mut() {
                    if let MSelection::Field(f) = x {
                        f.args.push(("bogus_arg".into(), MValue::Int("1".into())));
                        break;
                    }
                }
            })?;
            Some(Fault { label: "unknown-argument", class: class.into(), detail: "unknown argument on a field" })
        }
        7 => {
            // missing required argument: field with a required argument, else @skip without `if`
            let pred = |sels: &Vec<MSelection>, site: &Site| {
                sels.iter().any(|x| match x {
                    MSelection::Field(f) => s.field(&site.parent, &f.name).map(|d| d.args.iter().any(|a| a.ty.is_non_null() && a.default.is_none())).unwrap_or(false),
                    _ => false,
                })
            };
            let n = count_sites(doc, s, &pred);
            if n > 0 && ch.chance(2, 3) {
                let k = ch.below(n);
                let class = mutate_site(doc, s, k, &pred, &mut |sels, site| {
                    for x in sels.iter_mut() {
                        if let MSelection::Field(f) = x {
                            if let Some(d) = s.field(&site.parent, &f.name) {
                                if let Some(req) = d.args.iter().find(|a| a.ty.is_non_null() && a.default.is_none()) {
                                    f.args.retain(|(k, _)| k != &req.name);
                                    // distinct key so that merging rules are not involved
                                    f.alias = Some("missing_arg_variant".into());
                                    break;
                                }
                            }
                        }
                    }
                })?;
                return Some(Fault { label: "missing-required-argument", class: class.into(), detail: "required field argument omitted" });
            }
            let loc = *ch.pick(&["FIELD", "FRAGMENT_SPREAD", "INLINE_FRAGMENT"]);
            let class = mutate_directives(ch, doc, s, loc, &mut |ds, _| {
                ds.retain(|d| d.name != "skip");
                ds.push(MDirective { name: "skip".into(), args: vec![] });
            })?;
            Some(Fault { label: "missing-required-argument", class: format!("directive-arg/{class}"), detail: "@skip without `if`" })
        }
        8 => {
            // literal type mismatch in a field argument
            let pred = |sels: &Vec<MSelection>, site: &Site| {
                sels.iter().any(|x| match x {
                    MSelection::Field(f) => s.field(&site.parent, &f.name).map(|d| !d.args.is_empty()).unwrap_or(false),
                    _ => false,
                })
            };
            let n = count_sites(doc, s, &pred);
            if n > 0 && ch.chance(3, 4) {
                let k = ch.below(n);
                let mut detail: Option<&'static str> = None;
                let mut sub = Choices::new((0..64).map(|_| ch.raw()).collect());
                let class = mutate_site(doc, s, k, &pred, &mut |sels, site| {
                    for x in sels.iter_mut() {
                        if let MSelection::Field(f) = x {
                            if let Some(d) = s.field(&site.parent, &f.name) {
                                for a in &d.args {
                                    if let Some((w, l)) = wrong_value(&mut sub, s, &a.ty, 0) {
                                        f.args.retain(|(k, _)| k != &a.name);
                                        f.args.push((a.name.clone(), w));
                                        f.alias = Some("wrong_value_variant".into());
                                        detail = Some(l);
                                        return;
                                    }
                                }
                            }
                        }
                    }
                })?;
                let detail = detail?;
                let class = if detail.starts_with("input-object") || detail.contains("list") {
                    format!("{class}/{detail}")
                } else {
                    class.to_string()
                };
                return Some(Fault { label: "value-type-mismatch", class, detail });
            }
            let loc = *ch.pick(&["FIELD", "FRAGMENT_SPREAD", "INLINE_FRAGMENT"]);
            let w = match ch.below(3) {
                0 => MValue::Str("yes".into()),
                1 => MValue::Null,
                _ => MValue::Int("1".into()),
            };
            let class = mutate_directives(ch, doc, s, loc, &mut |ds, _| {
                ds.retain(|d| d.name != "include");
                ds.push(MDirective { name: "include".into(), args: vec![("if".into(), w.clone())] });
            })?;
            Some(Fault { label: "value-type-mismatch", class: format!("directive-arg/{class}"), detail: "wrong literal for @include(if:)" })
        }
        9 => {
            let ops: Vec<usize> = doc.iter().enumerate().filter(|(_, d)| matches!(d, MExecDef::Op(_))).map(|(i, _)| i).collect();
            if ops.is_empty() {
                return None;
            }
            let i = *ch.pick(&ops);
            if let MExecDef::Op(o) = &mut doc[i] {
                if o.vars.is_empty() {
                    o.vars.push(MVarDef { name: "dup".into(), ty: MType::named("Int"), default: None, directives: vec![] });
                }
                let v = o.vars[ch.below(o.vars.len())].clone();
                let at = ch.below(o.vars.len() + 1);
                o.vars.insert(at, v);
            }
            Some(Fault { label: "dup-variable", class: "variable-definitions".into(), detail: "variable defined twice" })
        }
        10 => {
            let ops: Vec<usize> = doc.iter().enumerate().filter(|(_, d)| matches!(d, MExecDef::Op(_))).map(|(i, _)| i).collect();
            if ops.is_empty() {
                return None;
            }
            let i = *ch.pick(&ops);
            let outs: Vec<String> = s.order.iter().filter(|n| s.is_composite(n)).cloned().collect();
            let (base, detail): (String, &'static str) = if ch.flip() { (ch.pick(&outs).clone(), "variable of output type") } else { ("NoSuchType".into(), "variable of unknown type") };
            let ty = match ch.below(3) {
                0 => MType::named(&base),
                1 => MType::non_null(MType::named(&base)),
                _ => MType::list(MType::named(&base)),
            };
            if let MExecDef::Op(o) = &mut doc[i] {
                o.vars.push(MVarDef { name: "badType".into(), ty, default: None, directives: vec![] });
            }
            Some(Fault { label: "variable-not-input-type", class: "variable-definitions".into(), detail })
        }
        11 => {
            // undefined variable somewhere in an argument value
            if ch.chance(1, 3) {
                let loc = *ch.pick(&["FIELD", "FRAGMENT_SPREAD", "INLINE_FRAGMENT"]);
                let class = mutate_directives(ch, doc, s, loc, &mut |ds, _| {
                    ds.retain(|d| d.name != "skip");
                    ds.push(MDirective { name: "skip".into(), args: vec![("if".into(), MValue::Var("undefinedVar".into()))] });
                })?;
                return Some(Fault { label: "undefined-variable", class: format!("directive-arg/{class}"), detail: "undefined variable in @skip" });
            }
            let pred = |sels: &Vec<MSelection>, site: &Site| {
                sels.iter().any(|x| match x {
                    MSelection::Field(f) => s.field(&site.parent, &f.name).map(|d| !d.args.is_empty()).unwrap_or(false),
                    _ => false,
                })
            };
            let n = count_sites(doc, s, &pred);
            if n == 0 {
                return None;
            }
            let k = ch.below(n);
            let nest = ch.below(3);
            let mut detail = "undefined variable as argument";
            let class = mutate_site(doc, s, k, &pred, &mut |sels, site| {
                for x in sels.iter_mut() {
                    if let MSelection::Field(f) = x {
                        if let Some(d) = s.field(&site.parent, &f.name) {
                            if let Some(a) = d.args.first() {
                                f.args.retain(|(k, _)| k != &a.name);
                                let var = MValue::Var("undefinedVar".into());
                                let v = match (&a.ty.nullable(), nest) {
                                    (MType::List(_), 1) => {
                                        detail = "undefined variable inside list literal";
                                        MValue::List(vec![var])
                                    }
                                    _ => var,
                                };
                                f.args.push((a.name.clone(), v));
                                f.alias = Some("undefined_var_variant".into());
                                return;
                            }
                        }
                    }
                }
            })?;
            let class = if detail.contains("list") { format!("{class}/inside-list") } else { class.to_string() };
            Some(Fault { label: "undefined-variable", class, detail })
        }
        21 | 22 => {
            // variable / position type incompatibility at a field argument, anywhere in the document:
            // directly, inside a list literal, inside an input-object literal
            let pred = |sels: &Vec<MSelection>, site: &Site| {
                sels.iter().any(|x| match x {
                    MSelection::Field(f) => s.field(&site.parent, &f.name).map(|d| !d.args.is_empty()).unwrap_or(false),
                    _ => false,
                })
            };
            let n = count_sites(doc, s, &pred);
            if n == 0 {
                return None;
            }
            let k = ch.below(n);
            let variant = ch.below(5);
            let argpick = ch.below(4);
            let objpick = ch.below(4);
            let mut chosen: Option<(MType, &'static str)> = None;
            // pre-draw literal material for the object variant
            let mut lit_ch = Choices::new((0..40).map(|_| ch.raw()).collect());
            let class = mutate_site(doc, s, k, &pred, &mut |sels, site| {
                for x in sels.iter_mut() {
                    if let MSelection::Field(f) = x {
                        if let Some(d) = s.field(&site.parent, &f.name) {
                            if d.args.is_empty() {
                                continue;
                            }
                            let a = &d.args[argpick % d.args.len()];
                            let other_base = |b: &str| if b == "String" { "Int" } else { "String" };
                            fn rebase(t: &MType, nb: &str) -> MType {
                                match t {
                                    MType::Named(_) => MType::named(nb),
                                    MType::List(i) => MType::list(rebase(i, nb)),
                                    MType::NonNull(i) => MType::non_null(rebase(i, nb)),
                                }
                            }
                            let var = MValue::Var("wrongVar".into());
                            let planned: Option<(MValue, MType, &'static str)> = match variant {
                                0 if a.ty.is_non_null() && a.default.is_none() => Some((var.clone(), a.ty.nullable().clone(), "nullable variable in non-null argument without default")),
                                1 => match a.ty.nullable() {
                                    MType::List(elem) if elem.is_non_null() => Some((MValue::List(vec![var.clone()]), elem.nullable().clone(), "nullable variable as element of a list literal with non-null elements")),
                                    MType::List(elem) => Some((MValue::List(vec![var.clone()]), rebase(elem, other_base(elem.base())), "variable of another base type inside a list literal")),
                                    _ => None,
                                },
                                2 => Some((var.clone(), rebase(&a.ty, other_base(a.ty.base())), "variable of another base type")),
                                3 => Some((var.clone(), MType::list(a.ty.clone()), "variable with one more list level")),
                                _ => {
                                    // inside an input-object literal: a required (non-null, default-less) field gets a nullable variable,
                                    // any other field a variable of another base type
                                    match s.types.get(a.ty.base()) {
                                        Some(t) if t.kind == Kind::Input && a.ty.list_depth() == 0 && !t.input_fields.is_empty() => {
                                            let lit = plain_const_value(&mut lit_ch, &s.types, &MType::non_null(MType::named(&t.name)), 0);
                                            let fdef = &t.input_fields[objpick % t.input_fields.len()];
                                            let (vty, what): (MType, &'static str) = if fdef.ty.is_non_null() && fdef.default.is_none() {
                                                (fdef.ty.nullable().clone(), "nullable variable in a required input-object field")
                                            } else {
                                                (rebase(&fdef.ty, other_base(fdef.ty.base())), "variable of another base type in an input-object field")
                                            };
                                            match lit {
                                                MValue::Object(mut fs) => {
                                                    fs.retain(|(k, _)| k != &fdef.name);
                                                    fs.push((fdef.name.clone(), var.clone()));
                                                    Some((MValue::Object(fs), vty, what))
                                                }
                                                _ => None,
                                            }
                                        }
                                        _ => None,
                                    }
                                }
                            };
                            if let Some((value, vty, what)) = planned {
                                f.args.retain(|(k, _)| k != &a.name);
                                // keep other required arguments as they were (the field was valid)
                                f.args.push((a.name.clone(), value));
                                f.alias = Some("wrong_var_variant".into());
                                chosen = Some((vty, what));
                                return;
                            }
                        }
                    }
                }
            })?;
            let (vty, detail) = chosen?;
            for d in doc.iter_mut() {
                if let MExecDef::Op(o) = d {
                    o.vars.push(MVarDef { name: "wrongVar".into(), ty: vty.clone(), default: None, directives: vec![] });
                }
            }
            let pos = if detail.contains("list literal") {
                "inside-list"
            } else if detail.contains("input-object") {
                "inside-object"
            } else {
                "direct"
            };
            Some(Fault { label: "variable-type-incompatible", class: format!("{class}/field-arg/{pos}"), detail })
        }
        12 => {
            // variable / position type incompatibility through @skip(if: $x)
            let ops: Vec<usize> = doc.iter().enumerate().filter(|(_, d)| matches!(d, MExecDef::Op(o) if o.op != OpType::Subscription)).map(|(i, _)| i).collect();
            if ops.is_empty() {
                return None;
            }
            let i = *ch.pick(&ops);
            let (ty, detail): (MType, &'static str) = match ch.below(4) {
                0 => (MType::named("String"), "base type differs"),
                1 => (MType::named("Boolean"), "nullable into non-null without default"),
                2 => (MType::list(MType::named("Boolean")), "list depth differs"),
                _ => (MType::non_null(MType::named("Int")), "base type differs"),
            };
            if let MExecDef::Op(o) = &mut doc[i] {
                o.vars.push(MVarDef { name: "wrongType".into(), ty, default: None, directives: vec![] });
                let d = MDirective { name: "skip".into(), args: vec![("if".into(), MValue::Var("wrongType".into()))] };
                o.sel.push(MSelection::Field(MFieldSel { alias: Some("tn_wrong".into()), name: "__typename".into(), args: vec![], directives: vec![d], sel: None }));
            }
            Some(Fault { label: "variable-type-incompatible", class: "op-root/directive-arg".into(), detail })
        }
        13 => {
            let name = ensure_fragment(ch, doc, s);
            let f = doc.iter().find_map(|d| if let MExecDef::Frag(f) = d { if f.name == name { Some(f.clone()) } else { None } } else { None })?;
            let at = ch.below(doc.len() + 1);
            doc.insert(at, MExecDef::Frag(f));
            Some(Fault { label: "dup-fragment-name", class: "document".into(), detail: "fragment defined twice" })
        }
        14 => {
            // fragment / inline fragment on a non-composite or unknown type
            let non: Vec<String> = s.types.keys().filter(|n| !s.is_composite(n)).cloned().collect();
            let (t, detail): (String, &'static str) = if ch.flip() { (ch.pick(&non).clone(), "non-composite type condition") } else { ("NoSuchType".into(), "unknown type condition") };
            if ch.flip() {
                let name = ensure_fragment(ch, doc, s);
                let depths = fragment_depths(doc);
                for d in doc.iter_mut() {
                    if let MExecDef::Frag(f) = d {
                        if f.name == name {
                            f.on = t.clone();
                        }
                    }
                }
                let class = if depths.contains_key(&name) { "fragment-definition" } else { "fragment-definition-unused" };
                Some(Fault { label: "fragment-on-invalid-type", class: class.into(), detail })
            } else {
                let n = count_sites(doc, s, &any_site);
                if n == 0 {
                    return None;
                }
                let k = ch.below(n);
                let class = mutate_site(doc, s, k, &any_site, &mut |sels, _| {
                    sels.push(MSelection::Inline { on: Some(t.clone()), directives: vec![], sel: vec![plain_field("__typename")] });
                })?;
                Some(Fault { label: "fragment-on-invalid-type", class: format!("{class}/inline"), detail })
            }
        }
        15 => {
            let n = count_sites(doc, s, &any_site);
            if n == 0 {
                return None;
            }
            let k = ch.below(n);
            let class = mutate_site(doc, s, k, &any_site, &mut |sels, _| {
                sels.push(MSelection::Spread { name: "MissingFragment".into(), directives: vec![] });
            })?;
            Some(Fault { label: "unknown-fragment", class: class.into(), detail: "spread of an undefined fragment" })
        }
        16 => {
            // fragment cycle
            // one time in four, inside an operation of a random kind: its selections move into a fresh fragment on
            // the root type, which spreads itself under an inline fragment with that type condition (cycles must be
            // found in queries, mutations and subscriptions alike - a subscription is also walked by the
            // single-root-field counter)
            if ch.chance(1, 4) {
                let ops: Vec<usize> = doc.iter().enumerate().filter(|(_, d)| matches!(d, MExecDef::Op(_))).map(|(i, _)| i).collect();
                if !ops.is_empty() && !doc.iter().any(|d| matches!(d, MExecDef::Frag(f) if f.name == "CycleRoot")) {
                    // prefer a subscription when there is one
                    let subs: Vec<usize> = ops.iter().copied().filter(|&i| matches!(&doc[i], MExecDef::Op(o) if o.op == OpType::Subscription)).collect();
                    let i = if !subs.is_empty() && ch.chance(2, 3) { *ch.pick(&subs) } else { *ch.pick(&ops) };
                    let (root, moved) = match &mut doc[i] {
                        MExecDef::Op(o) => match s.root(o.op) {
                            Some(r) => (r, std::mem::replace(&mut o.sel, vec![MSelection::Spread { name: "CycleRoot".into(), directives: vec![] }])),
                            None => return None,
                        },
                        _ => unreachable!(),
                    };
                    let mut sel = moved;
                    sel.push(MSelection::Inline { on: Some(root.clone()), directives: vec![], sel: vec![MSelection::Spread { name: "CycleRoot".into(), directives: vec![] }] });
                    doc.push(MExecDef::Frag(MFragment { name: "CycleRoot".into(), on: root, directives: vec![], sel }));
                    return Some(Fault { label: "fragment-cycle", class: "used-fragment/operation-root".into(), detail: "operation body moved into a fragment that spreads itself under a typed inline fragment" });
                }
            }
            let name = ensure_fragment(ch, doc, s);
            let depths = fragment_depths(doc);
            let used = depths.contains_key(&name);
            let variant = ch.below(3);
            let mut detail = "fragment spreads itself";
            let on = doc.iter().find_map(|d| if let MExecDef::Frag(f) = d { if f.name == name { Some(f.on.clone()) } else { None } } else { None })?;
            let variant = if variant == 2 && doc.iter().any(|d| matches!(d, MExecDef::Frag(f) if f.name == "CycleB")) { 0 } else { variant };
            match variant {
                0 => {
                    for d in doc.iter_mut() {
                        if let MExecDef::Frag(f) = d {
                            if f.name == name {
                                f.sel.push(MSelection::Spread { name: name.clone(), directives: vec![] });
                            }
                        }
                    }
                }
                1 => {
                    detail = "self spread under inline fragment";
                    for d in doc.iter_mut() {
                        if let MExecDef::Frag(f) = d {
                            if f.name == name {
                                f.sel.push(MSelection::Inline { on: None, directives: vec![], sel: vec![MSelection::Spread { name: name.clone(), directives: vec![] }] });
                            }
                        }
                    }
                }
                _ => {
                    detail = "two fragments spreading each other";
                    doc.push(MExecDef::Frag(MFragment {
                        name: "CycleB".into(),
                        on: on.clone(),
                        directives: vec![],
                        sel: vec![plain_field("__typename"), MSelection::Spread { name: name.clone(), directives: vec![] }],
                    }));
                    for d in doc.iter_mut() {
                        if let MExecDef::Frag(f) = d {
                            if f.name == name {
                                f.sel.push(MSelection::Spread { name: "CycleB".into(), directives: vec![] });
                            }
                        }
                    }
                }
            }
            Some(Fault { label: "fragment-cycle", class: if used { "used-fragment".into() } else { "unused-fragment".into() }, detail })
        }
        17 => {
            // impossible spread: inline fragment / named fragment on a type with no overlap
            let comps: Vec<String> = s.order.iter().filter(|n| s.is_composite(n)).cloned().collect();
            let pred = |_: &Vec<MSelection>, site: &Site| comps.iter().any(|t| !refvalid::types_overlap(s, t, &site.parent));
            let n = count_sites(doc, s, &pred);
            if n == 0 {
                return None;
            }
            let k = ch.below(n);
            let named = ch.chance(1, 3);
            let pick = ch.raw() as usize;
            let mut new_frag: Option<MFragment> = None;
            let mut pair = String::new();
            let class = mutate_site(doc, s, k, &pred, &mut |sels, site| {
                let cands: Vec<&String> = comps.iter().filter(|t| !refvalid::types_overlap(s, t, &site.parent)).collect();
                let t = cands[pick % cands.len()].clone();
                pair = format!("{:?}-in-{:?}", s.kind(&t).unwrap(), s.kind(&site.parent).unwrap());
                if named {
                    new_frag = Some(MFragment { name: "Impossible".into(), on: t, directives: vec![], sel: vec![plain_field("__typename")] });
                    sels.push(MSelection::Spread { name: "Impossible".into(), directives: vec![] });
                } else {
                    sels.push(MSelection::Inline { on: Some(t), directives: vec![], sel: vec![plain_field("__typename")] });
                }
            })?;
            if let Some(f) = new_frag {
                doc.push(MExecDef::Frag(f));
            }
            let class = format!("{class}/{pair}");
            Some(Fault { label: "impossible-spread", class, detail: if named { "named fragment never applies" } else { "inline fragment never applies" } })
        }
        18 => {
            let loc = *ch.pick(EXEC_DIR_LOCS);
            let class = mutate_directives(ch, doc, s, loc, &mut |ds, _| {
                ds.push(MDirective { name: "noSuchDirective".into(), args: vec![] });
            })?;
            Some(Fault { label: "unknown-directive", class, detail: "undefined directive" })
        }
        19 => {
            let loc = *ch.pick(EXEC_DIR_LOCS);
            let class = mutate_directives(ch, doc, s, loc, &mut |ds, l| {
                if matches!(l, "FIELD" | "FRAGMENT_SPREAD" | "INLINE_FRAGMENT") {
                    ds.push(MDirective { name: "deprecated".into(), args: vec![] });
                } else {
                    ds.push(MDirective { name: "skip".into(), args: vec![("if".into(), MValue::Bool(false))] });
                }
            })?;
            Some(Fault { label: "directive-misplaced", class, detail: "directive at a location it does not declare" })
        }
        _ => {
            let loc = *ch.pick(&["FIELD", "FRAGMENT_SPREAD", "INLINE_FRAGMENT"]);
            let class = mutate_directives(ch, doc, s, loc, &mut |ds, _| {
                ds.retain(|d| d.name != "include");
                ds.push(MDirective { name: "include".into(), args: vec![("if".into(), MValue::Bool(true))] });
                ds.push(MDirective { name: "include".into(), args: vec![("if".into(), MValue::Bool(true))] });
            })?;
            Some(Fault { label: "directive-repeated", class, detail: "non-repeatable directive twice" })
        }
    }
}

fn cause_of(f: &Fault) -> &'static str {
    if f.class.contains("unused") {
        "unused-fragment"
    } else if f.detail.contains("input-object-unknown-field") || f.class.contains("input-object-unknown-field") {
        "input-object-unknown-field"
    } else {
        "general"
    }
}

fn strip_vars_in_place(sels: &mut Vec<MSelection>) {
    for s in sels.iter_mut() {
        if let MSelection::Field(f) = s {
            f.args.retain(|(_, v)| {
                let mut set = std::collections::BTreeSet::new();
                vars_in_value(v, &mut set);
                set.is_empty()
            });
            f.directives.clear();
            if let Some(s) = &mut f.sel {
                strip_vars_in_place(s);
            }
        }
    }
}

fn case_fn(case: &mut Case) -> CaseResult {
    let so = schema_opts_from_flags(case);
    let gs = gen_schema(&mut case.ch, &so);
    let mut dopts = doc_opts_from_flags(case);
    dopts.all_fragments_used = case.ch.chance(1, 2);
    // keep response-key discipline simple for faults: no known-false-alarm features
    let (gd, _) = gen_doc(&mut case.ch, &gs.schema, &dopts);
    let mut doc = gd.doc.clone();
    let n_faults = if case.ch.chance(1, 5) { 2 } else { 1 };
    let mut faults = vec![];
    for _ in 0..n_faults {
        if let Some(f) = inject(&mut case.ch, &mut doc, &gs.schema) {
            faults.push(f);
        }
    }
    if faults.is_empty() {
        case.discard("fault-not-applicable");
        return Ok(());
    }
    let labels = refvalid::validate(&gs.schema, &doc);
    for f in &faults {
        if !labels.contains(f.label) {
            if (f.label == "undefined-variable" || f.label == "variable-type-incompatible") && f.class.contains("unused") {
                // variable rules are judged per operation; inside a fragment no operation
                // reaches there is nothing to violate
                case.discard("variable-fault-in-unused-fragment");
                return Ok(());
            }
            if faults.len() > 1 {
                // one injected fault can make another unreachable for the validator
                case.discard("multi-fault-interference");
                return Ok(());
            }
            panic!(
                "harness: injected fault {} ({}) not confirmed by the reference validator (got {labels:?})\nschema:\n{}\ndoc:\n{}",
                f.label,
                f.detail,
                canon_ts(&gs.doc),
                canon_op(&doc)
            );
        }
    }
    let schema_text = canon_ts(&gs.doc);
    let op_text = canon_op(&doc);
    let detail = json!({"schema": schema_text, "operations": op_text,
        "faults": faults.iter().map(|f| json!({"rule": f.label, "position": f.class, "what": f.detail})).collect::<Vec<_>>()});
    let sfiles = vec![(PathBuf::from("/p/schema.graphql"), schema_text.clone())];
    let ofiles = vec![(PathBuf::from("/p/ops.graphql"), op_text.clone())];
    let ss = schema_stage(&sfiles, &detail)?;
    if !ss.ok() {
        let d = ss.all_diags();
        return Err(Failure::new(format!("schema-rejected:{}", d[0].kind), format!("valid schema rejected: {:?}", d[0]), detail));
    }
    // a fifth of the cases check against the schema as an introspection result gives it (what `check` uses when
    // the schema file is a .json): the same rules must fire
    let js;
    let ischema;
    let mut svalue = None;
    if case.ch.chance(1, 5) {
        case.label("schema-via-introspection-json");
        let io = crate::introspect::IntrospectOpts { meta_types: case.ch.flip(), absent_optionals: case.ch.flip(), shuffle: case.ch.flip() };
        js = crate::introspect::introspect(&gs.schema, &io, Some(&mut case.ch));
        ischema = schema_via_introspection(&js, &detail)?;
        svalue = Some(&ischema);
    }
    let os = op_stage_with(ss.doc.as_ref().unwrap(), svalue, 1, &ofiles, &detail)?;
    let diags = os.all_diags();
    let f0 = &faults[0];
    if diags.is_empty() {
        let cause = cause_of(f0);
        return Err(Failure::new(
            format!("miss:{cause}:{}@{}", f0.label, f0.class),
            format!("check accepts a document violating '{}' ({}) at {}", f0.label, f0.detail, f0.class),
            detail,
        ));
    }
    // a diagnostic of the kind belonging to (at least one of) the violated rule(s)
    let any_kind = faults.iter().any(|f| diags.iter().any(|d| allowed_kinds(f.label).contains(&d.kind.as_str())));
    if !any_kind {
        let f = &faults[0];
        return Err(Failure::new(
            format!("wrong-kind:{}:{}@{}", cause_of(f), f.label, f.class),
            format!(
                "document violating '{}' ({}) is rejected, but with no diagnostic of that rule's kind {:?}; got {:?}",
                f.label,
                f.detail,
                allowed_kinds(f.label),
                diags.iter().map(|d| d.kind.clone()).collect::<Vec<_>>()
            ),
            detail,
        ));
    }
    for f in &faults {
        case.label(&format!("{}@{}", f.label, f.class));
        case.nontrivial(&(f.label, f.class.clone(), f.detail));
    }
    case.evals(faults.len() as u64);
    case.sample(|| detail.clone());
    Ok(())
}

/// The same labelled faults through the built CLI on a multi-file project: the faulty document is
/// distributed over files connected by #import lines, `nitrogql check --output-format json` must exit 1
/// with at least one diagnostic. Covers cli/src/check.rs (which decides what is reported per file) and
/// faults that only show in the importing operation's context (variables used by imported fragments).
fn cli_case(case: &mut Case, base: &std::path::Path) -> CaseResult {
    // how the command is started (working directory, --config-file spelling): drawn first so that it varies
    let cli_style = case.ch.below(crate::cli::CLI_STYLES);
    case.label(&format!("cli-style-{cli_style}"));
    use crate::cli::{run_cli, Project};
    let so = schema_opts_from_flags(case);
    let gs = gen_schema(&mut case.ch, &so);
    let mut dopts = doc_opts_from_flags(case);
    dopts.all_fragments_used = true;
    dopts.max_frags = 4;
    let (gd, _) = gen_doc(&mut case.ch, &gs.schema, &dopts);
    // faults inside fragments are what a multi-file project adds over the in-process campaign: up to four
    // attempts, keeping the first fault placed in a fragment (else the last applicable one)
    let mut doc = gd.doc.clone();
    let mut chosen: Option<Fault> = None;
    for _ in 0..4 {
        let mut d2 = gd.doc.clone();
        if let Some(f) = inject(&mut case.ch, &mut d2, &gs.schema) {
            let in_fragment = f.class.contains("fragment");
            doc = d2;
            chosen = Some(f);
            if in_fragment {
                break;
            }
        }
    }
    let Some(fault) = chosen else {
        case.discard("fault-not-applicable");
        return Ok(());
    };
    let labels = refvalid::validate(&gs.schema, &doc);
    if !labels.contains(fault.label) {
        if (fault.label == "undefined-variable" || fault.label == "variable-type-incompatible") && fault.class.contains("unused") {
            case.discard("variable-fault-in-unused-fragment");
            return Ok(());
        }
        panic!("harness: injected fault {} ({}) not confirmed by the reference validator (got {labels:?})\n{}", fault.label, fault.detail, canon_op(&doc));
    }
    // (operations stay in one file: several injected rules speak about one document)
    let split = crate::split::split_into_files_opts(&mut case.ch, &doc, &[], false);
    let proj = Project::new(base);
    let dir = proj.dir.clone();
    proj.write("graphql.config.yaml", "schema: \"schema.graphql\"\ndocuments: \"ops/**/*.graphql\"\n");
    let schema_text = canon_ts(&gs.doc);
    proj.write("schema.graphql", &schema_text);
    let mut files = vec![];
    for (rel, m) in &split.files {
        let t = canon_op(m);
        proj.write(&format!("ops/{rel}"), &t);
        files.push(json!({"path": format!("ops/{rel}"), "text": t}));
    }
    let run = crate::cli::run_cli_styled(&dir, &["check", "--output-format", "json"], cli_style);
    let detail = json!({"schema": schema_text, "operation_files": files, "fault": {"rule": fault.label, "position": fault.class, "what": fault.detail},
        "status": run.status, "stdout": run.stdout.chars().take(1500).collect::<String>(), "stderr": run.stderr.chars().take(600).collect::<String>()});
    proj.remove();
    case.evals(1);
    if std::env::var("VH_DEBUG_C03").is_ok() && fault.label.contains("variable") && fault.class.contains("fragment") && split.files.len() > 1 {
        eprintln!("DEBUG {}@{} status={:?} stdout={}\nFILES {}", fault.label, fault.class, run.status, run.stdout.chars().take(400).collect::<String>(), serde_json::to_string(&files).unwrap());
    }
    if run.crashed() {
        return Err(Failure::new("cli-crashed", format!("check crashed: {}", run.stderr.lines().find(|l| l.contains("panicked")).unwrap_or("signal")), detail));
    }
    let out = run.json().ok();
    let has_errors = out.as_ref().map(|v| v["check"]["errors"].as_array().map(|a| !a.is_empty()).unwrap_or(false)).unwrap_or(false);
    if let Some(m) = out.as_ref().and_then(|v| v["error"]["message"].as_str()).filter(|m| !has_errors && !m.starts_with("Command not successful")) {
        // every injected fault is a check-stage fault: a command-level error means the harness wrote an
        // unloadable project (vacuous case) - never a verdict
        panic!("harness: the generated project could not be loaded by the CLI: {m}\n{detail}");
    }
    let n_diags = out.map(|v| v["check"]["errors"].as_array().map(|a| a.len()).unwrap_or(0)).unwrap_or(0);
    if run.status == Some(0) || n_diags == 0 {
        return Err(Failure::new(
            format!("cli-miss:{}:{}@{}", cause_of(&fault), fault.label, fault.class),
            format!("`nitrogql check` exits {:?} with {n_diags} diagnostics on a project violating '{}' ({}) at {}", run.status, fault.label, fault.detail, fault.class),
            detail,
        ));
    }
    case.label(&format!("{}@{}", fault.label, fault.class));
    case.label(&format!("files-{}", split.files.len()));
    if split.files.len() > 1 {
        case.nontrivial(&(fault.label, fault.class.clone(), split.files.len(), split.max_chain));
    }
    case.sample(|| detail.clone());
    Ok(())
}

pub fn run(env: &Env) -> i32 {
    let mut rep = Report::new(
        env,
        "fault_enumeration",
        "valid (schema, document) pairs from the C04 generators with one (80%) or two (20%) injected rule violations out of 22 fault operators covering every rule listed in the property (each with several syntactic variants), placed at a generated position (operation root, nested field, used fragment, fragment reached through >=2 spreads, inline fragment with/without condition, unused fragment, directive argument, list/input-object literal, each executable directive location). Each fault is confirmed by the reference validator; oracle: check reports >=1 diagnostic and one of the kind belonging to the rule. Non-trivial/distinct = (rule, position class, variant) triples.",
    );
    rep.assume("only rules enumerated in the property are injected; a multi-fault document may violate further rules, which is irrelevant to the oracle");
    let probe = |schema: &'static str, ops: &'static str| {
        move || -> CaseResult {
            let detail = json!({"schema": schema, "operations": ops});
            let sfiles = vec![(PathBuf::from("/p/schema.graphql"), schema.to_string())];
            let ofiles = vec![(PathBuf::from("/p/ops.graphql"), ops.to_string())];
            let ss = schema_stage(&sfiles, &detail)?;
            if !ss.ok() {
                return Err(Failure::new("schema-rejected", format!("{:?}", ss.all_diags()), detail));
            }
            let os = op_stage(ss.doc.as_ref().unwrap(), 1, &ofiles, &detail)?;
            if os.all_diags().is_empty() {
                return Err(Failure::new("miss", "check accepts the invalid document", detail));
            }
            Ok(())
        }
    };
    rep.probe("C03-unused-fragment-unchecked", probe("type Query { a: Int }", "fragment F on Query { nope }\nquery Q { a }"));
    rep.probe("C03-input-object-unknown-field", probe("input I { a: Int b: Int }\ntype Query { f(x: I): Int }", "query Q { f(x: {c: 1}) }"));
    rep.probe("C03-directives-unchecked-at-locations", probe("type Query { a: Int }", "query Q { ... @nope { a } }"));
    rep.probe("C03-same-interface-fragment-unchecked", probe("interface I { a: Int }\ntype T implements I { a: Int }\ntype Query { i: I }", "query Q { i { ... on I { nope } } }"));

    rep.campaign("faults", env.cases(120_000, 1_000_000), (300, 1400), case_fn);
    rep.note("campaign cli-faults: the same fault operators on the built binary: the faulty document is distributed over 1-4 files connected by #import lines and `nitrogql check --output-format json` must exit 1 with >= 1 diagnostic. Non-trivial there: more than one file");
    rep.shrink_iters = Some(300);
    let base = work_dir("c03");
    let b2 = base.clone();
    rep.campaign("cli-faults", env.cases(6_000, 60_000), (300, 1600), move |case| cli_case(case, &b2));
    let _ = std::fs::remove_dir_all(&base);
    rep.finish()
}
