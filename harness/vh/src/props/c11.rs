//! C11 — schema extensions merge into their definitions without loss or invention.

use crate::choices::Choices;
use crate::conv::{c_ts_doc, PosSink};
use crate::gen_syntax::*;
use crate::model::*;
use crate::render::*;
use crate::runner::*;
use nitrogql_ast::{set_current_file_of_pos, TypeSystemOrExtensionDocument};
use nitrogql_error::PositionedError;
use nitrogql_parser::parse_type_system_document;
use nitrogql_semantics::resolve_schema_extensions;
use serde_json::{json, Value};
use std::collections::BTreeMap;

/// key: (kind tag, name). kind tag 0 = schema
type Key = (u8, String);

fn kind_tag(k: Kind) -> u8 {
    match k {
        Kind::Scalar => 1,
        Kind::Object => 2,
        Kind::Interface => 3,
        Kind::Union => 4,
        Kind::Enum => 5,
        Kind::Input => 6,
    }
}

#[derive(Debug, Clone, PartialEq, Eq)]
pub enum Merged {
    Schema(MSchemaDef),
    Type(MTypeDef),
}

#[derive(Debug)]
pub struct RefResult {
    pub merged: BTreeMap<Key, Merged>,
    pub directives: Vec<MDirectiveDef>,
    /// keys that make the input erroneous
    pub duplicates: Vec<Key>,
    pub orphans: Vec<Key>,
}

/// Reference merge over the concatenated document.
pub fn ref_merge(doc: &[MTsDef]) -> RefResult {
    let mut originals: BTreeMap<Key, Vec<Merged>> = BTreeMap::new();
    let mut exts: BTreeMap<Key, Vec<Merged>> = BTreeMap::new();
    let mut directives = vec![];
    for d in doc {
        match d {
            MTsDef::Schema(s) => originals.entry((0, String::new())).or_default().push(Merged::Schema(s.clone())),
            MTsDef::SchemaExt(s) => exts.entry((0, String::new())).or_default().push(Merged::Schema(s.clone())),
            MTsDef::Type(t) => originals
                .entry((kind_tag(t.kind), t.name.clone()))
                .or_default()
                .push(Merged::Type(t.clone())),
            MTsDef::TypeExt(t) => exts
                .entry((kind_tag(t.kind), t.name.clone()))
                .or_default()
                .push(Merged::Type(t.clone())),
            MTsDef::Directive(d) => directives.push(d.clone()),
        }
    }
    let mut duplicates = vec![];
    let mut orphans = vec![];
    let mut merged = BTreeMap::new();
    for (k, v) in &originals {
        if v.len() > 1 {
            duplicates.push(k.clone());
        }
    }
    for k in exts.keys() {
        if !originals.contains_key(k) {
            orphans.push(k.clone());
        }
    }
    for (k, v) in originals {
        let mut base = v[0].clone();
        for e in exts.get(&k).cloned().unwrap_or_default() {
            match (&mut base, e) {
                (Merged::Schema(b), Merged::Schema(e)) => {
                    b.directives.extend(e.directives);
                    b.roots.extend(e.roots);
                }
                (Merged::Type(b), Merged::Type(e)) => {
                    b.implements.extend(e.implements);
                    b.directives.extend(e.directives);
                    b.fields.extend(e.fields);
                    b.members.extend(e.members);
                    b.values.extend(e.values);
                    b.input_fields.extend(e.input_fields);
                }
                _ => unreachable!(),
            }
        }
        merged.insert(k, base);
    }
    RefResult { merged, directives, duplicates, orphans }
}

pub struct FileRender {
    pub text: String,
    /// per definition: (first token, keyword token)
    pub anchors: Vec<(Tok, Tok)>,
    pub stats: TriviaStats,
}

pub fn render_ts_file(defs: &[MTsDef], opts: RenderOpts, ch: Option<&mut Choices>) -> FileRender {
    let mut o = Out::new(opts, ch);
    let mut idx = vec![];
    for d in defs {
        let start = o.tokens.len();
        r_ts_def(&mut o, d);
        let has_desc = match d {
            MTsDef::Schema(s) => s.desc.is_some(),
            MTsDef::Type(t) => t.desc.is_some(),
            MTsDef::Directive(d) => d.desc.is_some(),
            _ => false,
        };
        idx.push((start, if has_desc { start + 1 } else { start }));
    }
    let r = o.finish();
    FileRender {
        anchors: idx
            .into_iter()
            .map(|(a, b)| (r.tokens[a].clone(), r.tokens[b].clone()))
            .collect(),
        text: r.text,
        stats: r.stats,
    }
}

/// Outcome of running nitrogql on a multi-file type-system document.
pub enum Resolved {
    Ok(Vec<MTsDef>),
    Err { message: String, pos: Option<(usize, usize, usize)> },
}

pub fn run_resolve(texts: &[String]) -> Result<Resolved, Failure> {
    let detail = json!({"files": texts});
    let mut docs = vec![];
    for (i, t) in texts.iter().enumerate() {
        set_current_file_of_pos(i);
        let parsed = guard(|| parse_type_system_document(t))
            .map_err(|p| panic_failure("parse_type_system_document", &p, detail.clone()))?;
        match parsed {
            Ok(d) => docs.push(d),
            Err(e) => {
                return Err(Failure::new(
                    "harness:render-unparsable",
                    format!("generated file {i} does not parse: {}", e.into_message()),
                    detail,
                ));
            }
        }
    }
    let merged = TypeSystemOrExtensionDocument::merge(docs);
    let r = guard(|| resolve_schema_extensions(merged))
        .map_err(|p| panic_failure("resolve_schema_extensions", &p, detail.clone()))?;
    Ok(match r {
        Ok(doc) => {
            let mut ps = PosSink::default();
            Resolved::Ok(c_ts_doc(&doc, &mut ps))
        }
        Err(e) => {
            let pe: PositionedError = e.into();
            let pos = pe.position().map(|p| (p.file, p.line, p.column));
            Resolved::Err { message: pe.into_inner().to_string(), pos }
        }
    })
}

fn split_result(doc: &[MTsDef]) -> (BTreeMap<Key, Vec<Merged>>, Vec<MDirectiveDef>, usize) {
    let mut m: BTreeMap<Key, Vec<Merged>> = BTreeMap::new();
    let mut dirs = vec![];
    let mut exts = 0;
    for d in doc {
        match d {
            MTsDef::Schema(s) => m.entry((0, String::new())).or_default().push(Merged::Schema(s.clone())),
            MTsDef::Type(t) => m
                .entry((kind_tag(t.kind), t.name.clone()))
                .or_default()
                .push(Merged::Type(t.clone())),
            MTsDef::Directive(d) => dirs.push(d.clone()),
            _ => exts += 1,
        }
    }
    (m, dirs, exts)
}

/// Compare nitrogql's resolution of `files` with the reference merge.
pub fn check_files(files: &[Vec<MTsDef>], rendered: &[FileRender]) -> Result<(), Failure> {
    let texts: Vec<String> = rendered.iter().map(|r| r.text.clone()).collect();
    let concat: Vec<MTsDef> = files.iter().flatten().cloned().collect();
    let reference = ref_merge(&concat);
    let detail = |extra: Value| json!({"files": texts, "observed": extra});
    let resolved = run_resolve(&texts)?;
    let expect_err = !reference.duplicates.is_empty() || !reference.orphans.is_empty();
    match resolved {
        Resolved::Err { message, pos } => {
            if !expect_err {
                return Err(Failure::new(
                    "spurious-error",
                    format!("resolve failed on an input without duplicate/orphan: {message}"),
                    detail(json!(message)),
                ));
            }
            // position must be that of an offending item
            let Some((pf, pl, pc)) = pos else {
                return Err(Failure::new(
                    "error-without-position",
                    format!("extension error has no position: {message}"),
                    detail(json!(message)),
                ));
            };
            let mut allowed = vec![];
            for (fi, defs) in files.iter().enumerate() {
                for (di, d) in defs.iter().enumerate() {
                    let (key, is_ext) = match d {
                        MTsDef::Schema(_) => ((0, String::new()), false),
                        MTsDef::SchemaExt(_) => ((0, String::new()), true),
                        MTsDef::Type(t) => ((kind_tag(t.kind), t.name.clone()), false),
                        MTsDef::TypeExt(t) => ((kind_tag(t.kind), t.name.clone()), true),
                        MTsDef::Directive(_) => continue,
                    };
                    let offending = (!is_ext && reference.duplicates.contains(&key))
                        || (is_ext && reference.orphans.contains(&key));
                    if offending {
                        let (first, kw) = &rendered[fi].anchors[di];
                        allowed.push((fi, first.line, first.col));
                        allowed.push((fi, kw.line, kw.col));
                    }
                }
            }
            if !allowed.contains(&(pf, pl, pc)) {
                return Err(Failure::new(
                    "error-position-not-at-offending-item",
                    format!(
                        "error '{message}' at file {pf} {pl}:{pc}, which is not the start of any duplicated definition / orphaned extension {allowed:?}"
                    ),
                    detail(json!({"message": message, "pos": [pf, pl, pc]})),
                ));
            }
            Ok(())
        }
        Resolved::Ok(doc) => {
            if expect_err {
                return Err(Failure::new(
                    if !reference.duplicates.is_empty() { "missed-duplicate" } else { "missed-orphan" },
                    format!(
                        "resolve succeeded although duplicates={:?} orphans={:?}",
                        reference.duplicates, reference.orphans
                    ),
                    detail(json!(null)),
                ));
            }
            let (got, got_dirs, exts) = split_result(&doc);
            if exts > 0 {
                return Err(Failure::new("extension-survives", "an extend item survived", detail(json!(null))));
            }
            if got_dirs != reference.directives {
                return Err(Failure::new(
                    "directive-definitions-changed",
                    "directive definitions differ from the input (content or order)",
                    detail(json!(format!("{got_dirs:?}"))),
                ));
            }
            for (k, v) in &got {
                if v.len() != 1 {
                    return Err(Failure::new(
                        "definition-duplicated-in-output",
                        format!("{k:?} appears {} times in the output", v.len()),
                        detail(json!(null)),
                    ));
                }
                match reference.merged.get(k) {
                    None => {
                        return Err(Failure::new(
                            "definition-invented",
                            format!("{k:?} is in the output but not in the input"),
                            detail(json!(null)),
                        ));
                    }
                    Some(exp) => {
                        if exp != &v[0] {
                            let sig = diff_component(exp, &v[0]);
                            return Err(Failure::new(
                                format!("merge-differs:{sig}"),
                                format!("merged definition {k:?} differs in {sig}: expected {exp:?}, got {:?}", v[0]),
                                detail(json!(format!("{:?}", v[0]))),
                            ));
                        }
                    }
                }
            }
            for k in reference.merged.keys() {
                if !got.contains_key(k) {
                    return Err(Failure::new(
                        "definition-lost",
                        format!("{k:?} is missing from the output"),
                        detail(json!(null)),
                    ));
                }
            }
            Ok(())
        }
    }
}

fn diff_component(a: &Merged, b: &Merged) -> String {
    match (a, b) {
        (Merged::Schema(a), Merged::Schema(b)) => {
            if a.desc != b.desc {
                "schema.description".into()
            } else if a.directives != b.directives {
                "schema.directives".into()
            } else {
                "schema.roots".into()
            }
        }
        (Merged::Type(a), Merged::Type(b)) => {
            let k = a.kind.keyword();
            if a.desc != b.desc {
                format!("{k}.description")
            } else if a.implements != b.implements {
                format!("{k}.implements")
            } else if a.directives != b.directives {
                format!("{k}.directives")
            } else if a.fields != b.fields {
                format!("{k}.fields")
            } else if a.members != b.members {
                format!("{k}.members")
            } else if a.values != b.values {
                format!("{k}.values")
            } else {
                format!("{k}.input_fields")
            }
        }
        _ => "kind".into(),
    }
}

/// Generate a multiset of definitions and extensions with a small name pool so that
/// extensions find their definitions (and sometimes do not).
pub fn gen_doc(ch: &mut Choices, want_error: bool) -> Vec<MTsDef> {
    let names = ["T", "U", "V", "W"];
    let mut doc: Vec<MTsDef> = vec![];
    let n_defs = ch.range(1, 6);
    let mut defined: Vec<(Kind, String)> = vec![];
    let mut has_schema = false;
    for _ in 0..n_defs {
        match ch.weighted(&[10, 1, 2]) {
            0 => {
                let kind = *ch.pick(&Kind::ALL);
                let name = ch.pick(&names).to_string();
                if defined.contains(&(kind, name.clone())) {
                    continue;
                }
                defined.push((kind, name.clone()));
                doc.push(MTsDef::Type(g_type_def(ch, kind, &name, false)));
            }
            1 => {
                if !has_schema {
                    has_schema = true;
                    doc.push(MTsDef::Schema(g_schema_def(ch, false)));
                }
            }
            _ => doc.push(MTsDef::Directive(g_directive_def(ch))),
        }
    }
    // extensions of defined items
    let n_ext = ch.below(7);
    for _ in 0..n_ext {
        if has_schema && ch.chance(1, 6) {
            doc.push(MTsDef::SchemaExt(g_schema_def(ch, true)));
        } else if !defined.is_empty() {
            let (kind, name) = ch.pick(&defined).clone();
            doc.push(MTsDef::TypeExt(g_type_def(ch, kind, &name, true)));
        }
    }
    if want_error {
        match ch.below(4) {
            0 if !defined.is_empty() => {
                // duplicate original within a kind
                let (kind, name) = ch.pick(&defined).clone();
                doc.push(MTsDef::Type(g_type_def(ch, kind, &name, false)));
            }
            1 => {
                // orphan: extension of an undefined name, or of a name defined in another kind
                let kind = *ch.pick(&Kind::ALL);
                let name = if !defined.is_empty() && ch.flip() {
                    let (k2, n2) = ch.pick(&defined).clone();
                    if k2 != kind && !defined.contains(&(kind, n2.clone())) { n2 } else { "Z".to_string() }
                } else {
                    "Z".to_string()
                };
                doc.push(MTsDef::TypeExt(g_type_def(ch, kind, &name, true)));
            }
            2 => {
                if has_schema {
                    doc.push(MTsDef::Schema(g_schema_def(ch, false)));
                } else {
                    doc.push(MTsDef::SchemaExt(g_schema_def(ch, true)));
                }
            }
            _ => {
                let kind = *ch.pick(&Kind::ALL);
                doc.push(MTsDef::TypeExt(g_type_def(ch, kind, "Orphan", true)));
            }
        }
    }
    // order: any, including extension before definition
    ch.shuffle(&mut doc);
    doc
}

pub fn split_files(ch: &mut Choices, doc: Vec<MTsDef>) -> Vec<Vec<MTsDef>> {
    let nfiles = ch.range(1, 4);
    let mut files: Vec<Vec<MTsDef>> = vec![vec![]; nfiles];
    for d in doc {
        let i = ch.below(nfiles);
        files[i].push(d);
    }
    files.retain(|f| !f.is_empty());
    files
}

fn key_of(d: &MTsDef) -> Option<(Key, bool)> {
    match d {
        MTsDef::Schema(_) => Some(((0, String::new()), false)),
        MTsDef::SchemaExt(_) => Some(((0, String::new()), true)),
        MTsDef::Type(t) => Some(((kind_tag(t.kind), t.name.clone()), false)),
        MTsDef::TypeExt(t) => Some(((kind_tag(t.kind), t.name.clone()), true)),
        MTsDef::Directive(_) => None,
    }
}

fn case_fn(case: &mut Case) -> CaseResult {
    let want_error = case.ch.chance(1, 4);
    let mut doc = gen_doc(&mut case.ch, want_error);
    // one case in five: 12-40 filler definitions sprinkled in, so that documents are larger than any small
    // threshold inside the resolver (sorting / hashing strategies change with size)
    if case.ch.chance(1, 5) {
        let n = case.ch.range(12, 40);
        for i in 0..n {
            let at = case.ch.below(doc.len() + 1);
            doc.insert(at, MTsDef::Type(MTypeDef::new(Kind::Scalar, &format!("Filler{i}"))));
        }
        case.label("large-document");
    }
    let files = split_files(&mut case.ch, doc.clone());
    let opts = if case.ch.chance(1, 3) {
        let mut o = RenderOpts::wild();
        // findings that belong to C07 stay out of C11's inputs
        o.allow_cooked_block = false;
        o.allow_block = false;
        o.allow_surrogate_escape = false;
        o.allow_eof_comment_no_newline = false;
        o.allow_lone_cr = false;
        o
    } else {
        RenderOpts::canonical()
    };
    let rendered: Vec<FileRender> = files
        .iter()
        .map(|f| render_ts_file(f, opts.clone(), Some(&mut case.ch)))
        .collect();
    check_files(&files, &rendered)?;
    case.evals(1);

    // classification
    let concat: Vec<MTsDef> = files.iter().flatten().cloned().collect();
    let mut kinds_ext = std::collections::BTreeSet::new();
    let mut ext_before_def = false;
    let mut seen_def: Vec<Key> = vec![];
    for d in &concat {
        if let Some((k, is_ext)) = key_of(d) {
            if is_ext {
                kinds_ext.insert(k.0);
                if !seen_def.contains(&k) {
                    ext_before_def = true;
                }
            } else {
                seen_def.push(k);
            }
        }
    }
    if want_error {
        case.label("error-injected");
    }
    if ext_before_def {
        case.label("extension-before-definition");
    }
    if files.len() >= 2 {
        case.label("multi-file");
    }
    case.label(&format!("kinds-extended-{}", kinds_ext.len().min(3)));
    if kinds_ext.len() >= 2 && ext_before_def && files.len() >= 2 {
        case.nontrivial(&files);
    }
    case.sample(|| json!({"files": rendered.iter().map(|r| r.text.clone()).collect::<Vec<_>>(), "error_injected": want_error}));

    // metamorphic: permutation preserving the relative order of same-key extensions,
    // and redistribution over files => same result up to definition order.
    if !want_error {
        let mut perm_doc = concat.clone();
        case.ch.shuffle(&mut perm_doc);
        // restore relative order of same-key extensions
        let mut ext_queues: BTreeMap<Key, Vec<MTsDef>> = BTreeMap::new();
        for d in &concat {
            if let Some((k, true)) = key_of(d) {
                ext_queues.entry(k).or_default().push(d.clone());
            }
        }
        for q in ext_queues.values_mut() {
            q.reverse();
        }
        for d in perm_doc.iter_mut() {
            if let Some((k, true)) = key_of(d) {
                *d = ext_queues.get_mut(&k).unwrap().pop().unwrap();
            }
        }
        // directive definitions keep their order as well (they pass through in order)
        let mut dir_queue: Vec<MTsDef> = concat.iter().filter(|d| matches!(d, MTsDef::Directive(_))).cloned().collect();
        dir_queue.reverse();
        for d in perm_doc.iter_mut() {
            if matches!(d, MTsDef::Directive(_)) {
                *d = dir_queue.pop().unwrap();
            }
        }
        let files2 = split_files(&mut case.ch, perm_doc);
        let rendered2: Vec<FileRender> = files2
            .iter()
            .map(|f| render_ts_file(f, RenderOpts::canonical(), None))
            .collect();
        check_files(&files2, &rendered2).map_err(|mut f| {
            f.signature = format!("permuted:{}", f.signature);
            f
        })?;
        case.evals(1);
    }
    Ok(())
}

/// The same statement through the built CLI (`check`): a valid schema written as definitions plus extensions over 1-4
/// files (a built-in scalar may be extended too) is accepted; with one injected resolution fault (a second
/// definition of a type in another file, an extension without a definition, a built-in scalar defined again) the
/// command fails with a diagnostic in a file that holds an offending item.
fn cli_case(case: &mut Case, base: &std::path::Path) -> CaseResult {
    use crate::cli::{run_cli_styled, Project, CLI_STYLES};
    use crate::gen_schema::{gen_schema, split_into_extensions, SchemaGenOpts};
    let cli_style = case.ch.below(CLI_STYLES);
    let fault = if case.ch.chance(1, 2) { 1 + case.ch.below(3) } else { 0 };
    let mut so = SchemaGenOpts::default();
    so.descriptions = 0;
    let gs = gen_schema(&mut case.ch, &so);
    let mut files: Vec<Vec<MTsDef>> = split_into_extensions(&mut case.ch, &gs.doc).into_iter().filter(|f| !f.is_empty()).collect();
    while files.len() < 2 {
        files.push(vec![MTsDef::Type(MTypeDef::new(Kind::Scalar, &format!("Pad{}", files.len())))]);
    }
    let mut texts: Vec<String> = files.iter().map(|f| crate::render::canon_ts(f)).collect();
    // a built-in scalar has an implicit definition: extending it is legal
    let tag_on_scalar = gs.schema.directives.get("tag").map(|d| d.locations.iter().any(|l| l == "SCALAR")).unwrap_or(false);
    if tag_on_scalar && case.ch.chance(1, 3) {
        // (not String / Int: @tag has arguments of these types, and a directive must not be applied within its own argument types)
        let b = *case.ch.pick(&["ID", "Float", "Boolean"]);
        let i = case.ch.below(texts.len());
        texts[i].push_str(&format!("\nextend scalar {b} @tag(name: \"built-in\")\n"));
        case.label("extends-built-in-scalar");
    }
    // the fault goes into a file other than the first one half of the time (positions carry a file index)
    let n = texts.len();
    let at = if case.ch.flip() { n - 1 } else { case.ch.below(n) };
    let mut offending: Vec<usize> = vec![];
    let what = match fault {
        1 => {
            // a type of the schema defined once more, in file `at`
            let names: Vec<(usize, String, Kind)> = files
                .iter()
                .enumerate()
                .flat_map(|(i, f)| f.iter().filter_map(move |d| if let MTsDef::Type(t) = d { Some((i, t.name.clone(), t.kind)) } else { None }))
                .collect();
            let (home, name, kind) = names[case.ch.below(names.len())].clone();
            let body = match kind {
                Kind::Scalar => format!("scalar {name}"),
                Kind::Object => format!("type {name} {{ again: Int }}"),
                Kind::Interface => format!("interface {name} {{ again: Int }}"),
                Kind::Union => format!("union {name} = {}", gs.schema.objects().first().map(|o| o.name.clone()).unwrap_or_else(|| "Query".into())),
                Kind::Enum => format!("enum {name} {{ AGAIN }}"),
                Kind::Input => format!("input {name} {{ again: Int }}"),
            };
            texts[at].push_str(&format!("\n{body}\n"));
            offending = vec![home, at];
            "duplicate-definition"
        }
        2 => {
            let kw = *case.ch.pick(&["type", "interface", "input", "enum", "union", "scalar"]);
            let body = match kw {
                "type" | "interface" | "input" => format!("extend {kw} NoSuchDefinition {{ x: Int }}"),
                "enum" => "extend enum NoSuchDefinition { X }".to_string(),
                "union" => format!("extend union NoSuchDefinition = {}", gs.schema.objects().first().map(|o| o.name.clone()).unwrap_or_else(|| "Query".into())),
                _ => "extend scalar NoSuchDefinition @deprecated".to_string(),
            };
            texts[at].push_str(&format!("\n{body}\n"));
            offending = vec![at];
            "orphan-extension"
        }
        3 => {
            let b = *case.ch.pick(&["ID", "String", "Int", "Float", "Boolean"]);
            texts[at].push_str(&format!("\nscalar {b}\n"));
            offending = vec![at];
            "built-in-scalar-defined-again"
        }
        _ => "valid",
    };
    let proj = Project::new(base);
    proj.write("graphql.config.yaml", "schema: \"schema/*.graphqls\"\ndocuments: \"ops/*.graphql\"\n");
    for (i, t) in texts.iter().enumerate() {
        proj.write(&format!("schema/f{i}.graphqls"), t);
    }
    proj.write("ops/q.graphql", "query CliQ { __typename }\n");
    let run = run_cli_styled(&proj.dir, &["check", "--output-format", "json"], cli_style);
    let detail = json!({"fault": what, "files": texts.iter().enumerate().map(|(i, t)| json!({"path": format!("schema/f{i}.graphqls"), "text": t})).collect::<Vec<_>>(),
        "status": run.status, "stdout": run.stdout.chars().take(1500).collect::<String>(), "stderr": run.stderr.chars().take(400).collect::<String>()});
    proj.remove();
    case.evals(1);
    case.label(what);
    case.label(&format!("cli-style-{cli_style}"));
    if run.crashed() {
        return Err(Failure::new("cli-crashed", format!("check crashed: {}", run.stderr.lines().find(|l| l.contains("panicked")).unwrap_or("signal")), detail));
    }
    if fault == 0 {
        if run.status != Some(0) {
            return Err(Failure::new("cli-rejects-valid-extensions", format!("`check` exits {:?} on a valid schema written as definitions and extensions", run.status), detail));
        }
    } else {
        if run.status != Some(1) {
            return Err(Failure::new(format!("cli-accepts:{what}"), format!("`check` exits {:?}, expected 1 ({what})", run.status), detail));
        }
        // some diagnostic lies in a file that holds an offending item
        let v: Value = serde_json::from_str(run.stdout.trim()).unwrap_or(Value::Null);
        let mut named: Vec<String> = vec![];
        fn collect(v: &Value, out: &mut Vec<String>) {
            match v {
                Value::Object(m) => {
                    if let Some(p) = m.get("path").and_then(|p| p.as_str()) {
                        out.push(p.to_string());
                    }
                    for x in m.values() {
                        collect(x, out);
                    }
                }
                Value::Array(a) => a.iter().for_each(|x| collect(x, out)),
                _ => {}
            }
        }
        collect(&v, &mut named);
        // (a command-level message embeds the location in its text)
        let text = run.stdout.clone();
        let hit = offending.iter().any(|i| {
            let f = format!("f{i}.graphqls");
            named.iter().any(|p| p.ends_with(&f)) || text.contains(&f)
        });
        if !hit {
            return Err(Failure::new(
                format!("cli-diagnostic-elsewhere:{what}"),
                format!("no diagnostic names a file holding an offending item ({:?}); files named: {named:?}", offending.iter().map(|i| format!("f{i}.graphqls")).collect::<Vec<_>>()),
                detail,
            ));
        }
    }
    if fault != 0 && at != 0 {
        case.nontrivial(&(&texts, what));
    } else if fault == 0 && texts.len() >= 3 {
        case.nontrivial(&(&texts, what));
    }
    case.sample(|| json!({"fault": what, "files": texts.len(), "status": run.status}));
    Ok(())
}

pub fn run(env: &Env) -> i32 {
    let mut rep = Report::new(
        env,
        "exploration",
        "multisets of definitions/extensions of all 7 kinds (0-6 extensions, names from a 4-name pool shared across kinds, directive definitions, every optional component) shuffled (extension may precede definition), split over 1-4 files, rendered canonically or with random trivia; 25% carry an injected duplicate/orphan. Oracle: reference merge (original ++ extensions in document order) compared per (kind,name); Err iff duplicate/orphan with position at an offending item; metamorphic permutation/redistribution. Non-trivial: >=2 kinds extended AND an extension before its definition AND >=2 files; distinct = the file contents.",
    );
    rep.assume("the harness renderer produces text nitrogql parses (a parse failure of generated text is reported as a harness error, not as a C11 violation)");
    rep.assume("definition order in the result is not compared (the statement fixes contents, not order); directive definitions are compared in order");

    // regression / known-finding probes (none listed for C11 at the moment)
    rep.campaign("merge", env.cases(100_000, 1_000_000), (0, 400), case_fn);
    rep.note("campaign cli-merge (built CLI, `check`): a generated valid schema written as definitions plus extensions over 2-4 files (a built-in scalar may be extended), valid (50%) or with one injected resolution fault (second definition of a type in another file, extension without definition, built-in scalar defined again), started in five ways; exit 0 for the valid ones, exit 1 with a diagnostic in a file that holds an offending item otherwise. Non-trivial: fault outside the first file, or a valid schema over >= 3 files");
    let base = work_dir("c11");
    let b2 = base.clone();
    rep.campaign("cli-merge", env.cases(300, 6_000), (200, 1200), move |case| cli_case(case, &b2));
    let _ = std::fs::remove_dir_all(&base);
    rep.finish()
}
