//! C06 — emitted source maps are valid and point at the defining GraphQL tokens.

use crate::cli::*;
use crate::projects::*;
use crate::refparse::{self, LTok, T};
use crate::runner::*;
use crate::smap::{self, Segment, SourceMap};
use crate::tsmini::{self, Stmt, Ty};
use nitrogql_ast::base::{HasPos, Pos};
use serde_json::{json, Value};
use sourcemap_writer::{SourceMapWriter, SourceWriter};
use std::collections::BTreeMap;
use std::path::Path;

struct Node {
    pos: Pos,
    name: Option<String>,
}
impl HasPos for Node {
    fn position(&self) -> &Pos {
        &self.pos
    }
    fn name(&self) -> Option<&str> {
        self.name.as_deref()
    }
}

fn pos(line: usize, column: usize, file: usize) -> Pos {
    Pos { line, column, file, builtin: false }
}

/// VLQ round trip through the public writer surface: the k-th delta is n_k
fn vlq_batch(ns: &[i64]) -> Result<(), Failure> {
    const BASE: i64 = 1 << 40;
    let mut w = SourceWriter::new();
    let mut expected_cols: Vec<i64> = vec![];
    let mut cur = BASE;
    // first entry establishes the base
    w.write_for("x", &Node { pos: pos(0, cur as usize, 0), name: None });
    expected_cols.push(cur);
    for n in ns {
        cur += n;
        if cur < 0 {
            cur -= n;
            continue;
        }
        w.write_for("x", &Node { pos: pos(0, cur as usize, 0), name: None });
        expected_cols.push(cur);
        // come back to the base so that deltas stay the numbers under test
        if cur != BASE {
            let back = BASE - cur;
            cur = BASE;
            let _ = back;
            w.write_for("x", &Node { pos: pos(0, cur as usize, 0), name: None });
            expected_cols.push(cur);
        }
    }
    let b = w.into_buffers();
    let segs = smap::decode_mappings(&b.source_map).map_err(|e| Failure::new("vlq-undecodable", e, json!({"mappings": &b.source_map[..b.source_map.len().min(200)]})))?;
    if segs.len() != expected_cols.len() {
        return Err(Failure::new("vlq-segment-count", format!("{} segments for {} entries", segs.len(), expected_cols.len()), json!(null)));
    }
    for (k, (s, e)) in segs.iter().zip(expected_cols.iter()).enumerate() {
        if s.orig_col != Some(*e) || s.gen_col != k as i64 {
            return Err(Failure::new(
                "vlq-roundtrip",
                format!("entry {k}: decoded original column {:?} / generated column {}, expected {e} / {k}", s.orig_col, s.gen_col),
                json!({"n": ns.get(k.saturating_sub(1) / 2)}),
            ));
        }
    }
    Ok(())
}

// ---------------------------------------------------------------------------
// writer histories

#[derive(Clone, Debug)]
enum WOp {
    Write(String),
    WriteFor { chunk: String, line: usize, col: usize, file: usize, name: Option<String> },
    Indent,
    Dedent,
}

const CHUNKS: &[&str] = &["a", "abc", "\n", "x\ny", "\n\n", "\u{e9}", "\u{1F600}", "", "a\n", "  ", "{\n", "};\n", "q\u{1F600}r\nz"];
const NAMES: &[&str] = &["a", "User", "caf\u{e9}", "\u{1F600}n", "x1", "n0", "n1", "n2", "n3", "n4", "n5", "n6", "n7", "n8", "n9", "n10", "n11"];

fn utf16(s: &str) -> usize {
    s.encode_utf16().count()
}

fn writer_history_case(case: &mut Case) -> CaseResult {
    let n = case.ch.range(1, 40);
    let mut ops = vec![];
    for _ in 0..n {
        ops.push(match case.ch.below(8) {
            0 | 1 => WOp::Write(case.ch.pick(CHUNKS).to_string()),
            2 | 3 | 4 | 5 => WOp::WriteFor {
                chunk: case.ch.pick(CHUNKS).to_string(),
                line: case.ch.below(50),
                col: case.ch.below(120),
                file: case.ch.below(3),
                name: if case.ch.chance(2, 3) { Some(case.ch.pick(NAMES).to_string()) } else { None },
            },
            6 => WOp::Indent,
            _ => WOp::Dedent,
        });
    }
    let detail = json!({"ops": ops.iter().map(|o| format!("{o:?}")).collect::<Vec<_>>()});
    // run the real writer
    let (buffers, expected) = guard(|| {
        let mut w = SourceWriter::new();
        // reference model of the original-side fields (what was passed in)
        let mut expected: Vec<(Option<String>, usize, usize, usize, bool, String)> = vec![];
        for op in &ops {
            match op {
                WOp::Write(c) => w.write(c),
                WOp::WriteFor { chunk, line, col, file, name } => {
                    w.write_for(chunk, &Node { pos: pos(*line, *col, *file), name: name.clone() });
                    expected.push((name.clone(), *line, *col, *file, false, chunk.clone()));
                    if let Some(nm) = name {
                        expected.push((None, *line, *col + utf16(nm), *file, true, String::new()));
                    }
                }
                WOp::Indent => w.indent(),
                WOp::Dedent => w.dedent(),
            }
        }
        (w.into_buffers(), expected)
    })
    .map_err(|p| panic_failure("SourceWriter", &p, detail.clone()))?;
    let segs = smap::decode_mappings(&buffers.source_map)
        .map_err(|e| Failure::new("mappings-undecodable", e, json!({"detail": detail, "mappings": buffers.source_map})))?;
    if segs.len() != expected.len() {
        return Err(Failure::new(
            "segment-count",
            format!("{} segments decoded, {} entries written", segs.len(), expected.len()),
            json!({"detail": detail, "mappings": buffers.source_map}),
        ));
    }
    let lines: Vec<&str> = buffers.buffer.split('\n').collect();
    let mut prev: Option<(usize, i64)> = None;
    for (k, (s, e)) in segs.iter().zip(expected.iter()).enumerate() {
        case.evals(1);
        let bad = |what: &str, msg: String| Failure::new(format!("writer:{what}"), format!("segment {k}: {msg}"), json!({"detail": detail, "mappings": buffers.source_map, "generated": buffers.buffer}));
        if s.gen_col < 0 {
            return Err(bad("negative-generated-column", format!("{}", s.gen_col)));
        }
        if let Some((pl, pc)) = prev {
            if (s.gen_line, s.gen_col) < (pl, pc) {
                return Err(bad("unordered", format!("generated position {}:{} after {}:{}", s.gen_line, s.gen_col, pl, pc)));
            }
        }
        prev = Some((s.gen_line, s.gen_col));
        if s.gen_line >= lines.len() || s.gen_col as usize > utf16(lines[s.gen_line]) {
            return Err(bad("outside-generated-text", format!("generated position {}:{} is outside the text", s.gen_line, s.gen_col)));
        }
        if s.source != Some(e.3 as i64) || s.orig_line != Some(e.1 as i64) || s.orig_col != Some(e.2 as i64) {
            return Err(bad(
                "original-position",
                format!("decoded source/line/col {:?}/{:?}/{:?}, written {}/{}/{}", s.source, s.orig_line, s.orig_col, e.3, e.1, e.2),
            ));
        }
        match (&e.0, s.name) {
            (Some(n), Some(i)) => {
                if buffers.names.get(i as usize) != Some(n) {
                    return Err(bad("name", format!("name index {i} is {:?}, written {n:?}", buffers.names.get(i as usize))));
                }
            }
            (None, None) => {}
            (a, b) => return Err(bad("name-presence", format!("written name {a:?}, decoded name index {b:?}"))),
        }
        // a named segment starts exactly at its chunk
        if e.0.is_some() && !e.5.is_empty() {
            let first_line = e.5.split('\n').next().unwrap();
            if !first_line.is_empty() {
                let line16: Vec<u16> = lines[s.gen_line].encode_utf16().collect();
                let want: Vec<u16> = first_line.encode_utf16().collect();
                let at = s.gen_col as usize;
                if line16.len() < at + want.len() || line16[at..at + want.len()] != want[..] {
                    return Err(bad("generated-column-not-at-chunk", format!("generated {}:{} does not start with the written chunk {:?}", s.gen_line, s.gen_col, first_line)));
                }
            }
        }
    }
    let has_astral = ops.iter().any(|o| matches!(o, WOp::Write(c) | WOp::WriteFor { chunk: c, .. } if c.contains('\u{1F600}')));
    let has_nl = buffers.buffer.contains('\n');
    let has_indent = ops.iter().any(|o| matches!(o, WOp::Indent));
    if has_astral && has_nl && has_indent && expected.len() >= 3 {
        case.nontrivial(&detail.to_string());
    }
    case.sample(|| json!({"ops": detail["ops"], "mappings": buffers.source_map}));
    Ok(())
}

// ---------------------------------------------------------------------------
// projects

const KEYWORDS: &[&str] = &["type", "interface", "union", "enum", "input", "scalar", "query", "mutation", "subscription", "fragment", "extend", "schema", "directive"];

/// declared identifiers of a generated TS module with positions: (name, line, col16, kind)
fn declared_identifiers(stmts: &[Stmt], out: &mut Vec<(String, usize, usize, &'static str)>, in_output_ns: bool) {
    for s in stmts {
        match s {
            Stmt::Type(t) => {
                out.push((t.name.clone(), t.line, t.col16, "type"));
                if in_output_ns {
                    if let Ty::Obj(props) = &t.ty {
                        for p in props {
                            out.push((p.key.clone(), p.line, p.col16, "field"));
                        }
                    }
                }
            }
            Stmt::Const(c) => out.push((c.name.clone(), c.line, c.col16, "const")),
            Stmt::Namespace { name, body, .. } => declared_identifiers(body, out, name.contains("Output")),
            _ => {}
        }
    }
}

pub struct MapCheck {
    pub segments: u64,
    pub sources_referenced: usize,
}

/// Check one emitted map against its generated file and the input files.
pub fn check_map(
    proj: &Project,
    gen_rel: &str,
    inputs: &BTreeMap<String, Vec<LTok>>, // normalised absolute path -> tokens
    allow_imported_minus_one: bool,
    detail: &Value,
) -> Result<MapCheck, Failure> {
    let map_rel = format!("{gen_rel}.map");
    let g = proj.read(gen_rel).ok_or_else(|| Failure::new("generated-file-missing", gen_rel.to_string(), detail.clone()))?;
    let mtext = proj.read(&map_rel).ok_or_else(|| Failure::new("map-file-missing", map_rel.clone(), detail.clone()))?;
    let fail = |sig: &str, msg: String| Failure::new(format!("map:{sig}"), format!("{map_rel}: {msg}"), json!({"detail": detail, "map": mtext, "generated_file": gen_rel}));
    let map: SourceMap = smap::parse(&mtext).map_err(|e| fail("not-a-v3-map", e))?;
    let gen_name = Path::new(gen_rel).file_name().unwrap().to_string_lossy().to_string();
    if map.file != gen_name {
        return Err(fail("file-member", format!("\"file\" is {:?}, expected {gen_name:?}", map.file)));
    }
    if !g.trim_end().ends_with(&format!("//# sourceMappingURL={gen_name}.map")) {
        return Err(fail("no-sourcemappingurl", "generated file does not end with the sourceMappingURL comment".into()));
    }
    // sources resolve to input files
    let map_dir = dir_of(&proj.path(&map_rel).to_string_lossy());
    let mut src_paths = vec![];
    for s in &map.sources {
        let abs = norm(&format!("{map_dir}/{s}"));
        if !inputs.contains_key(&abs) {
            // a plugin's in-memory schema addition is listed as the pseudo source `(plugin)`; the statement
            // speaks about sources that segments reference, so it is tolerated as long as none does (checked
            // below: a segment pointing at it finds no token table)
            if abs.ends_with("/(plugin)") {
                src_paths.push(String::new());
                continue;
            }
            return Err(fail("source-not-an-input-file", format!("sources entry {s:?} resolves to {abs}, which is not a GraphQL input file")));
        }
        src_paths.push(abs);
    }
    let lines: Vec<&str> = g.split('\n').collect();
    let mut prev: Option<(usize, i64)> = None;
    let mut used = std::collections::BTreeSet::new();
    let segs = &map.segments;
    let mut i = 0;
    while i < segs.len() {
        let s = &segs[i];
        if let Some((pl, pc)) = prev {
            if (s.gen_line, s.gen_col) < (pl, pc) {
                return Err(fail("unordered", format!("segment {i}: generated {}:{} after {}:{}", s.gen_line, s.gen_col, pl, pc)));
            }
        }
        prev = Some((s.gen_line, s.gen_col));
        if s.gen_col < 0 || s.gen_line >= lines.len() || s.gen_col as usize > utf16(lines[s.gen_line]) {
            return Err(fail("outside-generated-text", format!("segment {i}: generated {}:{} is outside the file", s.gen_line, s.gen_col)));
        }
        let (Some(src), Some(ol), Some(oc)) = (s.source, s.orig_line, s.orig_col) else {
            i += 1;
            continue;
        };
        if src < 0 || src as usize >= map.sources.len() {
            if allow_imported_minus_one {
                // known finding: imported fragments map to source index -1
                i += 1;
                continue;
            }
            return Err(fail("source-index-out-of-range", format!("segment {i}: source index {src} with {} sources", map.sources.len())));
        }
        used.insert(src);
        if src_paths[src as usize].is_empty() {
            return Err(fail("segment-into-virtual-source", "a segment refers to the plugin's virtual source, which is no GraphQL input file".to_string()));
        }
        let toks = &inputs[&src_paths[src as usize]];
        // the column unit is not fixed by the statement (characters or UTF-16 units): after an astral character two
        // neighbouring tokens can both start "at" the column, one in each unit - every reading is tried
        let cands: Vec<&LTok> = toks.iter().filter(|t| t.line as i64 == ol && (t.col as i64 == oc || t.col16 as i64 == oc) && !matches!(t.t, T::Eof)).collect();
        if cands.is_empty() {
            return Err(fail("original-not-at-token-start", format!("segment {i}: original {}:{}:{} is not the start of a token", map.sources[src as usize], ol, oc)));
        }
        if let Some(ni) = s.name {
            let Some(name) = map.names.get(ni as usize) else {
                return Err(fail("name-index-out-of-range", format!("segment {i}: name index {ni}")));
            };
            let text_of = |tok: &LTok| match &tok.t {
                T::Name(n) => n.clone(),
                T::Punct(p) => p.to_string(),
                _ => tok.raw.clone(),
            };
            // the token itself, or the name of the definition whose keyword is there
            let ok = cands.iter().any(|tok| {
                let tok_text = text_of(tok);
                &tok_text == name || {
                    KEYWORDS.contains(&tok_text.as_str()) && {
                        // the definition's name follows within the header
                        let idx = toks.iter().position(|t| std::ptr::eq(t, *tok)).unwrap();
                        toks[idx + 1..].iter().take(6).any(|t| matches!(&t.t, T::Name(n) if n == name))
                    }
                }
            });
            if !ok {
                let tok_text = text_of(cands[0]);
                return Err(fail("name-is-not-the-source-identifier", format!("segment {i}: name {name:?} but the token at {}:{} is {tok_text:?}", ol, oc)));
            }
            // closing segment of the named pair
            if let Some(next) = segs.get(i + 1) {
                if next.name.is_none() && next.source == s.source && next.orig_line == s.orig_line && next.orig_col == Some(oc + utf16(name) as i64) {
                    prev = Some((next.gen_line, next.gen_col));
                    if (next.gen_line, next.gen_col) < (s.gen_line, s.gen_col) {
                        return Err(fail("unordered", format!("closing segment {} before its opening", i + 1)));
                    }
                    i += 2;
                    continue;
                }
            }
        }
        i += 1;
    }
    Ok(MapCheck { segments: segs.len() as u64, sources_referenced: used.len() })
}

/// coverage: every declared identifier of the generated module has a segment at its position
/// whose original token is the GraphQL name or a definition keyword
pub fn check_coverage(
    proj: &Project,
    gen_rel: &str,
    inputs: &BTreeMap<String, Vec<LTok>>,
    allow_minus_one: bool,
    detail: &Value,
    known: Option<&std::collections::BTreeSet<String>>,
) -> Result<u64, Failure> {
    let g = proj.read(gen_rel).unwrap_or_default();
    let mtext = proj.read(&format!("{gen_rel}.map")).unwrap_or_default();
    let map = smap::parse(&mtext).map_err(|e| Failure::new("map:not-a-v3-map", e, detail.clone()))?;
    let stmts = tsmini::parse_module(&g).map_err(|e| Failure::new("generated-ts-not-well-formed", format!("{gen_rel}: {} at {}:{}", e.msg, e.line, e.col), json!({"detail": detail, "text": g})))?;
    let mut ids = vec![];
    declared_identifiers(&stmts, &mut ids, false);
    let map_dir = dir_of(&proj.path(&format!("{gen_rel}.map")).to_string_lossy());
    let skip = ["__nitrogql_schema", "__Beautify", "__SelectionSet", "__Resolver", "__TypeResolver", "Resolvers", "ResolverOutput", "__typename", "Int", "Float", "String", "Boolean", "ID"];
    let mut n = 0;
    for (name, line, col, kind) in ids {
        if skip.contains(&name.as_str()) {
            continue;
        }
        let gql = name.strip_prefix("__tmp_").unwrap_or(&name).to_string();
        if let Some(k) = known {
            if !k.contains(&gql) {
                continue;
            }
        }
        let segs_here: Vec<&Segment> = map.segments.iter().filter(|s| s.gen_line == line && s.gen_col == col as i64 && s.source.is_some()).collect();
        if segs_here.is_empty() {
            return Err(Failure::new(
                format!("coverage:no-segment-at-{kind}"),
                format!("{gen_rel}: declared {kind} `{name}` at {line}:{col} carries no segment"),
                json!({"detail": detail, "generated_file": gen_rel, "map": mtext}),
            ));
        }
        let mut any_ok = false;
        let mut seen = vec![];
        for seg in segs_here {
            let src = seg.source.unwrap();
            if src < 0 || src as usize >= map.sources.len() {
                if allow_minus_one {
                    any_ok = true;
                    break;
                }
                return Err(Failure::new(
                    "coverage:source-index-out-of-range",
                    format!("{gen_rel}: segment of `{name}` has source index {src}"),
                    json!({"detail": detail, "generated_file": gen_rel, "map": mtext}),
                ));
            }
            let abs = norm(&format!("{map_dir}/{}", map.sources[src as usize]));
            let Some(toks) = inputs.get(&abs) else { continue };
            // (either column unit, see check_map)
            let (ol, oc) = (seg.orig_line.unwrap(), seg.orig_col.unwrap());
            let texts: Vec<String> = toks
                .iter()
                .filter(|t| t.line as i64 == ol && (t.col as i64 == oc || t.col16 as i64 == oc) && !matches!(t.t, T::Eof))
                .map(|t| match &t.t {
                    T::Name(n) => n.clone(),
                    _ => t.raw.clone(),
                })
                .collect();
            let text = texts.first().cloned();
            let ok = texts.iter().any(|t| {
                t == &gql
                    || KEYWORDS.contains(&t.as_str())
                    // operation types are named <Name>Result / <Name>Variables / <Name>Query ...: the token is the operation name
                    || (kind != "field" && gql.to_lowercase().starts_with(&t.to_lowercase()))
                    || t == "{" // anonymous operations map to their selection set / keyword
            });
            seen.push(format!("{:?} at {}:{}:{}", text, map.sources[src as usize], seg.orig_line.unwrap(), seg.orig_col.unwrap()));
            if ok {
                any_ok = true;
                break;
            }
        }
        if !any_ok {
            return Err(Failure::new(
                format!("coverage:{kind}-maps-elsewhere"),
                format!("{gen_rel}: `{name}` maps to {seen:?}, not into the header of its GraphQL definition"),
                json!({"detail": detail, "generated_file": gen_rel, "map": mtext}),
            ));
        }
        n += 1;
    }
    Ok(n)
}

pub fn lex_inputs(proj: &Project, gp: &GenProject) -> Result<BTreeMap<String, Vec<LTok>>, String> {
    let mut out = BTreeMap::new();
    for (rel, text) in gp.schema_files.iter() {
        let toks = refparse::lex(text, false).map_err(|e| format!("{rel}: {e:?}"))?;
        out.insert(norm(&proj.path(rel).to_string_lossy()), toks);
    }
    for (rel, text) in gp.op_files.iter() {
        // the parser's view: lines that read as import statements are comments inside definitions
        let toks = refparse::parse_op_doc_toks(text).map(|x| x.1).map_err(|e| format!("{rel}: {e:?}"))?;
        out.insert(norm(&proj.path(rel).to_string_lossy()), toks);
    }
    Ok(out)
}

/// paths (relative to the project dir) of the declaration files generate must write
pub fn expected_outputs(gp: &GenProject) -> Vec<String> {
    let root = &gp.layout.root;
    let j = |p: &str| norm(&format!("{root}/{p}"));
    let mut out = vec![j(&gp.layout.schema_output)];
    if let Some(r) = &gp.layout.resolvers_output {
        out.push(j(r));
    }
    for (p, _) in &gp.op_files {
        let stem = p.strip_suffix(".graphql").unwrap();
        out.push(norm(&format!(
            "{stem}.{}",
            match gp.layout.mode {
                "with-loader-ts-5.0" => "d.graphql.ts",
                "with-loader-ts-4.0" => "graphql.d.ts",
                _ => "graphql.ts",
            }
        )));
    }
    out
}

fn project_case(case: &mut Case, base: &Path) -> CaseResult {
    // how the command is started (working directory, --config-file spelling): drawn first so that it varies
    let cli_style = case.ch.below(crate::cli::CLI_STYLES);
    case.label(&format!("cli-style-{cli_style}"));
    let mut po = ProjectOpts::default();
    po.wild_trivia = true;
    po.plugins = true;
    po.schema.many_names = true;
    po.anonymous_extra = true;
    po.extend_builtin_scalar = true;
    po.doc.merged_key_with_variable_condition = true;
    let gp = gen_project(case, &po);
    for l in &gp.gs.labels {
        if *l == "many-names" {
            case.label("many-names");
        }
    }
    let allow_minus_one = case.is_excluded("imported_fragment_in_map");
    let proj = write_project(&gp, base);
    let detail = json!({"config": gp.config, "files": gp.schema_files.iter().chain(gp.op_files.iter()).map(|(p, t)| json!({"path": p, "text": t})).collect::<Vec<_>>()});
    // regeneration: in a third of the cases every output (and its map) already exists with longer, stale content
    if case.ch.chance(1, 3) {
        for out in expected_outputs(&gp) {
            proj.write(&out, &format!("// stale\n{}", "export type Stale = number;\n".repeat(3000)));
            proj.write(&format!("{out}.map"), &format!("{{\"version\":3,\"sources\":[\"stale.graphql\"],\"names\":[],\"mappings\":\"{}\"}}", "AAAA;".repeat(4000)));
        }
        case.label("outputs-overwritten");
    }
    let run = crate::cli::run_cli_styled(&proj.path(&gp.layout.root), &["generate", "--output-format", "json"], cli_style);
    let res = (|| -> CaseResult {
        if run.crashed() {
            return Err(Failure::new("cli-crashed", format!("generate crashed: {}", run.stderr.lines().find(|l| l.contains("panicked")).unwrap_or("")), json!({"detail": detail, "stderr": run.stderr})));
        }
        if run.status != Some(0) {
            return Err(Failure::new("precondition:generate-failed", format!("generate failed on a valid project: {}", run.stdout), json!({"detail": detail, "stdout": run.stdout, "stderr": run.stderr})));
        }
        let inputs = lex_inputs(&proj, &gp).map_err(|e| Failure::new("harness:lex", e, detail.clone()))?;
        let mut multi_source = false;
        let mut known = std::collections::BTreeSet::new();
        for n in &gp.gs.schema.order {
            known.insert(n.clone());
            let t = &gp.gs.schema.types[n];
            if matches!(t.kind, crate::model::Kind::Object) {
                for f in &t.fields {
                    known.insert(f.name.clone());
                }
            }
        }
        for out in expected_outputs(&gp) {
            if out.ends_with("schema.js") {
                continue;
            }
            let mc = check_map(&proj, &out, &inputs, allow_minus_one, &detail)?;
            case.evals(mc.segments);
            if mc.sources_referenced >= 2 {
                multi_source = true;
            }
            let is_op = out.contains(".graphql.") || out.ends_with(".d.graphql.ts");
            let n = check_coverage(&proj, &out, &inputs, allow_minus_one, &detail, if is_op { None } else { Some(&known) })?;
            case.evals(n);
        }
        if gp.has_import {
            case.label("imported-fragments");
        }
        if gp.has_extension {
            case.label("schema-extension");
        }
        case.label(gp.layout.mode);
        if multi_source && (gp.has_import || gp.has_extension) {
            case.nontrivial(&(&gp.config, &gp.schema_files, &gp.op_files));
        }
        case.sample(|| json!({"config": gp.config, "files": gp.schema_files.iter().chain(gp.op_files.iter()).map(|(p, _)| p.clone()).collect::<Vec<_>>()}));
        Ok(())
    })();
    proj.remove();
    res
}

pub fn run(env: &Env) -> i32 {
    let mut rep = Report::new(
        env,
        "exploration",
        "(1) VLQ: every integer in [-2^22, 2^22] plus boundary values is encoded through SourceWriter::write_for (as an original-column delta) and decoded by an independent base64-VLQ decoder; (2) writer histories: sequences of write / write_for(named or unnamed node) / indent / dedent with chunks containing newlines, empty lines, BMP and astral characters are replayed on SourceWriter and the decoded segment list is compared with the written entries (order, inside the generated text, original fields, names through the LRU, named segments start at their chunk, closing segment at column + utf16(name)); (3) projects through the built CLI: 1-3 schema files with extensions, 1-3 operation files with imports, the three generate modes, output directories above/below/beside the inputs, random trivia: every emitted .map must be a v3 map whose segments are ordered, inside the generated file, with sources resolving to input files and original positions at token starts of a reference lexer (or just past the name for closing segments), names equal to the source identifier; every declared type/field/constant of the generated TypeScript carries a segment into its GraphQL definition. Non-trivial (projects): one map references >= 2 source files and the project has an imported fragment or an extension-contributed field.",
    );
    rep.assume("original columns may be read in Unicode scalar values or UTF-16 code units (the statement does not fix the unit)");
    rep.assume("unnamed write_for entries are only required to lie inside the generated text (their chunk may start after pending indentation)");

    // (1) VLQ sweep
    let limit: i64 = if env.is_thorough() { 1 << 22 } else { 1 << 22 };
    let chunk = 1 << 14;
    let chunks: Vec<(i64, i64)> = {
        let mut v = vec![];
        let mut a = -limit;
        while a <= limit {
            v.push((a, (a + chunk - 1).min(limit)));
            a += chunk;
        }
        v
    };
    rep.enumerate("vlq-sweep", true, chunks.into_iter(), |case, (a, b)| {
        let ns: Vec<i64> = (*a..=*b).collect();
        vlq_batch(&ns)?;
        case.evals(ns.len() as u64);
        if *a <= -16 || *b >= 16 {
            case.nontrivial(&(a, b));
        }
        case.sample(|| json!({"range": [a, b]}));
        Ok(())
    });
    rep.enumerate("vlq-boundaries", true, vec![vec![0i64, 1, -1, 15, -15, 16, -16, 31, 32, -32, 1 << 31, -(1 << 31), (1 << 31) - 1, 1 << 32, -(1 << 32), 1 << 39, -(1 << 39)]].into_iter(), |case, ns| {
        vlq_batch(ns)?;
        // isize::MAX and isize::MIN+1 as deltas: 0 -> MAX -> 0
        let mut w = SourceWriter::new();
        let big = isize::MAX as usize;
        w.write_for("x", &Node { pos: pos(0, 0, 0), name: None });
        w.write_for("x", &Node { pos: pos(0, big, 0), name: None });
        w.write_for("x", &Node { pos: pos(0, 0, 0), name: None });
        w.write_for("x", &Node { pos: pos(big, 0, 0), name: None });
        let b = w.into_buffers();
        let segs = smap::decode_mappings(&b.source_map).map_err(|e| Failure::new("vlq-undecodable", e, json!({"mappings": b.source_map})))?;
        let cols: Vec<Option<i64>> = segs.iter().map(|s| s.orig_col).collect();
        if cols != vec![Some(0), Some(i64::MAX), Some(0), Some(0)] || segs[3].orig_line != Some(i64::MAX) {
            return Err(Failure::new("vlq-roundtrip", format!("boundary values decoded as {cols:?}"), json!({"mappings": b.source_map})));
        }
        case.evals(ns.len() as u64 + 4);
        case.nontrivial(&0);
        case.nontrivial(&1);
        case.sample(|| json!({"boundaries": ns}));
        Ok(())
    });

    // (2) writer histories
    rep.campaign("writer-histories", env.cases(20_000, 600_000), (2, 300), writer_history_case);

    // (3) projects through the CLI
    rep.shrink_iters = Some(200);
    let base = work_dir("c06");
    let base2 = base.clone();
    rep.campaign("projects", env.cases(1_500, 12_000), (300, 1600), move |case| project_case(case, &base2));
    let _ = std::fs::remove_dir_all(&base);
    rep.finish()
}
