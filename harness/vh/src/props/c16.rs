//! C16 — the emitted server schema string re-parses to the schema that was checked;
//! print∘parse = id for any document nitrogql can parse.

use crate::conv::*;
use crate::gen_syntax::*;
use crate::model::*;
use crate::props::c07::normalize_op_doc;
use crate::render::*;
use crate::runner::*;
use nitrogql_parser::{parse_operation_document, parse_type_system_document};
use nitrogql_printer::GraphQLPrinter;
use serde_json::json;
use sourcemap_writer::JustWriter;

/// string features that print_string mishandles are switched off by flags
fn tame_strings(case: &mut Case) -> impl FnMut(&mut String) + use<> {
    let allow_quote = case.allow("print_string_quote_backslash");
    let allow_multiline = case.allow("print_multiline_string");
    move |s: &mut String| {
        if !allow_quote {
            *s = s.replace('"', "'").replace('\\', "/");
        }
        if !allow_multiline {
            *s = s.replace('\n', " ");
        }
    }
}

pub fn roundtrip_op(text: &str) -> Result<(MOpDoc, String, MOpDoc), Failure> {
    let detail = json!({"text": text});
    let doc = match parse_operation_document(text) {
        Ok(d) => d,
        Err(e) => panic!("harness: generated text does not parse: {} on {text:?}", e.into_message()),
    };
    let a = c_op_doc_ext(&doc, &mut PosSink::default());
    let printed = guard(|| {
        let mut buf = String::new();
        let mut w = JustWriter::new(&mut buf);
        doc.print_graphql(&mut w);
        buf
    })
    .map_err(|p| panic_failure("print_graphql", &p, detail.clone()))?;
    let detail = json!({"text": text, "printed": printed});
    let re = guard(|| parse_operation_document(&printed).map(|d| c_op_doc_ext(&d, &mut PosSink::default())))
        .map_err(|p| panic_failure("parse(print(A))", &p, detail.clone()))?;
    match re {
        Ok(b) => Ok((a, printed, b)),
        Err(e) => Err(Failure::new(
            "printed-text-unparsable:op",
            format!("print output does not parse: {}", e.into_message()),
            detail,
        )),
    }
}

pub fn roundtrip_ts(text: &str) -> Result<(MTsDoc, String, MTsDoc), Failure> {
    let detail = json!({"text": text});
    let doc = match parse_type_system_document(text) {
        Ok(d) => d,
        Err(e) => panic!("harness: generated text does not parse: {} on {text:?}", e.into_message()),
    };
    let a = c_ts_ext_doc(&doc, &mut PosSink::default());
    let printed = guard(|| {
        let mut buf = String::new();
        let mut w = JustWriter::new(&mut buf);
        doc.print_graphql(&mut w);
        buf
    })
    .map_err(|p| panic_failure("print_graphql", &p, detail.clone()))?;
    let detail = json!({"text": text, "printed": printed});
    let re = guard(|| parse_type_system_document(&printed).map(|d| c_ts_ext_doc(&d, &mut PosSink::default())))
        .map_err(|p| panic_failure("parse(print(A))", &p, detail.clone()))?;
    match re {
        Ok(b) => Ok((a, printed, b)),
        Err(e) => Err(Failure::new(
            "printed-text-unparsable:ts",
            format!("print output does not parse: {}", e.into_message()),
            detail,
        )),
    }
}

fn sig_for_diff(a: &str, b: &str) -> &'static str {
    // reuse C07's classifier through Debug strings
    let e: Vec<char> = a.chars().collect();
    let g: Vec<char> = b.chars().collect();
    let mut i = 0;
    while i < e.len() && i < g.len() && e[i] == g[i] {
        i += 1;
    }
    let ctx: String = e[..i].iter().collect();
    let cands = [
        ("Str(", "string-value"),
        ("desc:", "description"),
        ("default:", "default-value"),
        ("directives:", "directives"),
        ("vars:", "variables"),
        ("roots:", "roots"),
        ("members:", "members"),
        ("targets:", "import-targets"),
    ];
    let mut best = "structure";
    let mut best_pos = -1i64;
    for (k, name) in cands {
        let p = ctx.rfind(k).map(|p| p as i64).unwrap_or(-1);
        if p > best_pos {
            best_pos = p;
            best = name;
        }
    }
    best
}

fn op_case(case: &mut Case) -> CaseResult {
    let mut doc = g_op_doc(&mut case.ch, true);
    let mut tame = tame_strings(case);
    map_op_strings(&mut doc, &mut tame);
    let allow_var_default = case.allow("print_variable_default");
    let allow_var_directives = case.allow("print_variable_directives");
    for d in doc.iter_mut() {
        if let MExecDef::Op(o) = d {
            o.shorthand = false;
            for v in o.vars.iter_mut() {
                if !allow_var_default {
                    v.default = None;
                }
                if !allow_var_directives {
                    v.directives.clear();
                }
            }
        }
    }
    let text = render_op_doc(&doc, RenderOpts::canonical(), None).text;
    let (a, printed, b) = roundtrip_op(&text)?;
    assert_eq!(a, normalize_op_doc(&doc), "harness: parse(render(A)) != A");
    if a != b {
        let sig = sig_for_diff(&format!("{a:?}"), &format!("{b:?}"));
        return Err(Failure::new(
            format!("roundtrip-differs:op:{sig}"),
            format!("parse(print(A)) != A\nA = {a:?}\ngot {b:?}"),
            json!({"text": text, "printed": printed}),
        ));
    }
    let has_default = doc.iter().any(|d| matches!(d, MExecDef::Op(o) if o.vars.iter().any(|v| v.default.is_some())));
    let hostile = text.contains("\\\"") || text.contains("\\\\") || text.contains("`") || text.contains("${") || text.contains("\\n");
    if has_default {
        case.label("variable-default");
    }
    if hostile {
        case.label("hostile-string");
    }
    if has_default || hostile || doc.iter().any(|d| matches!(d, MExecDef::Import(_))) {
        case.nontrivial(&text);
    }
    case.sample(|| json!({"text": text, "printed": printed}));
    Ok(())
}

fn ts_case(case: &mut Case) -> CaseResult {
    let mut doc = g_ts_doc(&mut case.ch);
    let mut tame = tame_strings(case);
    map_ts_strings(&mut doc, &mut tame);
    let allow_ext_schema_dirs = case.allow("print_extend_schema_directives_only");
    let allow_ext_union_dirs = case.allow("print_extend_union_directives_only");
    for d in doc.iter_mut() {
        match d {
            MTsDef::SchemaExt(s) if s.roots.is_empty() && !allow_ext_schema_dirs => {
                s.roots.push((OpType::Query, "Query".into()));
            }
            MTsDef::TypeExt(t) if t.kind == Kind::Union && t.members.is_empty() && !allow_ext_union_dirs => {
                t.members.push("T".into());
            }
            _ => {}
        }
    }
    let text = render_ts_doc(&doc, RenderOpts::canonical(), None).text;
    let (a, printed, b) = roundtrip_ts(&text)?;
    assert_eq!(a, doc, "harness: parse(render(A)) != A");
    if a != b {
        let sig = sig_for_diff(&format!("{a:?}"), &format!("{b:?}"));
        return Err(Failure::new(
            format!("roundtrip-differs:ts:{sig}"),
            format!("parse(print(A)) != A\nA = {a:?}\ngot {b:?}"),
            json!({"text": text, "printed": printed}),
        ));
    }
    let ext_only_dirs = doc.iter().any(|d| match d {
        MTsDef::TypeExt(t) => t.fields.is_empty() && t.members.is_empty() && t.values.is_empty() && t.input_fields.is_empty(),
        MTsDef::SchemaExt(_) => true,
        _ => false,
    });
    let hostile = text.contains("\\\"") || text.contains("\\\\") || text.contains("`") || text.contains("${") || text.contains("\\n");
    if ext_only_dirs {
        case.label("extension-with-only-directives-or-schema-ext");
    }
    if hostile {
        case.label("hostile-string");
    }
    if ext_only_dirs || hostile {
        case.nontrivial(&text);
    }
    case.sample(|| json!({"text": text, "printed": printed}));
    Ok(())
}

pub fn run(env: &Env) -> i32 {
    let mut rep = Report::new(
        env,
        "exploration",
        "part B (round trip): abstract operation / type-system documents from the syntactic generator (every production, hostile strings) rendered canonically, parsed by nitrogql, printed by GraphQLPrinter, re-parsed; oracle: converted models equal. Non-trivial: a string needing escapes (quote, backslash, backtick, ${, newline), a variable default, an #import, a schema extension or an extension with only directives; distinct = text. Part A (server schema string) is added by the schema-level campaign.",
    );
    rep.assume("the second parse uses nitrogql's own parser (the statement is about nitrogql's print/parse pair); the first parse is cross-checked against the generated model");
    let probe_op = |text: &'static str| {
        move || -> CaseResult {
            let (a, printed, b) = roundtrip_op(text)?;
            if a != b {
                return Err(Failure::new("roundtrip-differs", format!("printed {printed:?}"), json!({"text": text, "printed": printed})));
            }
            Ok(())
        }
    };
    let probe_ts = |text: &'static str| {
        move || -> CaseResult {
            let (a, printed, b) = roundtrip_ts(text)?;
            if a != b {
                return Err(Failure::new("roundtrip-differs", format!("printed {printed:?}"), json!({"text": text, "printed": printed})));
            }
            Ok(())
        }
    };
    rep.probe("C16-print-string-escape", probe_op("query { a(x: \"say \\\"hi\\\" \\\\ there\") }"));
    rep.probe("C16-print-multiline-string", probe_ts("type T { a(x: String = \"a\\n  b\"): Int }"));
    rep.probe("C16-print-variable-default", probe_op("query($a: Int = 1 @d) { a }"));
    rep.probe("C16-print-extend-schema-directives", probe_ts("extend schema @d"));
    rep.probe("C16-print-extend-union-directives", probe_ts("extend union U @d"));

    rep.campaign("roundtrip-op", env.cases(20_000, 400_000), (0, 400), op_case);
    rep.campaign("roundtrip-ts", env.cases(20_000, 400_000), (0, 400), ts_case);
    rep.finish()
}
