//! C16 — the emitted server schema string re-parses to the schema that was checked;
//! print∘parse = id for any document nitrogql can parse.

use crate::conv::*;
use crate::gen_syntax::*;
use crate::model::*;
use crate::props::c07::normalize_op_doc;
use crate::render::*;
use crate::runner::*;
use nitrogql_parser::{parse_operation_document, parse_type_system_document};
use nitrogql_printer::GraphQLPrinter;
use serde_json::json;
use sourcemap_writer::JustWriter;

/// string features that print_string mishandles are switched off by flags
fn tame_strings(case: &mut Case) -> impl FnMut(&mut String) + use<> {
    let allow_quote = case.allow("print_string_quote_backslash");
    let allow_multiline = case.allow("print_multiline_string");
    move |s: &mut String| {
        if !allow_quote {
            *s = s.replace('"', "'").replace('\\', "/");
        }
        if !allow_multiline {
            *s = s.replace('\n', " ");
        }
    }
}

pub fn roundtrip_op(text: &str) -> Result<(MOpDoc, String, MOpDoc), Failure> {
    let detail = json!({"text": text});
    let doc = match parse_operation_document(text) {
        Ok(d) => d,
        Err(e) => panic!("harness: generated text does not parse: {} on {text:?}", e.into_message()),
    };
    let a = c_op_doc_ext(&doc, &mut PosSink::default());
    let printed = guard(|| {
        let mut buf = String::new();
        let mut w = JustWriter::new(&mut buf);
        doc.print_graphql(&mut w);
        buf
    })
    .map_err(|p| panic_failure("print_graphql", &p, detail.clone()))?;
    let detail = json!({"text": text, "printed": printed});
    let re = guard(|| parse_operation_document(&printed).map(|d| c_op_doc_ext(&d, &mut PosSink::default())))
        .map_err(|p| panic_failure("parse(print(A))", &p, detail.clone()))?;
    match re {
        Ok(b) => Ok((a, printed, b)),
        Err(e) => Err(Failure::new(
            "printed-text-unparsable:op",
            format!("print output does not parse: {}", e.into_message()),
            detail,
        )),
    }
}

pub fn roundtrip_ts(text: &str) -> Result<(MTsDoc, String, MTsDoc), Failure> {
    let detail = json!({"text": text});
    let doc = match parse_type_system_document(text) {
        Ok(d) => d,
        Err(e) => panic!("harness: generated text does not parse: {} on {text:?}", e.into_message()),
    };
    let a = c_ts_ext_doc(&doc, &mut PosSink::default());
    let printed = guard(|| {
        let mut buf = String::new();
        let mut w = JustWriter::new(&mut buf);
        doc.print_graphql(&mut w);
        buf
    })
    .map_err(|p| panic_failure("print_graphql", &p, detail.clone()))?;
    let detail = json!({"text": text, "printed": printed});
    let re = guard(|| parse_type_system_document(&printed).map(|d| c_ts_ext_doc(&d, &mut PosSink::default())))
        .map_err(|p| panic_failure("parse(print(A))", &p, detail.clone()))?;
    match re {
        Ok(b) => Ok((a, printed, b)),
        Err(e) => Err(Failure::new(
            "printed-text-unparsable:ts",
            format!("print output does not parse: {}", e.into_message()),
            detail,
        )),
    }
}

fn sig_for_diff(a: &str, b: &str) -> &'static str {
    // reuse C07's classifier through Debug strings
    let e: Vec<char> = a.chars().collect();
    let g: Vec<char> = b.chars().collect();
    let mut i = 0;
    while i < e.len() && i < g.len() && e[i] == g[i] {
        i += 1;
    }
    let ctx: String = e[..i].iter().collect();
    let cands = [
        ("Str(", "string-value"),
        ("desc:", "description"),
        ("default:", "default-value"),
        ("directives:", "directives"),
        ("vars:", "variables"),
        ("roots:", "roots"),
        ("members:", "members"),
        ("targets:", "import-targets"),
    ];
    let mut best = "structure";
    let mut best_pos = -1i64;
    for (k, name) in cands {
        let p = ctx.rfind(k).map(|p| p as i64).unwrap_or(-1);
        if p > best_pos {
            best_pos = p;
            best = name;
        }
    }
    best
}

fn op_case(case: &mut Case) -> CaseResult {
    let mut doc = g_op_doc(&mut case.ch, true);
    let mut tame = tame_strings(case);
    map_op_strings(&mut doc, &mut tame);
    let allow_var_default = case.allow("print_variable_default");
    let allow_var_directives = case.allow("print_variable_directives");
    for d in doc.iter_mut() {
        if let MExecDef::Op(o) = d {
            o.shorthand = false;
            for v in o.vars.iter_mut() {
                if !allow_var_default {
                    v.default = None;
                }
                if !allow_var_directives {
                    v.directives.clear();
                }
            }
        }
    }
    let text = render_op_doc(&doc, RenderOpts::canonical(), None).text;
    let (a, printed, b) = roundtrip_op(&text)?;
    assert_eq!(a, normalize_op_doc(&doc), "harness: parse(render(A)) != A");
    if a != b {
        let sig = sig_for_diff(&format!("{a:?}"), &format!("{b:?}"));
        return Err(Failure::new(
            format!("roundtrip-differs:op:{sig}"),
            format!("parse(print(A)) != A\nA = {a:?}\ngot {b:?}"),
            json!({"text": text, "printed": printed}),
        ));
    }
    let has_default = doc.iter().any(|d| matches!(d, MExecDef::Op(o) if o.vars.iter().any(|v| v.default.is_some())));
    let hostile = text.contains("\\\"") || text.contains("\\\\") || text.contains("`") || text.contains("${") || text.contains("\\n");
    if has_default {
        case.label("variable-default");
    }
    if hostile {
        case.label("hostile-string");
    }
    if has_default || hostile || doc.iter().any(|d| matches!(d, MExecDef::Import(_))) {
        case.nontrivial(&text);
    }
    case.sample(|| json!({"text": text, "printed": printed}));
    Ok(())
}

fn ts_case(case: &mut Case) -> CaseResult {
    let mut doc = g_ts_doc_with(&mut case.ch, SynOpts { bare_object: true, bare_union: true });
    let mut tame = tame_strings(case);
    map_ts_strings(&mut doc, &mut tame);
    let allow_ext_schema_dirs = case.allow("print_extend_schema_directives_only");
    let allow_ext_union_dirs = case.allow("print_extend_union_directives_only");
    for d in doc.iter_mut() {
        match d {
            MTsDef::SchemaExt(s) if s.roots.is_empty() && !allow_ext_schema_dirs => {
                s.roots.push((OpType::Query, "Query".into()));
            }
            MTsDef::TypeExt(t) if t.kind == Kind::Union && t.members.is_empty() && !allow_ext_union_dirs => {
                t.members.push("T".into());
            }
            _ => {}
        }
    }
    let text = render_ts_doc(&doc, RenderOpts::canonical(), None).text;
    let (a, printed, b) = roundtrip_ts(&text)?;
    assert_eq!(a, doc, "harness: parse(render(A)) != A");
    if a != b {
        let sig = sig_for_diff(&format!("{a:?}"), &format!("{b:?}"));
        return Err(Failure::new(
            format!("roundtrip-differs:ts:{sig}"),
            format!("parse(print(A)) != A\nA = {a:?}\ngot {b:?}"),
            json!({"text": text, "printed": printed}),
        ));
    }
    let ext_only_dirs = doc.iter().any(|d| match d {
        MTsDef::TypeExt(t) => t.fields.is_empty() && t.members.is_empty() && t.values.is_empty() && t.input_fields.is_empty(),
        MTsDef::SchemaExt(_) => true,
        _ => false,
    });
    let hostile = text.contains("\\\"") || text.contains("\\\\") || text.contains("`") || text.contains("${") || text.contains("\\n");
    if ext_only_dirs {
        case.label("extension-with-only-directives-or-schema-ext");
    }
    if hostile {
        case.label("hostile-string");
    }
    if ext_only_dirs || hostile {
        case.nontrivial(&text);
    }
    case.sample(|| json!({"text": text, "printed": printed}));
    Ok(())
}

// ---------------------------------------------------------------------------------------
// Part A: the server schema string

/// `export const schema = `...`;` -> raw template text
pub fn extract_template(js: &str) -> Result<String, String> {
    let marker = "export const schema = `";
    let start = js.find(marker).ok_or("no `export const schema = `")? + marker.len();
    let cs: Vec<char> = js[start..].chars().collect();
    let mut raw = String::new();
    let mut i = 0;
    loop {
        let Some(&c) = cs.get(i) else { return Err("unterminated template literal".into()) };
        match c {
            '\\' => {
                raw.push(c);
                if let Some(&n) = cs.get(i + 1) {
                    raw.push(n);
                }
                i += 2;
            }
            '`' => break,
            '$' if cs.get(i + 1) == Some(&'{') => return Err("live ${ substitution in the template literal".into()),
            c => {
                raw.push(c);
                i += 1;
            }
        }
    }
    let rest: String = cs[i + 1..].iter().collect();
    if rest.trim() != ";" {
        return Err(format!("unexpected text after the template literal: {:?}", rest.chars().take(40).collect::<String>()));
    }
    Ok(raw)
}

const SPEC_SCALARS: [&str; 5] = ["Int", "Float", "String", "Boolean", "ID"];
const SPEC_DIRECTIVES: [&str; 5] = ["skip", "include", "deprecated", "specifiedBy", "oneOf"];

/// expected server schema: reference merge of the concatenated files, nitrogql-only
/// directive removed; compared per (kind, name)
pub fn check_server_string(js: &str, concat: &[MTsDef], detail: &serde_json::Value) -> Result<String, Failure> {
    use crate::props::c11::{ref_merge, Merged};
    let fail = |sig: &str, msg: String, sdl: &str| Failure::new(sig, msg, json!({"input": detail, "module": js, "sdl": sdl}));
    let raw = extract_template(js).map_err(|e| fail("server-module-malformed", e, ""))?;
    let sdl = crate::tsmini::cook_template(&raw).map_err(|e| fail("server-module-malformed", e, ""))?;
    let got = crate::refparse::parse_ts_doc(&sdl).map_err(|e| fail("server-sdl-unparsable", format!("the evaluated template is not valid SDL: {e:?}"), &sdl))?;
    // nitrogql-only directives: @nitrogql_ts_type always; @model (definition injected by the model plugin,
    // applications on objects and fields) - a generated schema never defines a @model of its own
    let mut expected: Vec<MTsDef> = concat.to_vec();
    for d in expected.iter_mut() {
        if let MTsDef::Type(t) | MTsDef::TypeExt(t) = d {
            t.directives.retain(|d| d.name != "nitrogql_ts_type" && d.name != "model");
            for f in t.fields.iter_mut() {
                f.directives.retain(|d| d.name != "model");
            }
        }
    }
    let reference = ref_merge(&expected);
    assert!(reference.duplicates.is_empty() && reference.orphans.is_empty(), "harness: generated schema is not mergeable");
    let user_defines = |n: &str| expected.iter().any(|d| matches!(d, MTsDef::Type(t) if t.name == n));
    let user_directive = |n: &str| expected.iter().any(|d| matches!(d, MTsDef::Directive(t) if t.name == n));
    let mut seen = std::collections::BTreeSet::new();
    let mut got_dirs = vec![];
    for d in &got {
        match d {
            MTsDef::SchemaExt(_) | MTsDef::TypeExt(_) => return Err(fail("server-sdl-has-extension", "an `extend` item survives in the server schema".into(), &sdl)),
            MTsDef::Directive(dd) => {
                if dd.name == "nitrogql_ts_type" || dd.name == "model" {
                    return Err(fail("nitrogql-directive-survives", format!("directive @{} is still defined", dd.name), &sdl));
                }
                if SPEC_DIRECTIVES.contains(&dd.name.as_str()) && !user_directive(&dd.name) {
                    continue;
                }
                got_dirs.push(dd.clone());
            }
            MTsDef::Schema(sd) => {
                if !seen.insert((0u8, String::new())) {
                    return Err(fail("server-sdl-duplicate", "two schema definitions".into(), &sdl));
                }
                match reference.merged.iter().find(|(k, _)| k.0 == 0) {
                    Some((_, Merged::Schema(e))) if e == sd => {}
                    Some((_, e)) => return Err(fail("server-sdl-differs:schema", format!("schema definition differs: expected {e:?}, got {sd:?}"), &sdl)),
                    None => return Err(fail("server-sdl-invented:schema", "schema definition invented".into(), &sdl)),
                }
            }
            MTsDef::Type(t) => {
                if SPEC_SCALARS.contains(&t.name.as_str()) && !user_defines(&t.name) {
                    continue;
                }
                let key = reference.merged.iter().find(|(k, m)| k.0 != 0 && matches!(m, Merged::Type(e) if e.name == t.name && e.kind == t.kind));
                match key {
                    None => return Err(fail("server-sdl-invented", format!("{} {} is not in the checked schema", t.kind.keyword(), t.name), &sdl)),
                    Some((k, Merged::Type(e))) => {
                        if !seen.insert(k.clone()) {
                            return Err(fail("server-sdl-duplicate", format!("{} appears twice", t.name), &sdl));
                        }
                        if e.directives.iter().any(|d| d.name == "nitrogql_ts_type") {
                            unreachable!();
                        }
                        if t.directives.iter().any(|d| d.name == "nitrogql_ts_type") {
                            return Err(fail("nitrogql-directive-survives", format!("@nitrogql_ts_type is still applied to {}", t.name), &sdl));
                        }
                        if e != t {
                            let comp = if e.desc != t.desc {
                                "description"
                            } else if e.directives != t.directives {
                                "directives"
                            } else if e.implements != t.implements {
                                "implements"
                            } else if e.fields != t.fields {
                                "fields"
                            } else if e.members != t.members {
                                "members"
                            } else if e.values != t.values {
                                "values"
                            } else {
                                "input_fields"
                            };
                            return Err(fail(&format!("server-sdl-differs:{comp}"), format!("{} differs in {comp}:\nexpected {e:?}\ngot      {t:?}", t.name), &sdl));
                        }
                    }
                    _ => unreachable!(),
                }
            }
        }
    }
    for (k, m) in reference.merged.iter() {
        if !seen.contains(k) {
            if let Merged::Schema(sd) = m {
                // an omitted schema definition is fine exactly when the emitted SDL still denotes the same
                // schema: nothing but root operation types in it, and the default-name rule applied to the
                // emitted types gives the same roots
                let implied: Vec<(OpType, String)> = [(OpType::Query, "Query"), (OpType::Mutation, "Mutation"), (OpType::Subscription, "Subscription")]
                    .iter()
                    .filter(|(_, n)| got.iter().any(|d| matches!(d, MTsDef::Type(t) if t.kind == Kind::Object && t.name == *n)))
                    .map(|(o, n)| (*o, n.to_string()))
                    .collect();
                let mut declared = sd.roots.clone();
                declared.sort();
                let mut implied_sorted = implied.clone();
                implied_sorted.sort();
                if sd.desc.is_none() && sd.directives.is_empty() && declared == implied_sorted {
                    continue;
                }
                return Err(fail(
                    "server-sdl-differs:root-types",
                    format!("the schema definition is omitted, but the emitted SDL then denotes root types {implied:?} (and no schema description/directives) while the checked schema has {sd:?}"),
                    &sdl,
                ));
            }
            return Err(fail("server-sdl-lost", format!("{k:?} is missing from the server schema"), &sdl));
        }
    }
    if got_dirs != reference.directives {
        return Err(fail("server-sdl-differs:directive-definitions", format!("directive definitions differ: expected {:?}, got {got_dirs:?}", reference.directives), &sdl));
    }
    Ok(sdl)
}

fn emit_server_module(files: &[(std::path::PathBuf, String)], detail: &serde_json::Value) -> Result<String, Failure> {
    use crate::pipeline::*;
    let ss = schema_stage(files, detail)?;
    if !ss.ok() {
        return Err(Failure::new("harness:schema-rejected", format!("{:?}", ss.all_diags()), detail.clone()));
    }
    let sdoc = ss.doc.as_ref().unwrap();
    guard(|| {
        let mut buffer = String::new();
        buffer.push_str("// generated by nitrogql\n");
        buffer.push_str("export const schema = ");
        let mut writer = sourcemap_writer::JsStringWriter::new(&mut buffer);
        let schema = remove_builtins(sdoc);
        schema.print_graphql(&mut writer);
        drop(writer);
        buffer.push_str(";\n");
        buffer
    })
    .map_err(|p| panic_failure("server schema emission", &p, detail.clone()))
}

fn server_case(case: &mut Case) -> CaseResult {
    use crate::gen_schema::*;
    let mut so = SchemaGenOpts::default();
    so.descriptions = 2;
    so.deprecations = true;
    so.custom_directives = true;
    so.renamed_roots = case.ch.chance(1, 3);
    so.defaults = true;
    so.keyword_names = case.ch.chance(1, 3);
    let gs = gen_schema(&mut case.ch, &so);
    let mut doc = gs.doc.clone();
    // extra hostile strings: deprecation reasons, default strings
    let mut tame = tame_strings(case);
    {
        let ch = &mut case.ch;
        let mut n = 0;
        map_ts_strings(&mut doc, &mut |s: &mut String| {
            n += 1;
            if ch.chance(1, 4) {
                *s = g_string(ch);
            }
        });
    }
    map_ts_strings(&mut doc, &mut tame);
    // a scalar mapped with the nitrogql-only directive
    let mut with_nitrogql_directive = false;
    if case.ch.chance(1, 3) {
        for d in doc.iter_mut() {
            if let MTsDef::Type(t) = d {
                if t.kind == Kind::Scalar {
                    t.directives.push(MDirective {
                        name: "nitrogql_ts_type".into(),
                        args: ["resolverInput", "resolverOutput", "operationInput", "operationOutput"].iter().map(|k| (k.to_string(), MValue::Str("string | `x${1}`".into()))).collect(),
                    });
                    with_nitrogql_directive = true;
                    break;
                }
            }
        }
    }
    // `check` accepts types without any field / value / member (it does not implement those rules): one schema in six has
    // such definitions, each followed by a sibling of the same kind without a description
    if case.ch.chance(1, 6) {
        case.label("empty-type-definitions");
        for (kind, a, b) in [(Kind::Input, "EmptyInput", "AfterEmptyInput"), (Kind::Enum, "EmptyEnum", "AfterEmptyEnum"), (Kind::Interface, "EmptyInterface", "AfterEmptyInterface")] {
            doc.push(MTsDef::Type(MTypeDef::new(kind, a)));
            let mut t = MTypeDef::new(kind, b);
            match kind {
                Kind::Input => t.input_fields.push(MInputValue { desc: None, name: "x".into(), ty: MType::named("Int"), default: None, directives: vec![] }),
                Kind::Enum => t.values.push(MEnumValue { desc: None, name: "X".into(), directives: vec![] }),
                _ => t.fields.push(MField { desc: None, name: "x".into(), args: vec![], ty: MType::named("Int"), directives: vec![] }),
            }
            doc.push(MTsDef::Type(t));
        }
    }
    let files = split_into_extensions(&mut case.ch, &doc);
    let has_ext = files.iter().flatten().any(|d| matches!(d, MTsDef::TypeExt(_) | MTsDef::SchemaExt(_)));
    let rendered: Vec<(std::path::PathBuf, String)> = files
        .iter()
        .enumerate()
        .map(|(i, f)| (std::path::PathBuf::from(format!("/p/s{i}.graphqls")), crate::props::c11::render_ts_file(f, RenderOpts::canonical(), None).text))
        .collect();
    let detail = json!({"files": rendered.iter().map(|(_, t)| t.clone()).collect::<Vec<_>>()});
    let js = emit_server_module(&rendered, &detail)?;
    let concat: Vec<MTsDef> = files.iter().flatten().cloned().collect();
    let sdl = check_server_string(&js, &concat, &detail)?;
    case.evals(1);
    let hostile = js.contains("\\`") || js.contains("\\${") || js.contains("\\\\");
    if hostile {
        case.label("template-escapes");
    }
    if has_ext {
        case.label("extensions-merged");
    }
    if with_nitrogql_directive {
        case.label("nitrogql-directive-stripped");
    }
    if hostile || with_nitrogql_directive || has_ext {
        case.nontrivial(&js);
    }
    case.sample(|| json!({"module_head": js.chars().take(300).collect::<String>(), "sdl_chars": sdl.chars().count()}));
    Ok(())
}

fn server_cli_case(case: &mut Case, base: &std::path::Path) -> CaseResult {
    // how the command is started (working directory, --config-file spelling): drawn first so that it varies
    let cli_style = case.ch.below(crate::cli::CLI_STYLES);
    case.label(&format!("cli-style-{cli_style}"));
    use crate::cli::*;
    use crate::projects::*;
    let mut po = ProjectOpts::default();
    po.wild_trivia = false;
    po.schema.descriptions = 2;
    let mut gp = gen_project(case, &po);
    if gp.layout.server_graphql_output.is_none() {
        gp.layout.server_graphql_output = Some("generated/server-schema.ts".into());
        gp.config.push_str("      serverGraphqlOutput: \"generated/server-schema.ts\"\n");
    }
    // the model plugin (built in, no Node needed) injects `directive @model(type: String) on OBJECT |
    // FIELD_DEFINITION`; neither the definition nor its applications belong in the server schema
    let model_plugin = case.ch.chance(1, 3);
    let mut apply_model = model_plugin && case.ch.chance(1, 2);
    if model_plugin {
        gp.config = gp.config.replace("  nitrogql:\n", "  nitrogql:\n    plugins:\n      - \"nitrogql:model-plugin\"\n");
        case.label("model-plugin");
    }
    // hostile strings subject to the known-finding flags: re-render the schema files
    let mut tame = tame_strings(case);
    let mut with_directive = case.ch.chance(1, 2);
    for (i, f) in gp.schema_file_models.iter_mut().enumerate() {
        if with_directive {
            for d in f.iter_mut() {
                if let MTsDef::Type(t) = d {
                    if t.kind == Kind::Scalar {
                        // the nitrogql-only directive sits among other applications (their order must survive its
                        // removal): `@specifiedBy` and, where the schema allows it, `@tag` twice
                        // (the scalar may carry @specifiedBy in an extension in another file: the merged model knows)
                        let has_spec = t.directives.iter().any(|d| d.name == "specifiedBy")
                            || gp.gs.schema.types.get(&t.name).map(|m| m.directives.iter().any(|d| d.name == "specifiedBy")).unwrap_or(false);
                        if !has_spec {
                            t.directives.push(MDirective { name: "specifiedBy".into(), args: vec![("url".into(), MValue::Str("https://example.com/a".into()))] });
                        }
                        if gp.gs.schema.directives.get("tag").map(|d| d.locations.iter().any(|l| l == "SCALAR")).unwrap_or(false) {
                            for n in ["first", "second"] {
                                t.directives.push(MDirective { name: "tag".into(), args: vec![("name".into(), MValue::Str(n.into()))] });
                            }
                        }
                        let at = case.ch.below(t.directives.len() + 1);
                        t.directives.insert(
                            at,
                            MDirective {
                                name: "nitrogql_ts_type".into(),
                                args: ["resolverInput", "resolverOutput", "operationInput", "operationOutput"].iter().map(|k| (k.to_string(), MValue::Str("string".into()))).collect(),
                            },
                        );
                        with_directive = false;
                        case.label("nitrogql-directive-stripped");
                        break;
                    }
                }
            }
        }
        if apply_model {
            // @model on a field of a non-root object type that is defined (not extended) in this file
            let roots: Vec<String> = [OpType::Query, OpType::Mutation, OpType::Subscription].iter().filter_map(|o| gp.gs.schema.root(*o)).collect();
            for d in f.iter_mut() {
                if let MTsDef::Type(t) = d {
                    if t.kind == Kind::Object && !roots.contains(&t.name) && !t.fields.is_empty() {
                        t.fields[0].directives.push(MDirective { name: "model".into(), args: vec![] });
                        apply_model = false;
                        case.label("model-directive-applied");
                        break;
                    }
                }
            }
        }
        map_ts_strings(f, &mut tame);
        crate::gen_schema::strip_comment_close(f);
        gp.schema_files[i].1 = crate::props::c11::render_ts_file(f, RenderOpts::canonical(), None).text;
    }
    let proj = write_project(&gp, base);
    let out_rel = norm(&format!("{}/{}", gp.layout.root, gp.layout.server_graphql_output.as_ref().unwrap()));
    // regeneration: in half of the cases a (much longer) module from an earlier run already sits at the output path
    let stale = case.ch.flip();
    if stale {
        proj.write(&out_rel, &format!("// generated by nitrogql\nexport const schema = `{}`;\n", "type Old { stale: Int }\n".repeat(2000)));
        case.label("output-overwritten");
    }
    let run = crate::cli::run_cli_styled(&proj.path(&gp.layout.root), &["generate", "--output-format", "json"], cli_style);
    let detail = json!({"config": gp.config, "files": gp.schema_files.iter().map(|(p, t)| json!({"path": p, "text": t})).collect::<Vec<_>>(), "stderr": strip_ansi(&run.stderr), "stdout": run.stdout, "output_existed_before": stale});
    let js = proj.read(&out_rel);
    proj.remove();
    if run.crashed() || run.status != Some(0) {
        return Err(Failure::new("cli-generate-failed", format!("generate exited {:?}", run.status), detail));
    }
    let js = js.ok_or_else(|| Failure::new("output-missing", out_rel.clone(), detail.clone()))?;
    let concat: Vec<MTsDef> = gp.schema_file_models.iter().flatten().cloned().collect();
    check_server_string(&js, &concat, &detail)?;
    case.evals(1);
    if gp.has_extension {
        case.label("extensions-merged");
    }
    case.nontrivial(&js);
    case.sample(|| json!({"module_head": js.chars().take(200).collect::<String>()}));
    Ok(())
}

pub fn run(env: &Env) -> i32 {
    let mut rep = Report::new(
        env,
        "exploration",
        "part B (round trip): abstract operation / type-system documents from the syntactic generator (every production, hostile strings) rendered canonically, parsed by nitrogql, printed by GraphQLPrinter, re-parsed; oracle: converted models equal. Non-trivial: a string needing escapes (quote, backslash, backtick, ${, newline), a variable default, an #import, a schema extension or an extension with only directives; distinct = text. Part A (server schema string): valid generated schemas (hostile descriptions, deprecation reasons and default strings, extensions spread over files, custom directives, a scalar carrying @nitrogql_ts_type) are checked, the serverGraphqlOutput module is produced (in-process replica of generate.rs and through the built CLI), its template literal is evaluated with ECMAScript TV rules, parsed with the reference SDL parser and compared per (kind,name) with the reference merge minus the nitrogql-only directives (@nitrogql_ts_type; with the built-in model plugin enabled in a third of the CLI cases, @model and its applications); spec built-in scalars/directives may be listed; an omitted schema definition is accepted exactly when the default-name rule gives the same root types. Non-trivial there: template escapes, merged extensions or a stripped nitrogql directive.",
    );
    rep.assume("the second parse uses nitrogql's own parser (the statement is about nitrogql's print/parse pair); the first parse is cross-checked against the generated model");
    let probe_op = |text: &'static str| {
        move || -> CaseResult {
            let (a, printed, b) = roundtrip_op(text)?;
            if a != b {
                return Err(Failure::new("roundtrip-differs", format!("printed {printed:?}"), json!({"text": text, "printed": printed})));
            }
            Ok(())
        }
    };
    let probe_ts = |text: &'static str| {
        move || -> CaseResult {
            let (a, printed, b) = roundtrip_ts(text)?;
            if a != b {
                return Err(Failure::new("roundtrip-differs", format!("printed {printed:?}"), json!({"text": text, "printed": printed})));
            }
            Ok(())
        }
    };
    rep.probe("C16-print-string-escape", probe_op("query { a(x: \"say \\\"hi\\\" \\\\ there\") }"));
    rep.probe("C16-print-multiline-string", probe_ts("type T { a(x: String = \"a\\n  b\"): Int }"));
    rep.probe("C16-print-variable-default", probe_op("query($a: Int = 1 @d) { a }"));
    rep.probe("C16-print-extend-schema-directives", probe_ts("extend schema @d"));
    rep.probe("C16-print-extend-union-directives", probe_ts("extend union U @d"));
    rep.probe("C16-memberless-union-printed-with-equals", probe_ts("union Da\nscalar type\n"));
    rep.probe("C16-memberless-union-printed-with-equals", probe_ts("union U @d\ntype T { a: Int }\n"));

    rep.campaign("server-schema-string", env.cases(20_000, 200_000), (100, 1200), server_case);
    {
        let base = work_dir("c16");
        let b = base.clone();
        let save = rep.shrink_iters;
        rep.shrink_iters = Some(200);
        rep.campaign("server-schema-string-cli", env.cases(1_000, 8_000), (300, 2000), move |case| server_cli_case(case, &b));
        rep.shrink_iters = save;
        let _ = std::fs::remove_dir_all(&base);
    }
    rep.campaign("roundtrip-op", env.cases(80_000, 800_000), (0, 400), op_case);
    rep.campaign("roundtrip-ts", env.cases(80_000, 800_000), (0, 400), ts_case);
    rep.merge_fuzz_summary();
    rep.finish()
}
