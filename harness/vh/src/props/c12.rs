//! C12 — runtime documents are the source operation plus exactly the fragments it needs.

use crate::gen_ops::*;
use crate::gen_schema::*;
use crate::gqljson;
use crate::model::*;
use crate::pipeline::*;
use crate::props::c04::doc_opts_from_flags;
use crate::render::*;
use crate::runner::*;
use crate::tsmini::{self, Stmt};
use nitrogql_printer::{print_js_for_operation_document, OperationJSPrinterOptions, OperationTypePrinterOptions};
use serde_json::json;
use sourcemap_writer::SourceWriter;
use std::collections::BTreeMap;
use std::path::PathBuf;

/// documents embedded in a TS/JS module: const name -> document
pub fn embedded_documents(src: &str) -> Result<Vec<(String, MOpDoc)>, String> {
    let stmts = tsmini::parse_module(src).map_err(|e| format!("module does not parse: {} at {}:{}", e.msg, e.line, e.col))?;
    let mut out = vec![];
    for s in &stmts {
        if let Stmt::Const(c) = s {
            if let Some(v) = &c.value {
                let d = gqljson::r_document(v).map_err(|e| format!("const {}: {e}", c.name))?;
                out.push((c.name.clone(), d));
            }
        }
    }
    Ok(out)
}

pub fn expected_document(x: &MExecDef, frags: &BTreeMap<String, MFragment>) -> (MExecDef, Vec<String>) {
    let mut needed = vec![];
    match x {
        MExecDef::Op(o) => spreads_in_selections(&o.sel, frags, &mut needed),
        MExecDef::Frag(f) => {
            spreads_in_selections(&f.sel, frags, &mut needed);
            needed.retain(|n| n != &f.name);
        }
        _ => {}
    }
    (x.clone(), needed)
}

/// compare an embedded document with [X] ++ closure(X)
pub fn check_embedded(name: &str, got: &MOpDoc, source: &MOpDoc, frags: &BTreeMap<String, MFragment>) -> Result<(), (String, String)> {
    let Some(first) = got.first() else { return Err(("empty-document".into(), format!("{name}: embedded document has no definitions"))) };
    // which source definition is this?
    let src = source.iter().find(|d| match (d, first) {
        (MExecDef::Op(a), MExecDef::Op(b)) => a.name == b.name && a.op == b.op,
        (MExecDef::Frag(a), MExecDef::Frag(b)) => a.name == b.name,
        _ => false,
    });
    let Some(src) = src else { return Err(("first-definition-unknown".into(), format!("{name}: first definition is not a definition of the source file"))) };
    let (x, needed) = expected_document(src, frags);
    if first != &x {
        let comp = match (first, &x) {
            (MExecDef::Op(a), MExecDef::Op(b)) => {
                if a.vars != b.vars {
                    if a.vars.iter().map(|v| &v.directives).ne(b.vars.iter().map(|v| &v.directives)) { "variable-directives" }
                    else if a.vars.iter().map(|v| &v.default).ne(b.vars.iter().map(|v| &v.default)) { "variable-default" }
                    else { "variable-definitions" }
                } else if a.directives != b.directives { "operation-directives" } else { "selection-tree" }
            }
            (MExecDef::Frag(a), MExecDef::Frag(b)) => if a.on != b.on { "type-condition" } else if a.directives != b.directives { "fragment-directives" } else { "selection-tree" },
            _ => "kind",
        };
        return Err((format!("definition-differs:{comp}"), format!("{name}: embedded definition differs from the source in {comp}\nsource:   {x:?}\nembedded: {first:?}")));
    }
    let mut seen: Vec<String> = vec![];
    for d in &got[1..] {
        match d {
            MExecDef::Frag(f) => {
                if seen.contains(&f.name) {
                    return Err(("fragment-twice".into(), format!("{name}: fragment {} embedded twice", f.name)));
                }
                seen.push(f.name.clone());
                match frags.get(&f.name) {
                    Some(sf) if sf == f => {}
                    Some(_) => return Err(("fragment-differs".into(), format!("{name}: embedded fragment {} differs from its source", f.name))),
                    None => return Err(("fragment-invented".into(), format!("{name}: embedded fragment {} does not exist", f.name))),
                }
                if !needed.contains(&f.name) {
                    return Err(("fragment-not-needed".into(), format!("{name}: fragment {} is embedded but not transitively spread", f.name)));
                }
            }
            _ => return Err(("extra-operation".into(), format!("{name}: a second operation is embedded"))),
        }
    }
    for n in &needed {
        if !seen.contains(n) {
            return Err(("fragment-missing".into(), format!("{name}: fragment {n} is transitively spread but not embedded")));
        }
    }
    Ok(())
}

fn case_fn(case: &mut Case) -> CaseResult {
    let so = SchemaGenOpts::default();
    let gs = gen_schema(&mut case.ch, &so);
    let mut dopts = doc_opts_from_flags(case);
    dopts.max_frags = 4;
    let (mut gd, _) = gen_doc(&mut case.ch, &gs.schema, &dopts);
    gd.doc = crate::props::c08::tame_exponential(case, &gs.schema, std::mem::take(&mut gd.doc));
    let mut doc = gd.doc.clone();
    if !case.is_excluded("json_variable_directives") {
    } else {
        let mut touched = false;
        for d in doc.iter_mut() {
            if let MExecDef::Op(o) = d {
                for v in o.vars.iter_mut() {
                    if !v.directives.is_empty() {
                        v.directives.clear();
                        touched = true;
                    }
                }
            }
        }
        if touched {
            let _ = case.allow("json_variable_directives");
        }
    }
    let schema_text = canon_ts(&gs.doc);
    // a third of the documents are written with random legal trivia and string spellings (the text the user wrote
    // is rarely canonical; block strings stay out: C07-block-string-raw)
    let op_text = if case.ch.chance(1, 3) {
        case.label("source-with-random-trivia");
        let mut r = RenderOpts::wild();
        r.allow_cooked_block = false;
        r.allow_block = false;
        r.allow_shorthand = false;
        render_op_doc(&doc, r, Some(&mut case.ch)).text
    } else {
        canon_op(&doc)
    };
    let detail = json!({"schema": schema_text, "operations": op_text});
    let sfiles = vec![(PathBuf::from("/p/schema.graphql"), schema_text.clone())];
    let ofiles = vec![(PathBuf::from("/p/ops.graphql"), op_text.clone())];
    let ss = schema_stage(&sfiles, &detail)?;
    if !ss.ok() {
        let d = ss.all_diags();
        return Err(Failure::new(format!("precondition:schema-rejected:{}", d[0].kind), format!("{:?}", d[0]), detail));
    }
    let sdoc = ss.doc.as_ref().unwrap();
    let os = op_stage(sdoc, 1, &ofiles, &detail)?;
    if let Some(d) = os.all_diags().first() {
        return Err(Failure::new(format!("precondition:document-rejected:{}", d.kind), format!("{:?}", d), detail));
    }
    let frags = frag_map(&doc);
    // (a) standalone TS
    let mut oopts = OperationTypePrinterOptions::default();
    oopts.schema_source = "./schema".into();
    oopts.print_values = true;
    let ts = gen_operation_dts(sdoc, &os.files[0].doc, oopts, None, &detail)?.buffer;
    // (b) JS module (the printer the bundler loaders use)
    let js = guard(|| {
        let mut w = SourceWriter::new();
        print_js_for_operation_document(OperationJSPrinterOptions::default(), &os.files[0].doc, &mut w);
        w.into_buffers().buffer
    })
    .map_err(|p| panic_failure("print_js_for_operation_document", &p, detail.clone()))?;
    let n_defs = doc.len();
    for (route, text) in [("standalone-ts", &ts), ("loader-js", &js)] {
        let docs = embedded_documents(text).map_err(|e| Failure::new(format!("embedded-unreadable:{route}"), e, json!({"detail": detail, "output": text})))?;
        if docs.len() != n_defs {
            return Err(Failure::new(
                format!("constant-count:{route}"),
                format!("{route}: {} constants with documents for {} source definitions", docs.len(), n_defs),
                json!({"detail": detail, "output": text}),
            ));
        }
        let mut firsts = vec![];
        for (name, d) in &docs {
            case.evals(1);
            if let Err((sig, msg)) = check_embedded(name, d, &doc, &frags) {
                return Err(Failure::new(format!("{sig}:{route}"), msg, json!({"detail": detail, "output": text})));
            }
            firsts.push(d[0].clone());
        }
        for d in &doc {
            if !firsts.contains(d) {
                return Err(Failure::new(format!("definition-without-constant:{route}"), format!("{route}: no constant carries {d:?}"), json!({"detail": detail, "output": text})));
            }
        }
    }
    // classification
    let mut nontrivial = false;
    for d in &doc {
        let (_, needed) = expected_document(d, &frags);
        if needed.len() >= 2 {
            nontrivial = true;
            case.label("closure>=2-fragments");
        }
        if let MExecDef::Op(o) = d {
            if o.vars.iter().any(|v| v.default.is_some() || !v.directives.is_empty()) {
                nontrivial = true;
                case.label("variable-default-or-directives");
            }
        }
    }
    if nontrivial {
        case.nontrivial(&op_text);
    }
    case.sample(|| json!({"operations": op_text, "js": js}));
    Ok(())
}

pub fn run(env: &Env) -> i32 {
    let mut rep = Report::new(
        env,
        "exploration",
        "accepted documents from the C04 generators (up to 4 fragments with nested / shared / unused spreads, variable definitions with defaults and directives, all value kinds, aliases, directives everywhere); both the standalone TypeScript output (print_values) and the JavaScript module the loaders emit are parsed, each embedded JSON document is read by an independent strict reader of the graphql-js AST shape and must equal [X] ++ closure_spreads(X): first definition identical to the source definition, then every transitively spread fragment exactly once and nothing else; every source definition has its constant. Non-trivial: closure of >= 2 fragments or variable defaults/directives.",
    );
    rep.assume("definition order after the first is not compared; block strings do not occur (canonical rendering)");
    let probe = || -> CaseResult {
        let schema = "directive @d on VARIABLE_DEFINITION\ntype Query { a(x: Int): Int }";
        let ops = "query Q($v: Int = 1 @d) { a(x: $v) }";
        let detail = json!({"schema": schema, "operations": ops});
        let sfiles = vec![(PathBuf::from("/p/schema.graphql"), schema.to_string())];
        let ofiles = vec![(PathBuf::from("/p/ops.graphql"), ops.to_string())];
        let ss = schema_stage(&sfiles, &detail)?;
        let sdoc = ss.doc.as_ref().ok_or_else(|| Failure::new("probe-schema", "rejected", detail.clone()))?;
        let os = op_stage(sdoc, 1, &ofiles, &detail)?;
        let js = {
            let mut w = SourceWriter::new();
            print_js_for_operation_document(OperationJSPrinterOptions::default(), &os.files[0].doc, &mut w);
            w.into_buffers().buffer
        };
        let docs = embedded_documents(&js).map_err(|e| Failure::new("embedded-unreadable", e, detail.clone()))?;
        let src = crate::refparse::parse_op_doc(ops).unwrap();
        let frags = frag_map(&src);
        for (n, d) in &docs {
            if let Err((sig, msg)) = check_embedded(n, d, &src, &frags) {
                return Err(Failure::new(sig, msg, json!({"js": js})));
            }
        }
        Ok(())
    };
    rep.probe("C12-variable-directives-dropped", probe);
    rep.campaign("embedded-documents", env.cases(16_000, 200_000), (300, 1500), case_fn);
    rep.merge_extra_evidence("loader_abi", "loader route (vh-loader C12)");
    rep.finish()
}
