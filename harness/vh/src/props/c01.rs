//! C01 — generated result types admit every spec-conformant response.
//! C02 — generated result types admit nothing no execution could return.
//! Both share one generated case (schema, document, emitted declarations).

use crate::gen_ops::*;
use crate::gen_schema::*;
use crate::model::*;
use crate::pipeline::*;
use crate::refexec::*;
use crate::render::*;
use crate::runner::*;
use crate::schema::Schema;
use crate::tsmini::{self, Program, Sem, Ty, Val};
use nitrogql_printer::OperationTypePrinterOptions;
use serde_json::{json, Value};
use std::collections::{BTreeMap, BTreeSet};
use std::path::PathBuf;
use std::rc::Rc;

pub struct Emitted {
    pub gs: GenSchema,
    pub doc: MOpDoc,
    pub labels: BTreeSet<&'static str>,
    pub cfg: ScalarCfg,
    pub schema_sdl: String,
    pub op_text: String,
    pub schema_dts: String,
    pub op_dts: String,
    pub program: Program,
    pub stripped: bool,
    /// schema given as introspection JSON / written as definitions plus extensions
    pub route: &'static str,
}

pub fn capitalize(s: &str) -> String {
    let mut cs = s.chars();
    match cs.next() {
        None => String::new(),
        Some(c) => c.to_uppercase().collect::<String>() + cs.as_str(),
    }
}

/// attach @nitrogql_ts_type directives for scalars configured that way
pub fn sdl_with_scalar_directives(doc: &[MTsDef], cfg: &ScalarCfg) -> Vec<MTsDef> {
    doc.iter()
        .map(|d| match d {
            MTsDef::Type(t) if t.kind == Kind::Scalar => {
                let mut t = t.clone();
                if let Some(dir) = cfg.directive_for(&t.name) {
                    t.directives.push(dir);
                }
                MTsDef::Type(t)
            }
            d => d.clone(),
        })
        .collect()
}

pub fn emit(case: &mut Case, allow_undefined: bool) -> Result<Option<Emitted>, Failure> {
    let mut so = SchemaGenOpts::default();
    so.comment_close_in_text = case.allow("description_with_comment_close");
    let mut gs = gen_schema(&mut case.ch, &so);
    crate::gen_schema::narrow_some_fields(&mut case.ch, &mut gs);
    let mut dopts = DocGenOpts::default();
    dopts.merged_key_with_variable_condition = !case.is_excluded("merged_key_with_variable_condition");
    let (mut gd, stripped) = gen_doc(&mut case.ch, &gs.schema, &dopts);
    gd.doc = crate::props::c08::tame_exponential(case, &gs.schema, std::mem::take(&mut gd.doc));
    if stripped {
        // redirected by the exclusion of a known finding
        let _ = case.allow("merged_key_with_variable_condition");
    }
    // a fifth of the cases take the introspection route (schema as the JSON a server returns; no directive
    // applications exist there, so every scalar type comes from the configuration)
    let via_json = case.ch.chance(1, 5);
    let cfg = ScalarCfg::generate(&mut case.ch, &gs.schema, !via_json);
    let sdl_doc = sdl_with_scalar_directives(&gs.doc, &cfg);
    // half of the SDL schemas are written as definitions plus extensions (`extend type X implements I`, extra
    // fields / members / values / directives), over one to four files
    let schema_texts: Vec<String> = if !via_json && case.ch.flip() {
        case.label("schema-with-extensions");
        split_into_extensions(&mut case.ch, &sdl_doc).iter().filter(|f| !f.is_empty()).map(|f| canon_ts(f)).collect()
    } else {
        vec![canon_ts(&sdl_doc)]
    };
    let schema_sdl = schema_texts.join("\n# ---- next file\n");
    let op_text = canon_op(&gd.doc);
    let detail = json!({"schema": schema_sdl, "operations": op_text, "schema_via_introspection_json": via_json});
    let sfiles: Vec<(PathBuf, String)> = schema_texts.iter().enumerate().map(|(i, t)| (PathBuf::from(format!("/p/schema{i}.graphql")), t.clone())).collect();
    let ofiles = vec![(PathBuf::from("/p/ops.graphql"), op_text.clone())];
    let ss = schema_stage(&sfiles, &detail)?;
    if !ss.ok() {
        let d = ss.all_diags();
        return Err(Failure::new(format!("precondition:schema-rejected:{}", d[0].kind), format!("{:?}", d[0]), detail));
    }
    let js;
    let ischema;
    let iast;
    let mut sdoc = ss.doc.as_ref().unwrap();
    let mut svalue = None;
    if via_json {
        case.label("schema-via-introspection-json");
        let io = crate::introspect::IntrospectOpts { meta_types: case.ch.flip(), absent_optionals: case.ch.flip(), shuffle: case.ch.flip() };
        js = crate::introspect::introspect(&gs.schema, &io, Some(&mut case.ch));
        ischema = schema_via_introspection(&js, &detail)?;
        iast = guard(|| nitrogql_semantics::type_system_to_ast(&ischema)).map_err(|p| panic_failure("type_system_to_ast", &p, detail.clone()))?;
        sdoc = &iast;
        svalue = Some(&ischema);
    }
    let os = op_stage_with(sdoc, svalue, sfiles.len(), &ofiles, &detail)?;
    if let Some(d) = os.all_diags().first() {
        return Err(Failure::new(format!("precondition:document-rejected:{}", d.kind), format!("{:?}", d), detail));
    }
    let scfg = SchemaGenConfig { scalar_types: cfg.to_nitrogql_map(), allow_undefined_as_optional_input: allow_undefined, emit_schema_runtime: false };
    let schema_dts = match gen_schema_dts(sdoc, &scfg, None, &detail)? {
        Ok(b) => b.buffer,
        Err(e) => return Err(Failure::new("schema-printer-error", e, detail)),
    };
    let mut oopts = OperationTypePrinterOptions::default();
    oopts.schema_source = "./schema".into();
    oopts.allow_undefined_as_optional_input = allow_undefined;
    let op_dts = gen_operation_dts_with(sdoc, svalue, &os.files[0].doc, oopts, None, &detail)?.buffer;
    let detail2 = json!({"schema": schema_sdl, "operations": op_text, "schema_dts": schema_dts, "operation_dts": op_dts, "schema_via_introspection_json": via_json});
    let mut program = Program::new();
    if let Err(e) = program.add_module("Schema", &schema_dts) {
        return Err(Failure::new("ts-parse-error:schema", format!("emitted schema declarations are not well-formed: {} at {}:{}", e.msg, e.line, e.col), detail2));
    }
    if let Err(e) = program.add_module("ops", &op_dts) {
        return Err(Failure::new("ts-parse-error:operations", format!("emitted operation declarations are not well-formed: {} at {}:{}", e.msg, e.line, e.col), detail2));
    }
    Ok(Some(Emitted { gs, doc: gd.doc, labels: gd.labels, cfg, schema_sdl, op_text, schema_dts, op_dts, program, stripped, route: if via_json { "introspection-json" } else if schema_texts.len() > 1 { "sdl-with-extensions" } else { "sdl" } }))
}

pub enum Target<'a> {
    Op(&'a MOperation),
    Frag(&'a MFragment),
}

pub fn targets(doc: &MOpDoc) -> Vec<Target> {
    doc.iter()
        .filter_map(|d| match d {
            MExecDef::Op(o) => Some(Target::Op(o)),
            MExecDef::Frag(f) => Some(Target::Frag(f)),
            _ => None,
        })
        .collect()
}

impl<'a> Target<'a> {
    pub fn type_name(&self) -> String {
        match self {
            Target::Op(o) => format!("{}Result", capitalize(o.name.as_deref().unwrap_or(""))),
            Target::Frag(f) => f.name.clone(),
        }
    }
    pub fn sel(&self) -> &'a [MSelection] {
        match self {
            Target::Op(o) => &o.sel,
            Target::Frag(f) => &f.sel,
        }
    }
    pub fn parent(&self, s: &Schema) -> String {
        match self {
            Target::Op(o) => s.root(o.op).unwrap(),
            Target::Frag(f) => f.on.clone(),
        }
    }
    pub fn describe(&self) -> String {
        match self {
            Target::Op(o) => format!("operation {}", o.name.clone().unwrap_or("<anonymous>".into())),
            Target::Frag(f) => format!("fragment {}", f.name),
        }
    }
}

fn sigmas(case: &mut Case, vars: &[String]) -> Vec<Sigma> {
    if vars.len() <= 4 {
        (0..(1u32 << vars.len())).map(|m| vars.iter().enumerate().map(|(i, v)| (v.clone(), (m >> i) & 1 == 1)).collect()).collect()
    } else {
        (0..16).map(|_| vars.iter().map(|v| (v.clone(), case.ch.flip())).collect()).collect()
    }
}

fn unsupported(e: tsmini::Unsupported, detail: &Value) -> Failure {
    // an interpreter limitation is never a violation
    Failure::new("harness:unsupported-ts", e.0, detail.clone())
}

pub fn c01_case(case: &mut Case) -> CaseResult {
    let Some(em) = emit(case, true)? else { return Ok(()) };
    let frags = frag_map(&em.doc);
    let ex = Exec { s: &em.gs.schema, frags: &frags, cfg: &em.cfg };
    let detail = json!({"schema": em.schema_sdl, "operations": em.op_text, "operation_dts": em.op_dts});
    let per = if case.want_sample { 8 } else { 12 };
    let mut any_nontrivial = false;
    for t in targets(&em.doc) {
        let tn = t.type_name();
        let sem = em.program.alias("ops", &[&tn]).map_err(|e| unsupported(e, &detail))?;
        let mut vars = BTreeSet::new();
        all_condition_vars(t.sel(), &frags, &mut BTreeSet::new(), &mut vars);
        let vars: Vec<String> = vars.into_iter().collect();
        let parent = t.parent(&em.gs.schema);
        for sigma in sigmas(case, &vars) {
            for obj in em.gs.schema.possible(&parent) {
                for _ in 0..per {
                    let Ok(resp) = ex.execute(&obj, &[t.sel()], &sigma, &mut case.ch, 0) else { continue };
                    // harness self-test: executions lie in Ref_local
                    if !ex.in_ref_local(&resp, &parent, &[t.sel()]) {
                        panic!("harness self-test: executed response not in Ref_local: {:?}\n{}", resp, em.op_text);
                    }
                    case.evals(1);
                    let ok = tsmini::member(&resp, &sem, 0).map_err(|e| unsupported(e, &detail))?;
                    if !ok {
                        return Err(Failure::new(
                            "response-not-admitted",
                            format!("{}: a spec-conformant response is not a member of the emitted type {tn}", t.describe()),
                            json!({"schema": em.schema_sdl, "operations": em.op_text, "operation_dts": em.op_dts,
                                   "variables": sigma, "runtime_type": obj, "response": resp.to_json(), "type": tn, "schema_route": em.route, "schema_dts": em.schema_dts}),
                        ));
                    }
                    if let Val::Obj(m) = &resp {
                        if !m.is_empty() {
                            any_nontrivial = true;
                        }
                    }
                }
            }
        }
    }
    for l in &em.labels {
        case.label(l);
    }
    let interesting = ["merged-response-key", "variable-condition", "type-condition-on-abstract-parent", "alias", "list-of-composite", "skip-and-include"];
    if any_nontrivial && em.labels.iter().any(|l| interesting.contains(l)) {
        case.nontrivial(&(&em.schema_sdl, &em.op_text));
    }
    case.sample(|| json!({"schema": em.schema_sdl, "operations": em.op_text, "operation_dts": em.op_dts}));
    Ok(())
}

// ---------------------------------------------------------------------------
// C02

/// single-point mutations of a response
pub fn near_misses(v: &Val, other_types: &[String], out: &mut Vec<(Val, &'static str)>, rebuild: &dyn Fn(Val) -> Val, depth: usize) {
    if depth > 6 || out.len() > 200 {
        return;
    }
    match v {
        Val::Obj(m) => {
            for (k, x) in m {
                // delete key
                let mut m2 = m.clone();
                m2.remove(k);
                out.push((rebuild(Val::Obj(m2)), "delete-key"));
                // null
                if *x != Val::Null {
                    let mut m2 = m.clone();
                    m2.insert(k.clone(), Val::Null);
                    out.push((rebuild(Val::Obj(m2)), "null-value"));
                }
                // recurse
                let k2 = k.clone();
                let m3 = m.clone();
                let rb = move |nv: Val| {
                    let mut m4 = m3.clone();
                    m4.insert(k2.clone(), nv);
                    rebuild(Val::Obj(m4))
                };
                near_misses(x, other_types, out, &rb, depth + 1);
            }
            // swap __typename-like strings handled at Str level
        }
        Val::List(items) => {
            // unwrap single-element list / wrap
            if items.len() == 1 {
                out.push((rebuild(items[0].clone()), "unwrap-list"));
            }
            out.push((rebuild(Val::List(vec![Val::Null])), "list-with-null"));
            for (i, x) in items.iter().enumerate() {
                let items2 = items.clone();
                let rb = move |nv: Val| {
                    let mut it = items2.clone();
                    it[i] = nv;
                    rebuild(Val::List(it))
                };
                near_misses(x, other_types, out, &rb, depth + 1);
            }
        }
        Val::Str(s) => {
            out.push((rebuild(Val::Str(format!("{s}_not_a_member"))), "foreign-string"));
            out.push((rebuild(Val::Num), "number-for-string"));
            out.push((rebuild(Val::List(vec![Val::Str(s.clone())])), "wrap-list"));
            for t in other_types.iter().take(3) {
                if t != s {
                    out.push((rebuild(Val::Str(t.clone())), "sibling-typename"));
                }
            }
        }
        Val::Num => {
            out.push((rebuild(Val::Str("1".into())), "string-for-number"));
            out.push((rebuild(Val::Bool(true)), "boolean-for-number"));
        }
        Val::Bool(_) => out.push((rebuild(Val::Num), "number-for-boolean")),
        Val::Opaque(o) => {
            out.push((rebuild(Val::Str(o.clone())), "string-for-opaque"));
            out.push((rebuild(Val::Opaque(format!("Not{o}"))), "other-opaque"));
        }
        Val::BigInt => out.push((rebuild(Val::Num), "number-for-bigint")),
        Val::Null | Val::Undefined => {}
    }
}

/// every key of the Obj/Others arguments of __SelectionSet must exist in Orig
fn check_selection_set_keys(ty: &Ty, em: &Emitted, tn: &str, detail: &Value) -> Result<u64, Failure> {
    let mut n = 0;
    let mut stack = vec![ty];
    while let Some(t) = stack.pop() {
        match t {
            Ty::Ref(path, args) => {
                if path.last().map(|s| s.as_str()) == Some("__SelectionSet") && args.len() == 3 {
                    let scope = em.program.modules["ops"].clone();
                    let orig = tsmini::eval(&args[0], &tsmini::Env::root(scope), 0).map_err(|e| unsupported(e, detail))?;
                    let keys: Vec<String> = match tsmini::props_of(&orig, 0).map_err(|e| unsupported(e, detail))? {
                        Some(ps) => ps.into_iter().map(|p| p.key).collect(),
                        None => {
                            return Err(Failure::new(
                                "selection-set-orig-not-object",
                                format!("{tn}: first argument of __SelectionSet does not denote an object type: {:?}", args[0]),
                                detail.clone(),
                            ));
                        }
                    };
                    if let Ty::Obj(props) = &args[1] {
                        for p in props {
                            n += 1;
                            if !keys.contains(&p.key) {
                                return Err(Failure::new(
                                    "selected-key-missing-in-schema-declaration",
                                    format!("{tn}: key {:?} is selected but the schema declaration {:?} has no such key (the utility type drops it silently)", p.key, args[0]),
                                    detail.clone(),
                                ));
                            }
                        }
                    }
                }
                for a in args {
                    stack.push(a);
                }
            }
            Ty::Obj(props) => props.iter().for_each(|p| stack.push(&p.ty)),
            Ty::Array(t) | Ty::ReadonlyArray(t) | Ty::Paren(t) | Ty::Keyof(t) => stack.push(t),
            Ty::Union(ts) | Ty::Inter(ts) => ts.iter().for_each(|t| stack.push(t)),
            Ty::Index(a, b) => {
                stack.push(a);
                stack.push(b);
            }
            _ => {}
        }
    }
    Ok(n)
}

pub fn c02_case(case: &mut Case) -> CaseResult {
    let Some(em) = emit(case, true)? else { return Ok(()) };
    let frags = frag_map(&em.doc);
    let ex = Exec { s: &em.gs.schema, frags: &frags, cfg: &em.cfg };
    let detail = json!({"schema": em.schema_sdl, "operations": em.op_text, "operation_dts": em.op_dts});
    let objects: Vec<String> = em.gs.schema.objects().iter().map(|o| o.name.clone()).collect();
    let mut outside = 0u64;
    for t in targets(&em.doc) {
        let tn = t.type_name();
        let sem: Rc<Sem> = em.program.alias("ops", &[&tn]).map_err(|e| unsupported(e, &detail))?;
        let parent = t.parent(&em.gs.schema);
        // structural key check
        let decl = em.program.modules["ops"].types.get(&tn).cloned();
        if let Some(decl) = decl {
            let n = check_selection_set_keys(&decl.ty, &em, &tn, &detail)?;
            case.evals(n);
        }
        let mut candidates: Vec<(Val, &'static str)> = vec![];
        // (a) near misses of real responses
        let mut vars = BTreeSet::new();
        all_condition_vars(t.sel(), &frags, &mut BTreeSet::new(), &mut vars);
        let vars: Vec<String> = vars.into_iter().collect();
        for _ in 0..3 {
            let sigma: Sigma = vars.iter().map(|v| (v.clone(), case.ch.flip())).collect();
            let poss = em.gs.schema.possible(&parent);
            if poss.is_empty() {
                continue;
            }
            let obj = case.ch.pick(&poss).clone();
            if let Ok(resp) = ex.execute(&obj, &[t.sel()], &sigma, &mut case.ch, 0) {
                near_misses(&resp, &objects, &mut candidates, &|v| v, 0);
            }
        }
        // (b) inhabitants of the emitted type itself
        let mut budget = 60;
        for v in tsmini::inhabitants(&sem, &mut budget, 0).map_err(|e| unsupported(e, &detail))? {
            candidates.push((v, "inhabitant"));
        }
        for (v, how) in candidates {
            case.evals(1);
            let admitted = tsmini::member(&v, &sem, 0).map_err(|e| unsupported(e, &detail))?;
            let in_ref = ex.in_ref_local_x(&v, &parent, &[t.sel()], true);
            if !in_ref {
                outside += 1;
            }
            if admitted && !in_ref {
                return Err(Failure::new(
                    format!("admits-impossible-value:{how}"),
                    format!("{}: the emitted type {tn} admits a value no execution could produce ({how})", t.describe()),
                    json!({"schema": em.schema_sdl, "operations": em.op_text, "operation_dts": em.op_dts, "value": v.to_json(), "type": tn, "how": how}),
                ));
            }
        }
    }
    for l in &em.labels {
        case.label(l);
    }
    if outside > 0 {
        case.nontrivial(&(&em.schema_sdl, &em.op_text));
    }
    case.sample(|| json!({"schema": em.schema_sdl, "operations": em.op_text, "operation_dts": em.op_dts, "candidates_outside_ref_local": outside}));
    Ok(())
}

fn probe_c01(schema: &'static str, ops: &'static str, type_name: &'static str, response: Val) -> impl FnOnce() -> CaseResult {
    move || {
        let detail = json!({"schema": schema, "operations": ops});
        let sfiles = vec![(PathBuf::from("/p/schema.graphql"), schema.to_string())];
        let ofiles = vec![(PathBuf::from("/p/ops.graphql"), ops.to_string())];
        let ss = schema_stage(&sfiles, &detail)?;
        let sdoc = ss.doc.as_ref().ok_or_else(|| Failure::new("probe-schema", "schema rejected", detail.clone()))?;
        let os = op_stage(sdoc, 1, &ofiles, &detail)?;
        if !os.all_diags().is_empty() {
            return Err(Failure::new("probe-doc-rejected", format!("{:?}", os.all_diags()), detail));
        }
        let schema_dts = gen_schema_dts(sdoc, &SchemaGenConfig::default(), None, &detail)?.map_err(|e| Failure::new("printer", e, detail.clone()))?.buffer;
        let mut oopts = OperationTypePrinterOptions::default();
        oopts.schema_source = "./schema".into();
        let op_dts = gen_operation_dts(sdoc, &os.files[0].doc, oopts, None, &detail)?.buffer;
        let mut program = Program::new();
        program.add_module("Schema", &schema_dts).map_err(|e| Failure::new("ts-parse-error", e.msg, detail.clone()))?;
        program.add_module("ops", &op_dts).map_err(|e| Failure::new("ts-parse-error", e.msg, detail.clone()))?;
        let sem = program.alias("ops", &[type_name]).map_err(|e| unsupported(e, &detail))?;
        if tsmini::member(&response, &sem, 0).map_err(|e| unsupported(e, &detail))? {
            Ok(())
        } else {
            Err(Failure::new("response-not-admitted", format!("{:?} not in {type_name}", response), json!({"operation_dts": op_dts})))
        }
    }
}

pub fn run_c01(env: &Env) -> i32 {
    let mut rep = Report::new(
        env,
        "exploration",
        "valid schema + valid document (C04 generators, random scalar configurations); for every operation and fragment, every assignment of the boolean variables used in @skip/@include (exhaustive up to 4, else 16 sampled), every possible runtime type of the root/fragment type and 12 random data choices each (concrete type per abstract position, null per nullable position, list lengths 0-2): the reference executor's response must be a member of the emitted type, evaluated by a mini TypeScript evaluator over the emitted schema and operation declaration files. Non-trivial: document uses merged response keys / variable conditions / type conditions on abstract parents / aliases / lists of composites and the response is a non-empty object; distinct = (schema, document).",
    );
    rep.assume("TypeScript semantics are modelled by tsmini (no tsc in the sandbox): absent property == undefined; for Obj = {k?: never}, `Obj extends {k?: infer V}` infers V = undefined");
    rep.assume("scalar leaf values are inhabitants of the configured operation-output TypeScript type");
    let mut obj = BTreeMap::new();
    obj.insert("a".to_string(), Val::Obj(BTreeMap::new()));
    rep.probe(
        "C01-merged-key-variable-condition",
        probe_c01(
            "type A { x: Int y: Int }\ntype Query { a: A! }",
            "query Q($v: Boolean!) { a { x @skip(if: $v) } a { y @skip(if: $v) } }",
            "QResult",
            Val::Obj(obj),
        ),
    );
    rep.campaign("responses", env.cases(6_000, 60_000), (300, 1500), c01_case);
    rep.finish()
}

fn probe_c02_tn() -> CaseResult {
    // regression: aliased __typename must be the literal
    let schema = "type A { x: Int }\ntype Query { a: A! }";
    let ops = "query Q { a { tn: __typename } }";
    let detail = json!({"schema": schema, "operations": ops});
    let sfiles = vec![(PathBuf::from("/p/schema.graphql"), schema.to_string())];
    let ofiles = vec![(PathBuf::from("/p/ops.graphql"), ops.to_string())];
    let ss = schema_stage(&sfiles, &detail)?;
    let sdoc = ss.doc.as_ref().ok_or_else(|| Failure::new("probe-schema", "schema rejected", detail.clone()))?;
    let os = op_stage(sdoc, 1, &ofiles, &detail)?;
    let schema_dts = gen_schema_dts(sdoc, &SchemaGenConfig::default(), None, &detail)?.map_err(|e| Failure::new("printer", e, detail.clone()))?.buffer;
    let mut oopts = OperationTypePrinterOptions::default();
    oopts.schema_source = "./schema".into();
    let op_dts = gen_operation_dts(sdoc, &os.files[0].doc, oopts, None, &detail)?.buffer;
    let mut program = Program::new();
    program.add_module("Schema", &schema_dts).map_err(|e| Failure::new("ts-parse-error", e.msg, detail.clone()))?;
    program.add_module("ops", &op_dts).map_err(|e| Failure::new("ts-parse-error", e.msg, detail.clone()))?;
    let sem = program.alias("ops", &["QResult"]).map_err(|e| unsupported(e, &detail))?;
    let mut a = BTreeMap::new();
    a.insert("tn".to_string(), Val::Str("NotA".into()));
    let mut r = BTreeMap::new();
    r.insert("a".to_string(), Val::Obj(a));
    if tsmini::member(&Val::Obj(r), &sem, 0).map_err(|e| unsupported(e, &detail))? {
        return Err(Failure::new("admits-impossible-value", "tn: \"NotA\" admitted", json!({"operation_dts": op_dts})));
    }
    Ok(())
}

pub fn run_c02(env: &Env) -> i32 {
    let mut rep = Report::new(
        env,
        "exploration",
        "same generated cases as C01; candidate values are (a) single-point mutations of real responses (deleted key, null, foreign enum string, atom of another type, wrapped/unwrapped list, sibling __typename) and (b) sampled inhabitants of the emitted type itself; oracle: member(v, emitted type) implies v in Ref_local (per selection set: some runtime type, some assignment of that level's boolean variables), plus the structural check that every key passed to __SelectionSet exists in the referenced schema declaration. Non-trivial: at least one candidate lies outside Ref_local (so the implication has teeth); distinct = (schema, document).",
    );
    rep.assume("object keys the selection set cannot produce for the chosen runtime type under any variable assignment are never a reason for rejection (TypeScript object types are open, no emitted type can exclude them); a key the selection set can produce must be absent in a branch that does not select it (the emitted types say `k?: never` there)");
    rep.probe("C02-aliased-typename", probe_c02_tn);
    rep.campaign("candidates", env.cases(3_000, 40_000), (300, 1500), c02_case);
    rep.finish()
}
