//! C10 — schema and resolver declaration files describe exactly the schema.

use crate::choices::Choices;
use crate::gen_schema::*;
use crate::model::*;
use crate::pipeline::*;
use crate::props::c01::{near_misses, sdl_with_scalar_directives};
use crate::refexec::*;
use crate::render::*;
use crate::runner::*;
use crate::schema::Schema;
use crate::tsmini::{self, Program, Sem, Stmt, Ty, Val};
use serde_json::{json, Value};
use std::collections::{BTreeMap, BTreeSet};
use std::path::PathBuf;
use std::rc::Rc;

pub struct RefT<'a> {
    pub s: &'a Schema,
    pub cfg: &'a ScalarCfg,
    pub optional_nullable_inputs: bool,
}

impl<'a> RefT<'a> {
    /// v ∈ Ref_t(wrapped type)
    pub fn member_wrapped(&self, v: &Val, ty: &MType, t: Target) -> bool {
        match ty {
            MType::NonNull(inner) => !matches!(v, Val::Null | Val::Undefined) && self.member_nn(v, inner, t),
            inner => *v == Val::Null || (*v != Val::Undefined && self.member_nn(v, inner, t)),
        }
    }
    fn member_nn(&self, v: &Val, ty: &MType, t: Target) -> bool {
        match ty {
            MType::NonNull(inner) => self.member_nn(v, inner, t),
            MType::List(inner) => match v {
                Val::List(items) => items.iter().all(|i| self.member_wrapped(i, inner, t)),
                _ => false,
            },
            MType::Named(n) => self.member_named(v, n, t),
        }
    }
    /// v ∈ Ref_t(T) for a named type (non-null)
    pub fn member_named(&self, v: &Val, name: &str, t: Target) -> bool {
        let def = &self.s.types[name];
        match def.kind {
            Kind::Scalar => !matches!(v, Val::Undefined) && tsmini::member(v, &global_sem(self.cfg.ts(name, t)), 0).unwrap_or(false),
            Kind::Enum => matches!(v, Val::Str(s) if def.values.iter().any(|x| &x.name == s)),
            Kind::Object => {
                let Val::Obj(m) = v else { return false };
                if m.get("__typename") != Some(&Val::Str(name.to_string())) {
                    return false;
                }
                def.fields.iter().all(|f| self.member_wrapped(m.get(&f.name).unwrap_or(&Val::Undefined), &f.ty, t))
            }
            Kind::Interface | Kind::Union => self.s.possible(name).iter().any(|o| self.member_named(v, o, t)),
            Kind::Input => {
                let Val::Obj(m) = v else { return false };
                def.input_fields.iter().all(|f| match m.get(&f.name) {
                    None | Some(Val::Undefined) => !f.ty.is_non_null() && self.optional_nullable_inputs,
                    Some(x) => self.member_wrapped(x, &f.ty, t),
                })
            }
        }
    }

    pub fn gen_wrapped(&self, ch: &mut Choices, ty: &MType, t: Target, depth: usize) -> Option<Val> {
        match ty {
            MType::NonNull(inner) => self.gen_nn(ch, inner, t, depth),
            inner => {
                if depth > 3 || ch.chance(1, 5) {
                    Some(Val::Null)
                } else {
                    Some(self.gen_nn(ch, inner, t, depth).unwrap_or(Val::Null))
                }
            }
        }
    }
    fn gen_nn(&self, ch: &mut Choices, ty: &MType, t: Target, depth: usize) -> Option<Val> {
        match ty {
            MType::NonNull(inner) => self.gen_nn(ch, inner, t, depth),
            MType::List(inner) => {
                let n = if depth > 3 { 0 } else { ch.below(3) };
                let mut items = vec![];
                for _ in 0..n {
                    items.push(self.gen_wrapped(ch, inner, t, depth + 1)?);
                }
                Some(Val::List(items))
            }
            MType::Named(n) => self.gen_named(ch, n, t, depth),
        }
    }
    pub fn gen_named(&self, ch: &mut Choices, name: &str, t: Target, depth: usize) -> Option<Val> {
        if depth > 7 {
            return None;
        }
        let def = &self.s.types[name];
        match def.kind {
            Kind::Scalar => {
                let vs: Vec<Val> = sem_inhabitants(self.cfg.ts(name, t)).into_iter().filter(|v| !matches!(v, Val::Null | Val::Undefined)).collect();
                if vs.is_empty() { None } else { Some(ch.pick(&vs).clone()) }
            }
            Kind::Enum => Some(Val::Str(ch.pick(&def.values).name.clone())),
            Kind::Object => {
                let mut m = BTreeMap::new();
                m.insert("__typename".to_string(), Val::Str(name.to_string()));
                for f in &def.fields {
                    m.insert(f.name.clone(), self.gen_wrapped(ch, &f.ty, t, depth + 1)?);
                }
                Some(Val::Obj(m))
            }
            Kind::Interface | Kind::Union => {
                let p = self.s.possible(name);
                if p.is_empty() {
                    return None;
                }
                let o = ch.pick(&p).clone();
                self.gen_named(ch, &o, t, depth)
            }
            Kind::Input => {
                let mut m = BTreeMap::new();
                for f in &def.input_fields {
                    if !f.ty.is_non_null() && self.optional_nullable_inputs && ch.chance(1, 3) {
                        continue;
                    }
                    m.insert(f.name.clone(), self.gen_wrapped(ch, &f.ty, t, depth + 1)?);
                }
                Some(Val::Obj(m))
            }
        }
    }
}

/// identifiers occurring in the scalar TS mappings (what nitrogql calls the bag)
fn bag_of_identifiers(cfg: &ScalarCfg, s: &Schema) -> BTreeSet<String> {
    let mut out = BTreeSet::new();
    for (name, c) in &cfg.map {
        if !s.types.contains_key(name) {
            continue;
        }
        for ts in c.all_types() {
            let mut cur = String::new();
            for ch in ts.chars().chain(std::iter::once(' ')) {
                if ch.is_ascii_alphanumeric() || ch == '_' {
                    cur.push(ch);
                } else {
                    if !cur.is_empty() && !cur.chars().next().unwrap().is_ascii_digit() {
                        out.insert(cur.clone());
                    }
                    cur.clear();
                }
            }
        }
    }
    out
}

fn applicable(kind: Kind, t: Target) -> bool {
    match kind {
        Kind::Scalar | Kind::Enum => true,
        Kind::Object | Kind::Interface | Kind::Union => !t.is_input(),
        Kind::Input => t.is_input(),
    }
}

fn unsup(e: tsmini::Unsupported, detail: &Value) -> Failure {
    Failure::new("harness:unsupported-ts", e.0, detail.clone())
}

fn check_alias(
    case: &mut Case,
    program: &Program,
    r: &RefT,
    name: &str,
    t: Target,
    detail: &Value,
    objects: &[String],
) -> CaseResult {
    let sem: Rc<Sem> = match program.alias("Schema", &[t.ns(), name]) {
        Ok(s) => s,
        Err(e) => {
            if e.0.contains("not found") {
                return Err(Failure::new(
                    "alias-missing",
                    format!("namespace {} exports no type named {name}", t.ns()),
                    json!({"detail": detail, "type": name, "target": t.ns()}),
                ));
            }
            return Err(unsup(e, detail));
        }
    };
    // (a) inhabitants of the emitted alias lie in Ref
    let mut budget = 40;
    for v in tsmini::inhabitants(&sem, &mut budget, 0).map_err(|e| unsup(e, detail))? {
        case.evals(1);
        if matches!(v, Val::Null | Val::Undefined) || !r.member_named(&v, name, t) {
            return Err(Failure::new(
                format!("alias-admits-foreign-value:{:?}", r.s.kind(name).unwrap()),
                format!("{}.{name} admits a value outside the denotation of the GraphQL type", t.ns()),
                json!({"detail": detail, "type": name, "target": t.ns(), "value": v.to_json()}),
            ));
        }
    }
    // (b) reference inhabitants are admitted; (c) near misses admitted => in Ref
    for _ in 0..4 {
        let Some(v) = r.gen_named(&mut case.ch, name, t, 0) else { continue };
        debug_assert!(r.member_named(&v, name, t));
        case.evals(1);
        if !tsmini::member(&v, &sem, 0).map_err(|e| unsup(e, detail))? {
            return Err(Failure::new(
                format!("alias-rejects-valid-value:{:?}", r.s.kind(name).unwrap()),
                format!("{}.{name} rejects a value of the GraphQL type", t.ns()),
                json!({"detail": detail, "type": name, "target": t.ns(), "value": v.to_json()}),
            ));
        }
        let mut nm = vec![];
        near_misses(&v, objects, &mut nm, &|x| x, 0);
        for (x, how) in nm.into_iter().take(60) {
            case.evals(1);
            if tsmini::member(&x, &sem, 0).map_err(|e| unsup(e, detail))? && !r.member_named(&x, name, t) {
                // extra keys cannot be excluded by any TS type; near_misses never adds keys
                return Err(Failure::new(
                    format!("alias-admits-foreign-value:{how}"),
                    format!("{}.{name} admits a near-miss ({how}) outside the denotation of the GraphQL type", t.ns()),
                    json!({"detail": detail, "type": name, "target": t.ns(), "value": x.to_json()}),
                ));
            }
        }
    }
    Ok(())
}

fn ref_name(t: &Ty) -> Option<String> {
    match t {
        Ty::Ref(p, a) if a.is_empty() => Some(p.join(".")),
        Ty::Paren(t) => ref_name(t),
        _ => None,
    }
}

fn union_members(t: &Ty) -> Vec<&Ty> {
    match t {
        Ty::Union(items) => items.iter().flat_map(union_members).collect(),
        Ty::Paren(t) => union_members(t),
        t => vec![t],
    }
}

fn check_resolvers(case: &mut Case, program: &Program, r: &RefT, model_fields: &BTreeSet<(String, String)>, detail: &Value) -> CaseResult {
    let scope = program.modules["resolvers"].clone();
    let Some(decl) = scope.types.get("Resolvers") else {
        return Err(Failure::new("resolvers-type-missing", "no `Resolvers` type in the resolvers file", detail.clone()));
    };
    if !scope.exports.contains_key("Resolvers") || decl.params != vec!["Context".to_string()] {
        return Err(Failure::new("resolvers-type-shape", "`Resolvers<Context>` must be exported with one type parameter", detail.clone()));
    }
    let Ty::Obj(entries) = &decl.ty else {
        return Err(Failure::new("resolvers-type-shape", "`Resolvers` is not an object type", detail.clone()));
    };
    let s = r.s;
    let expected: BTreeSet<String> = s.order.iter().filter(|n| s.is_composite(n)).cloned().collect();
    // the introspection meta types (`__Schema`, `__Type`, ...) that an introspection result lists are part of
    // every schema; the statement speaks about the types the schema defines, so their entries are not compared
    let got: BTreeSet<String> = entries.iter().map(|p| p.key.clone()).filter(|k| !k.starts_with("__")).collect();
    if expected != got {
        return Err(Failure::new(
            "resolvers-keys",
            format!("Resolvers has keys {got:?}, expected one per object/interface/union type {expected:?}"),
            detail.clone(),
        ));
    }
    let env = tsmini::Env::root(scope.clone());
    for e in entries {
        if e.key.starts_with("__") {
            continue;
        }
        let def = &s.types[&e.key];
        let Ty::Obj(fields) = &e.ty else {
            return Err(Failure::new("resolvers-entry-shape", format!("entry {} is not an object type", e.key), detail.clone()));
        };
        match def.kind {
            Kind::Object => {
                if e.optional && !def.fields.is_empty() {
                    return Err(Failure::new("resolvers-entry-optional", format!("entry {} is optional although the type has fields", e.key), detail.clone()));
                }
                // (fields marked `@model` are supplied by the parent object: the model plugin takes them out)
                let exp: BTreeSet<String> = def.fields.iter().map(|f| f.name.clone()).filter(|f| !model_fields.contains(&(e.key.clone(), f.clone()))).collect();
                let got: BTreeSet<String> = fields.iter().map(|p| p.key.clone()).collect();
                if exp != got {
                    return Err(Failure::new(
                        "resolvers-field-keys",
                        format!("Resolvers.{} has keys {got:?}, expected the fields {exp:?}", e.key),
                        detail.clone(),
                    ));
                }
                if !model_fields.is_empty() {
                    // with the model plugin the object types of the resolvers file are `Pick`s of their model
                    // fields: only the key sets are compared
                    continue;
                }
                for fp in fields {
                    if fp.optional {
                        return Err(Failure::new("resolvers-field-optional", format!("Resolvers.{}.{} is optional", e.key, fp.key), detail.clone()));
                    }
                    let fd = def.fields.iter().find(|f| f.name == fp.key).unwrap();
                    let Ty::Ref(p, args) = &fp.ty else {
                        return Err(Failure::new("resolver-shape", format!("Resolvers.{}.{} is not a __Resolver<...>", e.key, fp.key), detail.clone()));
                    };
                    if p != &vec!["__Resolver".to_string()] || args.len() != 4 {
                        return Err(Failure::new("resolver-shape", format!("Resolvers.{}.{} is not a __Resolver<Parent, Args, Context, Result>", e.key, fp.key), detail.clone()));
                    }
                    if ref_name(&args[0]).as_deref() != Some(e.key.as_str()) || ref_name(&args[2]).as_deref() != Some("Context") {
                        return Err(Failure::new("resolver-parent-or-context", format!("Resolvers.{}.{}: wrong Parent/Context arguments", e.key, fp.key), detail.clone()));
                    }
                    // Args
                    let args_sem = tsmini::eval(&args[1], &env, 0).map_err(|x| unsup(x, detail))?;
                    for _ in 0..3 {
                        let mut m = BTreeMap::new();
                        let mut ok = true;
                        for a in &fd.args {
                            match r.gen_wrapped(&mut case.ch, &a.ty, Target::ResolverInput, 0) {
                                Some(v) => {
                                    m.insert(a.name.clone(), v);
                                }
                                None => ok = false,
                            }
                        }
                        if !ok {
                            continue;
                        }
                        let v = Val::Obj(m);
                        case.evals(1);
                        if !tsmini::member(&v, &args_sem, 0).map_err(|x| unsup(x, detail))? {
                            return Err(Failure::new(
                                "resolver-args-reject-valid",
                                format!("Args of Resolvers.{}.{} rejects a valid argument object", e.key, fp.key),
                                json!({"detail": detail, "value": v.to_json()}),
                            ));
                        }
                        let mut nm = vec![];
                        near_misses(&v, &[], &mut nm, &|x| x, 0);
                        for (x, how) in nm.into_iter().take(30) {
                            if let Val::Obj(xm) = &x {
                                let in_ref = fd.args.iter().all(|a| r.member_wrapped(xm.get(&a.name).unwrap_or(&Val::Undefined), &a.ty, Target::ResolverInput));
                                case.evals(1);
                                if !in_ref && tsmini::member(&x, &args_sem, 0).map_err(|x| unsup(x, detail))? {
                                    return Err(Failure::new(
                                        format!("resolver-args-admit-foreign:{how}"),
                                        format!("Args of Resolvers.{}.{} admits an invalid argument object ({how})", e.key, fp.key),
                                        json!({"detail": detail, "value": x.to_json()}),
                                    ));
                                }
                            }
                        }
                    }
                    let arg_keys: BTreeSet<String> = match &args[1] {
                        Ty::Obj(ps) => ps.iter().map(|p| p.key.clone()).collect(),
                        _ => BTreeSet::new(),
                    };
                    let exp_args: BTreeSet<String> = fd.args.iter().map(|a| a.name.clone()).collect();
                    if arg_keys != exp_args {
                        return Err(Failure::new("resolver-args-keys", format!("Args of Resolvers.{}.{} has keys {arg_keys:?}, expected {exp_args:?}", e.key, fp.key), detail.clone()));
                    }
                    // Result: wrapper-exact structure over the local alias of the named type
                    fn strip<'x>(t: &'x Ty) -> &'x Ty {
                        match t {
                            Ty::Paren(t) => strip(t),
                            t => t,
                        }
                    }
                    fn result_matches(t: &Ty, ty: &MType) -> bool {
                        // nullable: T | null
                        let t = strip(t);
                        match ty {
                            MType::NonNull(inner) => result_matches_nn(t, inner),
                            inner => {
                                let ms = union_members(t);
                                let nulls = ms.iter().filter(|m| ref_name(m).as_deref() == Some("null")).count();
                                let others: Vec<&&Ty> = ms.iter().filter(|m| ref_name(m).as_deref() != Some("null")).collect();
                                nulls == 1 && others.len() == 1 && result_matches_nn(others[0], inner)
                            }
                        }
                    }
                    fn result_matches_nn(t: &Ty, ty: &MType) -> bool {
                        let t = strip(t);
                        match ty {
                            MType::NonNull(inner) => result_matches_nn(t, inner),
                            MType::List(inner) => match t {
                                Ty::Array(e) | Ty::ReadonlyArray(e) => result_matches(e, inner),
                                _ => false,
                            },
                            MType::Named(n) => ref_name(t).as_deref() == Some(n.as_str()),
                        }
                    }
                    if !result_matches(&args[3], &fd.ty) {
                        return Err(Failure::new(
                            "resolver-result-type",
                            format!("Result of Resolvers.{}.{} is {:?}, which does not mirror the field type {}", e.key, fp.key, args[3], fd.ty.show()),
                            detail.clone(),
                        ));
                    }
                    case.evals(1);
                }
            }
            Kind::Interface | Kind::Union => {
                if fields.len() != 1 || fields[0].key != "__resolveType" {
                    return Err(Failure::new("type-resolver-shape", format!("Resolvers.{} must have exactly __resolveType", e.key), detail.clone()));
                }
                let Ty::Ref(p, args) = &fields[0].ty else {
                    return Err(Failure::new("type-resolver-shape", format!("Resolvers.{}.__resolveType is not a __TypeResolver", e.key), detail.clone()));
                };
                if p != &vec!["__TypeResolver".to_string()] || args.len() != 3 {
                    return Err(Failure::new("type-resolver-shape", format!("Resolvers.{}.__resolveType is not a __TypeResolver<Obj, Context, Result>", e.key), detail.clone()));
                }
                let poss: BTreeSet<String> = s.possible(&e.key).into_iter().collect();
                let objs: BTreeSet<String> = union_members(&args[0]).iter().filter_map(|m| ref_name(m)).filter(|n| n != "never").collect();
                let lits: BTreeSet<String> = union_members(&args[2])
                    .iter()
                    .filter_map(|m| if let Ty::StrLit(s) = m { Some(s.clone()) } else { None })
                    .collect();
                if objs != poss || lits != poss {
                    return Err(Failure::new(
                        "type-resolver-possible-types",
                        format!("Resolvers.{}.__resolveType ranges over {objs:?} / {lits:?}, expected exactly the possible types {poss:?}", e.key),
                        detail.clone(),
                    ));
                }
                case.evals(1);
            }
            _ => {}
        }
    }
    // the local aliases used in Parent/Result positions must denote the resolver-output type
    for name in s.order.iter().filter(|n| !matches!(s.kind(n), Some(Kind::Input))) {
        if scope.types.get(name).is_none() {
            return Err(Failure::new("resolver-local-alias-missing", format!("resolvers file declares no local type {name}"), detail.clone()));
        }
    }
    Ok(())
}

fn case_fn(case: &mut Case) -> CaseResult {
    let mut so = SchemaGenOpts::default();
    so.descriptions = 2;
    so.comment_close_in_text = !case.is_excluded("description_with_comment_close");
    let mut gs = gen_schema(&mut case.ch, &so);
    if !so.comment_close_in_text {
        let before = canon_ts(&gs.doc);
        strip_comment_close(&mut gs.doc);
        if canon_ts(&gs.doc) != before {
            let _ = case.allow("description_with_comment_close");
        }
    }
    // a quarter of the cases take the introspection route (no directive applications exist there, so every
    // scalar type comes from the configuration)
    let via_json = case.ch.chance(1, 4);
    let mut cfg = ScalarCfg::generate(&mut case.ch, &gs.schema, !via_json);
    // known finding: a renamed (clashing) object inside an interface/union union
    if case.is_excluded("renamed_type_in_abstract") {
        let bag = bag_of_identifiers(&cfg, &gs.schema);
        let clash = gs.schema.objects().iter().any(|o| {
            bag.contains(&o.name) && (!o.implements.is_empty() || gs.schema.of_kind(Kind::Union).iter().any(|u| u.members.contains(&o.name)))
        });
        if clash {
            let _ = case.allow("renamed_type_in_abstract");
            for c in cfg.map.values_mut() {
                let f = |s: &String| s.replace("Date", "number");
                *c = match c.clone() {
                    ScalarTs::Single(a) => ScalarTs::Single(f(&a)),
                    ScalarTs::SendReceive { send, receive } => ScalarTs::SendReceive { send: f(&send), receive: f(&receive) },
                    ScalarTs::Separate { resolver_input, resolver_output, operation_input, operation_output } => ScalarTs::Separate {
                        resolver_input: f(&resolver_input),
                        resolver_output: f(&resolver_output),
                        operation_input: f(&operation_input),
                        operation_output: f(&operation_output),
                    },
                };
            }
        }
    }
    let allow_undefined = case.ch.flip();
    let runtime = case.ch.chance(1, 4);
    let sdl_doc = sdl_with_scalar_directives(&gs.doc, &cfg);
    // half of the SDL schemas are written as definitions plus extensions over one to four files
    let schema_texts: Vec<String> = if !via_json && case.ch.flip() {
        case.label("schema-with-extensions");
        split_into_extensions(&mut case.ch, &sdl_doc).iter().filter(|f| !f.is_empty()).map(|f| canon_ts(f)).collect()
    } else {
        vec![canon_ts(&sdl_doc)]
    };
    let mut schema_sdl = schema_texts.join("\n# ---- next file\n");
    let detail0 = json!({"schema": schema_sdl});
    let sfiles: Vec<(PathBuf, String)> = schema_texts.iter().enumerate().map(|(i, t)| (PathBuf::from(format!("/p/schema{i}.graphql")), t.clone())).collect();
    let ss = schema_stage(&sfiles, &detail0)?;
    if !ss.ok() {
        let d = ss.all_diags();
        return Err(Failure::new(format!("precondition:schema-rejected:{}", d[0].kind), format!("{:?}", d[0]), detail0));
    }
    let js;
    let mut js_text: Option<String> = None;
    let ischema;
    let iast;
    let mut sdoc = ss.doc.as_ref().unwrap();
    if via_json {
        case.label("schema-via-introspection-json");
        let io = crate::introspect::IntrospectOpts { meta_types: case.ch.flip(), absent_optionals: case.ch.flip(), shuffle: case.ch.flip() };
        js = crate::introspect::introspect(&gs.schema, &io, Some(&mut case.ch));
        js_text = Some(js.clone());
        ischema = schema_via_introspection(&js, &detail0)?;
        iast = guard(|| nitrogql_semantics::type_system_to_ast(&ischema)).map_err(|p| panic_failure("type_system_to_ast", &p, detail0.clone()))?;
        sdoc = &iast;
    }
    let scfg = SchemaGenConfig { scalar_types: cfg.to_nitrogql_map(), allow_undefined_as_optional_input: allow_undefined, emit_schema_runtime: runtime };
    let mut schema_dts = match gen_schema_dts(sdoc, &scfg, None, &detail0)? {
        Ok(b) => b.buffer,
        Err(e) => return Err(Failure::new("schema-printer-error", e, detail0)),
    };
    let mut resolvers_dts = match gen_resolvers_dts(sdoc, "./schema", None, &detail0)? {
        Ok(b) => b.buffer,
        Err(e) => return Err(Failure::new("resolvers-printer-error", e, detail0)),
    };
    // one case in forty: the files are the ones the built CLI leaves in a directory in which `generate` already ran
    // with other options
    let mut model_fields: BTreeSet<(String, String)> = BTreeSet::new();
    if std::path::Path::new(crate::cli::CLI_BIN).exists() && case.ch.chance(1, 40) {
        case.label("declarations-from-cli-after-config-change");
        // half of the SDL ones enable the built-in model plugin and mark some fields of object types with `@model`
        // (the directive comes from the plugin): the resolvers declaration then asks for no resolver for them
        let with_model = !via_json && case.ch.flip();
        let files: Vec<(String, String)> = if via_json {
            vec![("schema.json".to_string(), js_text.clone().unwrap_or_default())]
        } else if with_model {
            case.label("model-plugin");
            let mut doc = sdl_doc.clone();
            for d in doc.iter_mut() {
                if let MTsDef::Type(t) = d {
                    if t.kind != Kind::Object || t.fields.len() < 2 {
                        continue;
                    }
                    // never all fields of a type
                    let n = t.fields.len();
                    let keep = case.ch.below(n);
                    for (i, f) in t.fields.iter_mut().enumerate() {
                        if i != keep && case.ch.chance(1, 3) {
                            let m = MDirective { name: "model".into(), args: vec![] };
                            // after the directives the field already has (`@deprecated(..) @model`), or before them
                            if case.ch.flip() {
                                f.directives.push(m);
                            } else {
                                f.directives.insert(0, m);
                            }
                            model_fields.insert((t.name.clone(), f.name.clone()));
                        }
                    }
                }
            }
            vec![("s0.graphqls".to_string(), canon_ts(&doc))]
        } else {
            schema_texts.iter().enumerate().map(|(i, t)| (format!("s{i}.graphqls"), t.clone())).collect()
        };
        let (a, _, c) = cli_generate_after_earlier_run(&files, "query CliQ { __typename }\n", &scfg, &other_schema_gen_config(&scfg), with_model, &detail0)?;
        schema_dts = a;
        resolvers_dts = c;
        if with_model {
            schema_sdl = files[0].1.clone();
        }
    }
    let detail = json!({"schema": schema_sdl, "schema_dts": schema_dts, "resolvers_dts": resolvers_dts, "allowUndefinedAsOptionalInput": allow_undefined,
        "scalars": cfg.map.iter().map(|(k, v)| (k.clone(), format!("{v:?}"))).collect::<BTreeMap<_, _>>()});
    let mut program = Program::new();
    program
        .add_module("Schema", &schema_dts)
        .map_err(|e| Failure::new("not-well-formed:schema", format!("schema declaration file is not well-formed TypeScript: {} at {}:{}", e.msg, e.line, e.col), detail.clone()))?;
    program
        .add_module("resolvers", &resolvers_dts)
        .map_err(|e| Failure::new("not-well-formed:resolvers", format!("resolvers declaration file is not well-formed TypeScript: {} at {}:{}", e.msg, e.line, e.col), detail.clone()))?;
    let r = RefT { s: &gs.schema, cfg: &cfg, optional_nullable_inputs: allow_undefined };
    let objects: Vec<String> = gs.schema.objects().iter().map(|o| o.name.clone()).collect();
    let mut names: Vec<String> = gs.schema.order.clone();
    names.extend(crate::schema::BUILTIN_SCALARS.iter().map(|s| s.to_string()));
    for name in &names {
        let kind = gs.schema.kind(name).unwrap();
        for t in Target::ALL {
            if applicable(kind, t) {
                check_alias(case, &program, &r, name, t, &detail, &objects)?;
            }
        }
    }
    check_resolvers(case, &program, &r, &model_fields, &detail)?;
    // input objects: "readonly fields" — every property is readonly and every list inside a field type is
    // a readonly array (an input value may well be a frozen / `as const` array, which TypeScript does not
    // accept where a mutable `T[]` is declared; membership of plain values cannot see this)
    {
        fn mutable_array(ty: &tsmini::Ty) -> bool {
            use tsmini::Ty::*;
            match ty {
                Array(_) => true,
                ReadonlyArray(t) | Paren(t) | Keyof(t) => mutable_array(t),
                Union(ts) | Inter(ts) => ts.iter().any(mutable_array),
                Obj(ps) => ps.iter().any(|p| mutable_array(&p.ty)),
                _ => false,
            }
        }
        let schema_scope = program.modules["Schema"].clone();
        for t in [Target::OperationInput, Target::ResolverInput] {
            let Some(ns) = schema_scope.namespaces.get(t.ns()) else { continue };
            for io in gs.schema.of_kind(Kind::Input) {
                // the declaration may be under a local (renamed) name: look the export up
                let local = ns.exports.get(&io.name).cloned().unwrap_or_else(|| io.name.clone());
                let Some(decl) = ns.types.get(&local) else { continue };
                if let tsmini::Ty::Obj(props) = &decl.ty {
                    case.evals(props.len() as u64);
                    for p in props {
                        if !p.readonly {
                            return Err(Failure::new("input-field-not-readonly", format!("{}.{}: field {} is not declared readonly", t.ns(), io.name, p.key), detail.clone()));
                        }
                        if mutable_array(&p.ty) {
                            return Err(Failure::new(
                                "input-list-not-readonly",
                                format!("{}.{}: the type of field {} contains a mutable array type (a readonly array value would be rejected)", t.ns(), io.name, p.key),
                                detail.clone(),
                            ));
                        }
                    }
                }
            }
        }
    }
    // runtime enum constants
    if runtime {
        let stmts = tsmini::parse_module(&schema_dts).unwrap();
        for e in gs.schema.of_kind(Kind::Enum) {
            let found = stmts.iter().any(|s| matches!(s, Stmt::Const(c) if c.name == e.name && c.exported && c.as_const));
            if !found {
                return Err(Failure::new("enum-runtime-missing", format!("emitSchemaRuntime: no `export const {}`", e.name), detail.clone()));
            }
        }
    }
    let bag = bag_of_identifiers(&cfg, &gs.schema);
    let renamed = gs.schema.order.iter().any(|n| bag.contains(n));
    let through = gs.labels.contains(&"interface-implements-interface");
    let separate = cfg.map.values().any(|c| matches!(c, ScalarTs::Separate { .. }));
    let hostile = schema_sdl.contains("\\\"") || schema_sdl.contains('`') || schema_sdl.contains("${") || schema_sdl.contains("\\n");
    if renamed {
        case.label("renamed-clashing-type");
    }
    if through {
        case.label("interface-through-interface");
    }
    if separate {
        case.label("separate-scalar-targets");
    }
    if hostile {
        case.label("hostile-description");
    }
    if (renamed || through || separate) && hostile {
        case.nontrivial(&schema_sdl);
    }
    case.sample(|| json!({"schema": schema_sdl, "scalars": detail["scalars"], "allowUndefinedAsOptionalInput": allow_undefined}));
    Ok(())
}

pub fn run(env: &Env) -> i32 {
    let mut rep = Report::new(
        env,
        "exploration",
        "valid schemas (every kind, interface hierarchies, unions, 3-deep lists, type names clashing with identifiers in scalar mappings, hostile descriptions and deprecation reasons) x scalar configurations (Single / SendReceive / Separate / @nitrogql_ts_type directive over a pool of TypeScript type expressions) x allowUndefinedAsOptionalInput x emitSchemaRuntime. Oracles: both declaration files parse under tsmini's strict grammar; for every applicable (type, target) the exported alias has the same members as the reference denotation, by inhabitants of the emitted alias, generated reference inhabitants and near-misses; Resolvers<Context> has exactly one entry per composite type, object entries one __Resolver per field with Args/Result mirroring the field, abstract entries a __TypeResolver over exactly the possible types. Non-trivial: (renamed type | interface through interface | separate-target scalar) and a hostile description.",
    );
    rep.assume("nothing is asserted about (type, target) pairs the type system gives no meaning to (an object in an input namespace)");
    rep.assume("TypeScript scoping as modelled by tsmini: `export type { a as b }` declares no local `b`; unresolved identifiers denote globals");

    let probe = |schema: &'static str, scalars: Vec<(&'static str, &'static str)>| {
        move || -> CaseResult {
            let detail = json!({"schema": schema});
            let f = vec![(PathBuf::from("/p/schema.graphql"), schema.to_string())];
            let ss = schema_stage(&f, &detail)?;
            let sdoc = ss.doc.as_ref().ok_or_else(|| Failure::new("probe-schema", "rejected", detail.clone()))?;
            let mut scfg = SchemaGenConfig::default();
            for (k, v) in &scalars {
                scfg.scalar_types.insert(k.to_string(), nitrogql_config_file::ScalarTypeConfig::Single(v.to_string()));
            }
            let dts = gen_schema_dts(sdoc, &scfg, None, &detail)?.map_err(|e| Failure::new("printer", e, detail.clone()))?.buffer;
            let mut program = Program::new();
            program.add_module("Schema", &dts).map_err(|e| Failure::new("not-well-formed:schema", e.msg, json!({"dts": dts})))?;
            // every interface/union alias must admit its members' objects
            let model = crate::refparse::parse_ts_doc(schema).unwrap();
            let s = Schema::from_doc(&model);
            let mut cfg = ScalarCfg::builtin();
            for (k, v) in &scalars {
                cfg.map.insert(k.to_string(), ScalarTs::Single(v.to_string()));
            }
            let r = RefT { s: &s, cfg: &cfg, optional_nullable_inputs: true };
            let mut ch = Choices::new(vec![]);
            for n in s.order.iter().filter(|n| matches!(s.kind(n), Some(Kind::Interface | Kind::Union))) {
                let sem = program.alias("Schema", &["__OperationOutput", n]).map_err(|e| unsup(e, &detail))?;
                if let Some(v) = r.gen_named(&mut ch, n, Target::OperationOutput, 0) {
                    if !tsmini::member(&v, &sem, 0).map_err(|e| unsup(e, &detail))? {
                        return Err(Failure::new("alias-rejects-valid-value", format!("{n} rejects {:?}", v.to_json()), json!({"dts": dts})));
                    }
                }
            }
            Ok(())
        }
    };
    rep.probe("C10-description-comment-close", probe("\"a */ b\"\ntype Query { a: Int }", vec![]));
    rep.probe(
        "C10-renamed-type-in-abstract",
        probe("scalar DateTime\ntype Date { a: Int }\nunion U = Date\ntype Query { u: U d: DateTime }", vec![("DateTime", "Date")]),
    );
    rep.campaign("schemas", env.cases(1_500, 30_000), (300, 1400), case_fn);
    rep.finish()
}
