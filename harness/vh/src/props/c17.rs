//! C17 — generation is deterministic and independent of incidental ordering.

use crate::cli::*;
use crate::inproc::generate_in_process;
use crate::model::*;
use crate::projects::*;
use crate::props::c01::capitalize;
use crate::props::c03;
use crate::props::c06::expected_outputs;
use crate::props::c11::render_ts_file;
use crate::refexec::Target;
use crate::render::*;
use crate::runner::*;
use crate::smap;
use crate::tsmini::{self, Program};
use serde_json::{json, Value};
use std::collections::BTreeMap;
use std::path::{Path, PathBuf};

fn outputs_snapshot(proj: &Project, inputs: &[String]) -> BTreeMap<String, String> {
    let mut out = BTreeMap::new();
    fn walk(base: &Path, dir: &Path, out: &mut BTreeMap<String, String>) {
        let Ok(rd) = std::fs::read_dir(dir) else { return };
        for e in rd.flatten() {
            let p = e.path();
            if p.is_dir() {
                walk(base, &p, out);
            } else if let Ok(t) = std::fs::read_to_string(&p) {
                out.insert(p.strip_prefix(base).unwrap().to_string_lossy().to_string(), t);
            }
        }
    }
    walk(&proj.dir, &proj.dir, &mut out);
    for i in inputs {
        out.remove(i);
    }
    out
}

fn two_sided(a: &std::rc::Rc<tsmini::Sem>, b: &std::rc::Rc<tsmini::Sem>) -> Result<Option<Value>, tsmini::Unsupported> {
    for (x, y) in [(a, b), (b, a)] {
        let mut budget = 30;
        for v in tsmini::inhabitants(x, &mut budget, 0)? {
            if !tsmini::member(&v, y, 0)? {
                return Ok(Some(v.to_json()));
            }
        }
    }
    Ok(None)
}

fn load_program(proj: &Project, gp: &GenProject, detail: &Value) -> Result<Program, Failure> {
    let root = &gp.layout.root;
    let mut prog = Program::new();
    let schema_rel = norm(&format!("{root}/{}", gp.layout.schema_output));
    let text = proj.read(&schema_rel).ok_or_else(|| Failure::new("output-missing", schema_rel.clone(), detail.clone()))?;
    prog.add_module("Schema", &text).map_err(|e| Failure::new("not-well-formed:schema", format!("{} at {}:{}", e.msg, e.line, e.col), detail.clone()))?;
    for out in expected_outputs(gp) {
        if out.contains("main.") && out.contains("graphql") {
            let t = proj.read(&out).ok_or_else(|| Failure::new("output-missing", out.clone(), detail.clone()))?;
            prog.add_module("ops", &t).map_err(|e| Failure::new("not-well-formed:operations", format!("{} at {}:{}", e.msg, e.line, e.col), detail.clone()))?;
        }
    }
    Ok(prog)
}

fn case_fn(case: &mut Case, base: &Path, k_runs: usize) -> CaseResult {
    let mut po = ProjectOpts::default();
    po.max_schema_files = 3;
    let mut gp = gen_project(case, &po);
    let faulty = case.ch.chance(1, 4);
    let fault_kind = if faulty { case.ch.below(4) } else { 0 };
    if faulty && fault_kind == 2 {
        // several diagnostics at one position (a field selected without its four required arguments): their
        // order must be the same in every run
        case.label("faulty:several-diagnostics-at-one-position");
        if let Some(root) = gp.gs.schema.root(OpType::Query) {
            let last = gp.schema_files.len() - 1;
            gp.schema_files[last].1.push_str(&format!("\nextend type {root} {{ seedMulti(a: Int!, b: Int!, c: Int!, d: Int!, e: Int!, f: Int!): Int }}\n"));
            let dir = crate::projects::dir_of(&gp.op_files[0].0);
            gp.op_files.push((format!("{dir}/seed_multi.graphql"), "query SeedMulti { seedMulti again: seedMulti }\n".to_string()));
        }
    } else if faulty && fault_kind == 3 {
        // several extensions without a definition, spread over the schema files: which one is reported must not vary
        case.label("faulty:several-orphan-extensions");
        let n = gp.schema_files.len();
        for k in 0..6 {
            gp.schema_files[k % n].1.push_str(&format!("\nextend type Orphan{k} {{ x: Int }}\n"));
        }
    } else if faulty {
        // faults in the main operation file: diagnostics must be reproducible too
        let mut doc = gp.op_file_models[0].clone();
        let mut n = 0;
        for _ in 0..3 {
            if c03::inject(&mut case.ch, &mut doc, &gp.gs.schema).is_some() {
                n += 1;
            }
        }
        if n > 0 {
            gp.op_file_models[0] = doc.clone();
            gp.op_files[0].1 = canon_op(&doc);
        }
    }
    let proj = write_project(&gp, base);
    let inputs: Vec<String> = gp.schema_files.iter().chain(gp.op_files.iter()).map(|(p, _)| norm(p)).chain(std::iter::once(norm(&format!("{}/graphql.config.yaml", gp.layout.root)))).collect();
    let detail = json!({"config": gp.config, "files": gp.schema_files.iter().chain(gp.op_files.iter()).map(|(p, t)| json!({"path": p, "text": t})).collect::<Vec<_>>()});
    let cwd = proj.path(&gp.layout.root);
    let res = (|| -> CaseResult {
        // (1) k fresh processes
        let mut first: Option<(Option<i32>, String, BTreeMap<String, String>)> = None;
        for r in 0..k_runs {
            let run = run_cli(&cwd, &["generate", "--output-format", "json"]);
            if run.crashed() {
                if faulty {
                    // a crash on a faulty project belongs to C03/C08
                    case.label("faulty-project-crashes-generate");
                    return Ok(());
                }
                return Err(Failure::new("cli-crashed", run.stderr.lines().find(|l| l.contains("panicked")).unwrap_or("crash").to_string(), json!({"detail": detail, "stderr": run.stderr})));
            }
            let snap = outputs_snapshot(&proj, &inputs);
            case.evals(1);
            match &first {
                None => first = Some((run.status, run.stdout.clone(), snap)),
                Some((st, out, files)) => {
                    if *st != run.status || *out != run.stdout {
                        return Err(Failure::new(
                            "nondeterministic-stdout",
                            format!("run {r} printed different status/diagnostics than run 0"),
                            json!({"detail": detail, "run0": out, "run": run.stdout}),
                        ));
                    }
                    if *files != snap {
                        let diff: Vec<&String> = files.keys().filter(|k| files.get(*k) != snap.get(*k)).collect();
                        return Err(Failure::new(
                            "nondeterministic-output-files",
                            format!("run {r} wrote different bytes than run 0 for {diff:?}"),
                            json!({"detail": detail, "file": diff.first().map(|k| json!({"run0": files.get(*k), "run": snap.get(*k)}))}),
                        ));
                    }
                }
            }
        }
        let (status, stdout, files) = first.unwrap();
        if status != Some(0) {
            if faulty {
                case.label("faulty-project");
                return Ok(());
            }
            return Err(Failure::new("precondition:generate-failed", stdout, detail.clone()));
        }
        // (2) in-process replica, files in the order the CLI loaded them
        let root_abs = PathBuf::from(norm(&cwd.to_string_lossy()));
        let schema_out_rel = norm(&format!("{}/{}", gp.layout.root, gp.layout.schema_output));
        let map_text = files.get(&format!("{schema_out_rel}.map")).cloned().unwrap_or_default();
        let map = smap::parse(&map_text).map_err(|e| Failure::new("schema-map-unreadable", e, detail.clone()))?;
        let map_dir = dir_of(&proj.path(&schema_out_rel).to_string_lossy());
        let abs_of = |rel: &str| norm(&proj.path(rel).to_string_lossy());
        let mut schema_files: Vec<(PathBuf, String)> = vec![];
        for s in &map.sources {
            let abs = norm(&format!("{map_dir}/{s}"));
            if let Some((_, t)) = gp.schema_files.iter().find(|(p, _)| abs_of(p) == abs) {
                schema_files.push((PathBuf::from(abs), t.clone()));
            }
        }
        if schema_files.len() != gp.schema_files.len() {
            // a schema file without any mapped position: fall back to name order
            schema_files = gp.schema_files.iter().map(|(p, t)| (PathBuf::from(abs_of(p)), t.clone())).collect();
            schema_files.sort();
        }
        let v: Value = serde_json::from_str(stdout.trim()).map_err(|e| Failure::new("stdout-not-json", e.to_string(), detail.clone()))?;
        let mut op_files: Vec<(PathBuf, String)> = vec![];
        for f in v["generate"]["files"].as_array().cloned().unwrap_or_default() {
            if f["fileType"] == "operationTypeDefinition" {
                let p = norm(f["path"].as_str().unwrap_or(""));
                // decl path -> source path
                for (rel, t) in &gp.op_files {
                    let src = abs_of(rel);
                    let stem = src.strip_suffix(".graphql").unwrap();
                    if p.starts_with(&format!("{stem}.")) {
                        op_files.push((PathBuf::from(src), t.clone()));
                    }
                }
            }
        }
        if op_files.len() != gp.op_files.len() {
            return Err(Failure::new("generate-files-list", format!("generate lists {} operation outputs for {} operation files", op_files.len(), gp.op_files.len()), json!({"detail": detail, "stdout": stdout})));
        }
        let inproc = generate_in_process(&root_abs, &gp.config, &schema_files, &op_files, &detail)?;
        for (p, text) in &inproc {
            let abs = norm(&p.to_string_lossy());
            let rel = abs.strip_prefix(&format!("{}/", norm(&proj.dir.to_string_lossy()))).unwrap_or(&abs).to_string();
            case.evals(1);
            match files.get(&rel) {
                None => return Err(Failure::new("inproc-file-not-written-by-cli", format!("the library route produces {rel} but the CLI did not write it"), json!({"detail": detail, "cli_files": files.keys().collect::<Vec<_>>()}))),
                Some(t) if t != text => {
                    return Err(Failure::new(
                        "library-bytes-differ-from-cli",
                        format!("{rel}: the library entry points called in-process produce different bytes than the CLI"),
                        json!({"detail": detail, "cli": t, "in_process": text}),
                    ));
                }
                _ => {}
            }
        }
        if inproc.len() != files.len() {
            let extra: Vec<&String> = files.keys().filter(|k| !inproc.keys().any(|p| norm(&p.to_string_lossy()).ends_with(k.as_str()))).collect();
            return Err(Failure::new("cli-writes-extra-files", format!("CLI wrote files the library route does not produce: {extra:?}"), detail.clone()));
        }
        // (3) permutation of definitions within/across schema files
        let concat: Vec<MTsDef> = gp.schema_file_models.iter().flatten().cloned().collect();
        let mut perm = concat.clone();
        case.ch.shuffle(&mut perm);
        // keep the relative order of same-name extensions and of directive definitions
        let mut ext_q: BTreeMap<String, Vec<MTsDef>> = BTreeMap::new();
        let mut dir_q: Vec<MTsDef> = vec![];
        for d in &concat {
            match d {
                MTsDef::TypeExt(t) => ext_q.entry(format!("{:?}{}", t.kind, t.name)).or_default().push(d.clone()),
                MTsDef::SchemaExt(_) => ext_q.entry("schema".into()).or_default().push(d.clone()),
                MTsDef::Directive(_) => dir_q.push(d.clone()),
                _ => {}
            }
        }
        for q in ext_q.values_mut() {
            q.reverse();
        }
        dir_q.reverse();
        for d in perm.iter_mut() {
            match d {
                MTsDef::TypeExt(t) => {
                    let k = format!("{:?}{}", t.kind, t.name);
                    *d = ext_q.get_mut(&k).unwrap().pop().unwrap();
                }
                MTsDef::SchemaExt(_) => *d = ext_q.get_mut("schema").unwrap().pop().unwrap(),
                MTsDef::Directive(_) => *d = dir_q.pop().unwrap(),
                _ => {}
            }
        }
        let nfiles = case.ch.range(1, 3);
        let mut pfiles: Vec<Vec<MTsDef>> = vec![vec![]; nfiles];
        for d in perm {
            let i = case.ch.below(nfiles);
            pfiles[i].push(d);
        }
        pfiles.retain(|f| !f.is_empty());
        let mut gp2 = gp.clone();
        let sdir = dir_of(&gp.schema_files[0].0);
        gp2.schema_files = pfiles.iter().enumerate().map(|(i, f)| (format!("{sdir}/t{i}.graphqls"), render_ts_file(f, RenderOpts::canonical(), None).text)).collect();
        let proj2 = write_project(&gp2, base);
        let detail2 = json!({"original": detail, "permuted_schema_files": gp2.schema_files.iter().map(|(p, t)| json!({"path": p, "text": t})).collect::<Vec<_>>()});
        let r2 = (|| -> CaseResult {
            let run2 = run_cli(&proj2.path(&gp2.layout.root), &["generate", "--output-format", "json"]);
            if run2.crashed() || run2.status != Some(0) {
                return Err(Failure::new(
                    "verdict-changes-under-permutation",
                    format!("after permuting schema definitions/files generate exits {:?}: {}", run2.status, run2.stdout),
                    json!({"detail": detail2, "stderr": run2.stderr}),
                ));
            }
            let p1 = load_program(&proj, &gp, &detail2)?;
            let p2 = load_program(&proj2, &gp2, &detail2)?;
            let unsup = |e: tsmini::Unsupported| Failure::new("harness:unsupported-ts", e.0, detail2.clone());
            let s = &gp.gs.schema;
            for n in &s.order {
                let k = s.kind(n).unwrap();
                for t in Target::ALL {
                    let applicable = match k {
                        Kind::Scalar | Kind::Enum => true,
                        Kind::Input => t.is_input(),
                        _ => !t.is_input(),
                    };
                    if !applicable {
                        continue;
                    }
                    let a = p1.alias("Schema", &[t.ns(), n]).map_err(unsup)?;
                    let b = p2.alias("Schema", &[t.ns(), n]).map_err(unsup)?;
                    case.evals(1);
                    if let Some(v) = two_sided(&a, &b).map_err(unsup)? {
                        return Err(Failure::new(
                            format!("denotation-changes-under-permutation:{k:?}"),
                            format!("{}.{n} denotes a different type after permuting schema definitions/files", t.ns()),
                            json!({"detail": detail2, "value": v}),
                        ));
                    }
                }
            }
            for d in &gp.op_file_models[0] {
                let names: Vec<String> = match d {
                    MExecDef::Op(o) => {
                        let c = capitalize(o.name.as_deref().unwrap_or(""));
                        vec![format!("{c}Result"), format!("{c}Variables")]
                    }
                    MExecDef::Frag(f) => vec![f.name.clone()],
                    _ => vec![],
                };
                for n in names {
                    let (Ok(a), Ok(b)) = (p1.alias("ops", &[&n]), p2.alias("ops", &[&n])) else { continue };
                    case.evals(1);
                    if let Some(v) = two_sided(&a, &b).map_err(unsup)? {
                        return Err(Failure::new("denotation-changes-under-permutation:operation", format!("{n} changes under permutation"), json!({"detail": detail2, "value": v})));
                    }
                }
            }
            Ok(())
        })();
        proj2.remove();
        r2
    })();
    proj.remove();
    res?;
    let multi_ident = gp.cfg.map.values().filter(|c| c.all_types().iter().any(|t| t.contains('<') || t.contains('|'))).count();
    let max_impl = gp.gs.schema.of_kind(Kind::Interface).iter().map(|i| gp.gs.schema.possible(&i.name).len()).max().unwrap_or(0);
    if gp.schema_files.len() >= 2 {
        case.label("multi-schema-file");
    }
    if faulty {
        case.label("faulty");
    }
    if gp.schema_files.len() >= 2 && (multi_ident >= 1 || max_impl >= 2) {
        case.nontrivial(&(&gp.config, &gp.schema_files, &gp.op_files));
    }
    case.sample(|| json!({"config": gp.config, "schema_files": gp.schema_files.len(), "operation_files": gp.op_files.len()}));
    Ok(())
}

/// In-process: the schema verdict must not depend on the order of definitions or on the file that
/// holds them (valid schemas and schemas with one injected type-system fault).
/// A configuration that differs from `cfg` in options that shape every kind of output (scalar mappings, optional
/// inputs, operation naming, exports): what an earlier run in the same directory may have been given.
fn other_config(ch: &mut crate::choices::Choices, cfg: &str) -> String {
    let mut c = cfg.to_string();
    if ch.flip() {
        c = c.replace(": \"string\"", ": \"bigint\"").replace(": \"number\"", ": \"string\"");
    }
    if ch.flip() {
        if c.contains("      type:\n") {
            c = c.replacen("      type:\n", "      type:\n        allowUndefinedAsOptionalInput: false\n", 1);
        } else {
            c.push_str("      type:\n        allowUndefinedAsOptionalInput: false\n");
        }
    }
    if ch.flip() {
        c.push_str("      name:\n        capitalizeOperationNames: false\n        queryVariableSuffix: Doc\n        fragmentVariableSuffix: Frag\n        operationResultTypeSuffix: Data\n");
    }
    if ch.flip() {
        c.push_str("      export:\n        defaultExportForOperation: false\n        operationResultType: true\n        variablesType: true\n");
    }
    if ch.flip() {
        c.push_str("      emitSchemaRuntime: true\n");
    }
    c
}

/// What a run leaves behind must not depend on what an earlier run in the same directory was given: `generate` with
/// other options and/or another text in one operation file, then the project as it is, must give the files a
/// fresh directory gets.
fn history_case(case: &mut Case, base: &Path) -> CaseResult {
    let mut po = ProjectOpts::default();
    po.max_schema_files = 2;
    let mut hch = crate::choices::Choices::new((0..24).map(|_| case.ch.raw()).collect());
    let gp = gen_project(case, &po);
    let inputs: Vec<String> = gp.schema_files.iter().chain(gp.op_files.iter()).map(|(p, _)| norm(p)).chain(std::iter::once(norm(&format!("{}/graphql.config.yaml", gp.layout.root)))).collect();
    // the earlier state
    let mut earlier = gp.clone();
    let change_config = hch.chance(2, 3);
    if change_config {
        earlier.config = other_config(&mut hch, &gp.config);
        case.label("earlier-run-with-other-options");
    }
    let change_op = !change_config || hch.flip();
    if change_op {
        let i = hch.below(earlier.op_files.len());
        earlier.op_files[i].1 = "query EarlierText { __typename }\n".to_string();
        case.label("earlier-run-with-other-operation-text");
    }
    // a third of the histories: the earlier revision of the inputs denotes the same documents at other positions (a
    // comment line and a blank line more at the top of an operation file and of a schema file): the declarations
    // come out the same, their source maps do not
    if hch.chance(1, 3) {
        let i = hch.below(earlier.op_files.len());
        if !earlier.op_files[i].1.starts_with("query EarlierText") {
            earlier.op_files[i].1 = format!("# the earlier revision had a comment here\n\n{}", earlier.op_files[i].1);
        }
        let j = hch.below(earlier.schema_files.len());
        earlier.schema_files[j].1 = format!("# the earlier revision had a comment here\n\n{}", earlier.schema_files[j].1);
        case.label("earlier-run-with-shifted-positions");
    }
    if earlier.config == gp.config && !change_op {
        case.label("earlier-state-equal");
    }
    let detail = json!({"config": gp.config, "earlier_config": earlier.config,
        "files": gp.schema_files.iter().chain(gp.op_files.iter()).map(|(p, t)| json!({"path": p, "text": t})).collect::<Vec<_>>(),
        "earlier_operation_files": earlier.op_files.iter().map(|(p, t)| json!({"path": p, "text": t})).collect::<Vec<_>>()});
    let fresh_base = base.join("fresh");
    let used_base = base.join("used");
    let fresh = write_project(&gp, &fresh_base);
    let used = write_project(&earlier, &used_base);
    let res = (|| -> CaseResult {
        let r0 = run_cli(&used.path(&gp.layout.root), &["generate", "--output-format", "json"]);
        if r0.crashed() {
            return Err(Failure::new("cli-crashed", r0.stderr.lines().find(|l| l.contains("panicked")).unwrap_or("crash").to_string(), json!({"detail": detail, "stderr": r0.stderr})));
        }
        // (an earlier run that fails is a legitimate history too: it writes nothing)
        if r0.status == Some(0) {
            case.label("earlier-run-succeeded");
        }
        // now the project as it is
        used.write(&norm(&format!("{}/graphql.config.yaml", gp.layout.root)), &gp.config);
        for (p, t) in gp.op_files.iter().chain(gp.schema_files.iter()) {
            used.write(p, t);
        }
        let r1 = run_cli(&used.path(&gp.layout.root), &["generate", "--output-format", "json"]);
        let rf = run_cli(&fresh.path(&gp.layout.root), &["generate", "--output-format", "json"]);
        case.evals(2);
        if r1.crashed() || rf.crashed() {
            return Err(Failure::new("cli-crashed", "generate crashed".to_string(), json!({"detail": detail, "stderr": [r1.stderr, rf.stderr]})));
        }
        if r1.status != rf.status {
            return Err(Failure::new("history-dependent-status", format!("generate exits {:?} after an earlier run and {:?} in a fresh directory", r1.status, rf.status), json!({"detail": detail, "stdout": [r1.stdout, rf.stdout]})));
        }
        if rf.status != Some(0) {
            return Err(Failure::new("precondition:generate-failed", format!("generate fails on a valid project: {}", rf.stdout.chars().take(300).collect::<String>()), detail.clone()));
        }
        let a = outputs_snapshot(&used, &inputs);
        let b = outputs_snapshot(&fresh, &inputs);
        // every file of the fresh run must be there with the same bytes; files only the earlier state produces
        // (outputs named after the earlier options) may remain
        for (k, v) in &b {
            match a.get(k) {
                None => return Err(Failure::new("history-dependent-files", format!("{k} is written in a fresh directory but missing after an earlier run"), detail.clone())),
                Some(x) if x != v => {
                    return Err(Failure::new(
                        "history-dependent-output",
                        format!("{k} differs from what a fresh directory gets (left over from the earlier run?)"),
                        json!({"detail": detail, "file": k, "after_earlier_run": x, "fresh": v}),
                    ))
                }
                _ => {}
            }
        }
        if r0.status == Some(0) && (change_config || change_op) {
            case.nontrivial(&(&gp.config, &earlier.config, &gp.op_files));
        }
        case.sample(|| json!({"earlier_config_differs": earlier.config != gp.config, "earlier_operation_text_differs": change_op, "files_compared": b.len()}));
        Ok(())
    })();
    fresh.remove();
    used.remove();
    res
}

fn schema_verdict_case(case: &mut Case) -> CaseResult {
    use crate::gen_schema::{gen_schema, split_into_extensions, SchemaGenOpts};
    use crate::model::MTsDef;
    use crate::pipeline::schema_stage;
    use crate::props::c11::render_ts_file;
    use crate::render::RenderOpts;
    let gs = gen_schema(&mut case.ch, &SchemaGenOpts::default());
    let mut doc = gs.doc.clone();
    let fault = if case.ch.chance(3, 4) { crate::props::c05::inject(&mut case.ch, &mut doc) } else { None };
    let items: Vec<MTsDef> = split_into_extensions(&mut case.ch, &doc).into_iter().flatten().collect();
    let name_of = |d: &MTsDef| -> Option<(u8, String)> {
        match d {
            MTsDef::TypeExt(t) => Some((t.kind as u8, t.name.clone())),
            MTsDef::SchemaExt(_) => Some((99, String::new())),
            _ => None,
        }
    };
    let render = |ch: &mut crate::choices::Choices, order: &[MTsDef]| -> Vec<(std::path::PathBuf, String)> {
        // distribute over 1-3 files, keeping the order
        let n = 1 + ch.below(3);
        let mut files: Vec<Vec<MTsDef>> = vec![vec![]; n];
        let mut cur = 0;
        for d in order {
            if ch.chance(1, 4) {
                cur = (cur + 1).min(n - 1);
            }
            files[cur].push(d.clone());
        }
        files
            .iter()
            .filter(|f| !f.is_empty())
            .enumerate()
            .map(|(i, f)| (std::path::PathBuf::from(format!("/p/s{i}.graphql")), render_ts_file(f, RenderOpts::canonical(), None).text))
            .collect()
    };
    let verdict = |files: &[(std::path::PathBuf, String)], detail: &Value| -> Result<(bool, Vec<String>), Failure> {
        let ss = schema_stage(files, detail)?;
        let d = ss.all_diags();
        Ok((d.is_empty(), d.iter().map(|x| x.kind.clone()).collect()))
    };
    let f0 = render(&mut case.ch, &items);
    let d0 = json!({"files": f0.iter().map(|x| x.1.clone()).collect::<Vec<_>>()});
    let (ok0, kinds0) = verdict(&f0, &d0)?;
    for _ in 0..3 {
        // permutation that keeps the relative order of the extensions of one name
        let perm = case.ch.permutation(items.len());
        let mut order: Vec<MTsDef> = perm.iter().map(|&i| items[i].clone()).collect();
        // restore extension order per (kind, name)
        let mut groups: BTreeMap<(u8, String), Vec<usize>> = BTreeMap::new();
        for (pos, d) in order.iter().enumerate() {
            if let Some(k) = name_of(d) {
                groups.entry(k).or_default().push(pos);
            }
        }
        for (k, positions) in groups {
            let originals: Vec<MTsDef> = items.iter().filter(|d| name_of(d).as_ref() == Some(&k)).cloned().collect();
            for (pos, d) in positions.into_iter().zip(originals) {
                order[pos] = d;
            }
        }
        let f1 = render(&mut case.ch, &order);
        let d1 = json!({"files": f1.iter().map(|x| x.1.clone()).collect::<Vec<_>>()});
        let (ok1, kinds1) = verdict(&f1, &d1)?;
        case.evals(1);
        if ok0 != ok1 {
            return Err(Failure::new(
                "schema-verdict-depends-on-order",
                format!("the same definitions are {} in one order and {} in another (diagnostics {:?} vs {:?})", if ok0 { "accepted" } else { "rejected" }, if ok1 { "accepted" } else { "rejected" }, kinds0, kinds1),
                json!({"order_a": d0["files"], "order_b": d1["files"], "injected_fault": fault.as_ref().map(|f| format!("{}@{}", f.label, f.cell))}),
            ));
        }
    }
    if let Some(f) = &fault {
        case.label(&format!("fault:{}", f.label));
        case.nontrivial(&(f.label, f.cell.clone(), items.len()));
    } else {
        case.label("valid");
    }
    case.sample(|| json!({"files": d0["files"], "fault": fault.as_ref().map(|f| f.label)}));
    Ok(())
}

/// In-process: resolving the imports of the same root three times gives the same definitions in the same
/// order (every std HashMap instance is seeded differently even within one process, so hash-order
/// dependence shows without starting fresh processes).
fn import_order_case(case: &mut Case) -> CaseResult {
    use crate::props::c13;
    let (specs, paths) = c13::random_specs(case);
    let mut multi_cycle = 0;
    for root in 0..specs.len() {
        let a = c13::resolved_order(&specs, &paths, root)?;
        for _ in 0..2 {
            let b = c13::resolved_order(&specs, &paths, root)?;
            case.evals(1);
            if a != b {
                return Err(Failure::new(
                    "import-order-nondeterministic",
                    format!("resolving the imports of file {root} twice gives different results: {a:?} vs {b:?}"),
                    json!({"files": c13::files_json(&specs, &paths), "root": root}),
                ));
            }
        }
        if a.as_ref().map(|v| v.len() >= 3).unwrap_or(false) {
            multi_cycle += 1;
        }
    }
    if multi_cycle > 0 {
        case.nontrivial(&specs);
    }
    case.sample(|| json!({"files": c13::files_json(&specs, &paths)}));
    Ok(())
}


/// built CLI, schema given as an introspection result (`schema.json`): the types listed in any order, with or
/// without the meta types, and - in half of the cases - with one or two entries listed twice (the same
/// text: some gateways merge sub-schemas that way); `generate` in k fresh processes must print and write the
/// same bytes whatever it makes of the input.
fn introspection_case(case: &mut Case, base: &Path, k_runs: usize) -> CaseResult {
    use crate::introspect::{introspect, IntrospectOpts};
    let so = crate::gen_schema::SchemaGenOpts::default();
    let gs = crate::gen_schema::gen_schema(&mut case.ch, &so);
    let s = &gs.schema;
    let (gd, _) = crate::gen_ops::gen_doc(&mut case.ch, s, &crate::gen_ops::DocGenOpts::default());
    let cfg = crate::refexec::ScalarCfg::generate(&mut case.ch, s, false);
    let sy = crate::props::c15::scalars_yaml(&cfg, s);
    let mode = *case.ch.pick(&crate::projects::MODES);
    let io = IntrospectOpts { meta_types: case.ch.flip(), absent_optionals: case.ch.flip(), shuffle: case.ch.flip() };
    let mut js = introspect(s, &io, Some(&mut case.ch));
    let dup = case.ch.flip();
    if dup {
        if let Ok(mut v) = serde_json::from_str::<serde_json::Value>(&js) {
            let types = v.pointer_mut("/data/__schema/types").or(None);
            let types = match types {
                Some(t) => Some(t),
                None => None,
            };
            let mut done = false;
            if let Some(serde_json::Value::Array(ts)) = types {
                let n = 1 + case.ch.below(2);
                for _ in 0..n {
                    if ts.is_empty() {
                        break;
                    }
                    let i = case.ch.below(ts.len());
                    let copy = ts[i].clone();
                    let at = case.ch.below(ts.len() + 1);
                    ts.insert(at, copy);
                    done = true;
                }
            }
            if !done {
                if let Some(serde_json::Value::Array(ts)) = v.pointer_mut("/__schema/types") {
                    if !ts.is_empty() {
                        let i = case.ch.below(ts.len());
                        let copy = ts[i].clone();
                        let at = case.ch.below(ts.len() + 1);
                        ts.insert(at, copy);
                        done = true;
                    }
                }
            }
            if done {
                js = serde_json::to_string_pretty(&v).unwrap();
                case.label("type-listed-twice");
            }
        }
    }
    let ops = vec![("main.graphql".to_string(), canon_op(&gd.doc))];
    let detail = json!({"introspection": js, "operations": ops[0].1, "mode": mode});
    let p = crate::props::c15::write_variant(base, "schema.json", &js, &sy, mode, &ops);
    let inputs: Vec<String> = vec!["graphql.config.yaml".to_string(), "schema.json".to_string(), "ops/main.graphql".to_string()];
    let res = (|| -> CaseResult {
        let mut first: Option<(Option<i32>, String, BTreeMap<String, String>)> = None;
        for r in 0..k_runs {
            let run = run_cli(&p.dir, &["generate", "--output-format", "json"]);
            if run.crashed() {
                case.label("introspection-project-crashes-generate");
                return Ok(());
            }
            let mut snap: BTreeMap<String, String> = BTreeMap::new();
            for (name, _) in p.snapshot() {
                if !inputs.contains(&name) {
                    snap.insert(name.clone(), p.read(&name).unwrap_or_default());
                }
            }
            case.evals(1);
            match &first {
                None => first = Some((run.status, run.stdout.clone(), snap)),
                Some((st, out, files)) => {
                    if *st != run.status || *out != run.stdout {
                        return Err(Failure::new("nondeterministic-stdout", format!("run {r} printed different status/diagnostics than run 0"), json!({"detail": detail, "run0": out, "run": run.stdout})));
                    }
                    if *files != snap {
                        let diff: Vec<&String> = files.keys().filter(|k| files.get(*k) != snap.get(*k)).collect();
                        return Err(Failure::new("nondeterministic-files", format!("run {r} wrote other bytes than run 0 in {diff:?}"), json!({"detail": detail, "files": diff})));
                    }
                }
            }
        }
        if let Some((st, _, files)) = &first {
            if *st == Some(0) && !files.is_empty() {
                case.nontrivial(&(&js, &ops[0].1, mode));
            }
        }
        case.sample(|| json!({"types_listed_twice": dup, "mode": mode}));
        Ok(())
    })();
    p.remove();
    res
}

pub fn run(env: &Env) -> i32 {
    let mut rep = Report::new(
        env,
        "exploration",
        "generated projects (1-3 schema files with extensions, operation files with imports, custom scalars with multi-identifier TypeScript mappings, all generate modes and output layouts; 25% with up to three injected operation faults): (1) k fresh CLI processes (k=3 quick, 6 thorough; each process has new hash seeds) must give identical exit status, identical stdout and byte-identical files; (2) an in-process replica of generate built from the library entry points, fed the files in the order the CLI loaded them, must produce the same bytes for every declaration file, source map and server schema; (3) after permuting definitions within/across schema files (extension order per name kept) the verdict is unchanged and every exported schema/operation alias has the same members (two-sided inhabitant sampling). Non-trivial: >= 2 schema files and (a multi-identifier scalar mapping or an interface with >= 2 implementers).",
    );
    rep.assume("hash seeds cannot be set from outside: independence from them is sampled over fresh processes");
    rep.assume("order of declarations is free under permutation; only denotations and the verdict are compared");
    rep.shrink_iters = Some(120);
    let base = work_dir("c17");
    let b2 = base.clone();
    let k = if env.is_thorough() { 6 } else { 3 };
    rep.campaign("projects", env.cases(800, 6_000), (300, 1800), move |case| case_fn(case, &b2, k));
    let _ = std::fs::remove_dir_all(&base);
    rep.shrink_iters = None;
    rep.note("campaign schema-verdict-order (in-process): valid schemas (25%) or schemas with one injected type-system fault (75%, the 25 C05 operators), split into definitions and extensions, three random permutations each (extension order per name kept) redistributed over 1-3 files: accept/reject must not change");
    rep.note("campaign import-order (in-process): random import graphs over 2-8 files (cycles, diamonds, repeated lines, six path spellings, equal fragment names in different files), every file as root, resolved three times: same definitions in the same order. Non-trivial: >= 3 imported definitions");
    rep.note("campaign history (built CLI): `generate` runs in a directory in which an earlier `generate` ran with other options (scalar mappings, allowUndefinedAsOptionalInput, naming, exports, emitSchemaRuntime) and/or another text in one operation file; every file a fresh directory gets must be there with the same bytes (no state carried from one run to the next: the statement's `regardless of` covers what an earlier run left behind; this is also where a stale declaration would contradict C09/C10/C14). Non-trivial: the earlier run succeeded and differed");
    let b3 = base.join("history");
    rep.campaign("history", env.cases(150, 1_500), (300, 1800), move |case| history_case(case, &b3));
    rep.note("campaign introspection-json (built CLI): the schema as an introspection result - types in any order, with or without meta types, half of them with one or two type entries listed twice - and one generated operation document; `generate` in k fresh processes: same status, same stdout, same bytes in every written file. Non-trivial: generate succeeded and wrote files");
    let b4 = base.join("introspection");
    rep.campaign("introspection-json", env.cases(150, 1_500), (300, 1800), move |case| introspection_case(case, &b4, k));
    rep.campaign("import-order", env.cases(20_000, 300_000), (20, 400), import_order_case);
    rep.campaign("schema-verdict-order", env.cases(30_000, 400_000), (200, 1500), schema_verdict_case);
    rep.finish()
}
