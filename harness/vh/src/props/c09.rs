//! C09 — Variables types admit only coercible inputs and every explicit one.

use crate::choices::Choices;
use crate::gen_schema::*;
use crate::model::*;
use crate::pipeline::*;
use crate::props::c01::{capitalize, sdl_with_scalar_directives};
use crate::refexec::*;
use crate::render::*;
use crate::runner::*;
use crate::schema::Schema;
use crate::tsmini::{self, Program, Val};
use crate::introspect::{introspect, IntrospectOpts};
use serde_json::json;
use std::collections::BTreeMap;
use std::path::PathBuf;

struct Co<'a> {
    s: &'a Schema,
    cfg: &'a ScalarCfg,
}

impl<'a> Co<'a> {
    /// value acceptable for input type `ty` (not null/absent at this level)
    fn coercible_nn(&self, v: &Val, ty: &MType) -> bool {
        match ty {
            MType::NonNull(t) => self.coercible_nn(v, t),
            MType::List(t) => match v {
                Val::List(items) => items.iter().all(|i| self.coercible(i, t)),
                _ => false, // arrays only: the emitted type is an array type
            },
            MType::Named(n) => {
                let def = &self.s.types[n];
                match def.kind {
                    Kind::Scalar => {
                        let sem = global_sem(self.cfg.ts(n, Target::OperationInput));
                        !matches!(v, Val::Undefined | Val::Null) && tsmini::member(v, &sem, 0).unwrap_or(false)
                    }
                    Kind::Enum => matches!(v, Val::Str(s) if def.values.iter().any(|x| &x.name == s)),
                    Kind::Input => {
                        let Val::Obj(m) = v else { return false };
                        for f in &def.input_fields {
                            match m.get(&f.name) {
                                None | Some(Val::Undefined) => {
                                    if f.ty.is_non_null() && f.default.is_none() {
                                        return false;
                                    }
                                }
                                Some(x) => {
                                    if !self.coercible(x, &f.ty) {
                                        return false;
                                    }
                                }
                            }
                        }
                        true
                    }
                    _ => false,
                }
            }
        }
    }
    /// value for a position of type `ty` that is present (null allowed when nullable)
    fn coercible(&self, v: &Val, ty: &MType) -> bool {
        match v {
            Val::Undefined => false,
            Val::Null => !ty.is_non_null(),
            v => self.coercible_nn(v, ty),
        }
    }
    fn vars_coercible(&self, v: &Val, vars: &[MVarDef]) -> Result<(), String> {
        let Val::Obj(m) = v else { return Err("not an object".into()) };
        for vd in vars {
            match m.get(&vd.name) {
                None | Some(Val::Undefined) => {
                    if vd.ty.is_non_null() && vd.default.is_none() {
                        return Err(format!("required variable ${} is missing", vd.name));
                    }
                }
                Some(x) => {
                    if !self.coercible(x, &vd.ty) {
                        return Err(format!("value of ${} is not coercible to {}", vd.name, vd.ty.show()));
                    }
                }
            }
        }
        Ok(())
    }

    /// generate an explicit coercible value; `omit_nullable` = nullable input fields may be
    /// omitted (option on)
    fn genv(&self, ch: &mut Choices, ty: &MType, omit_nullable: bool, depth: usize) -> Val {
        if !ty.is_non_null() && ch.chance(1, 5) {
            return Val::Null;
        }
        self.gen_nn(ch, ty, omit_nullable, depth)
    }
    fn gen_nn(&self, ch: &mut Choices, ty: &MType, omit_nullable: bool, depth: usize) -> Val {
        match ty {
            MType::NonNull(t) => self.gen_nn(ch, t, omit_nullable, depth),
            MType::List(t) => {
                let n = if depth > 3 { 0 } else { ch.below(3) };
                Val::List((0..n).map(|_| self.genv(ch, t, omit_nullable, depth + 1)).collect())
            }
            MType::Named(n) => {
                let def = &self.s.types[n];
                match def.kind {
                    Kind::Scalar => {
                        let vs: Vec<Val> = sem_inhabitants(self.cfg.ts(n, Target::OperationInput))
                            .into_iter()
                            .filter(|v| !matches!(v, Val::Null | Val::Undefined))
                            .collect();
                        if vs.is_empty() { Val::Str("x".into()) } else { ch.pick(&vs).clone() }
                    }
                    Kind::Enum => Val::Str(ch.pick(&def.values).name.clone()),
                    Kind::Input => {
                        let mut m = BTreeMap::new();
                        for f in &def.input_fields {
                            if !f.ty.is_non_null() && (depth > 2 || (omit_nullable && ch.chance(1, 3))) {
                                if depth > 2 && !omit_nullable {
                                    m.insert(f.name.clone(), Val::Null);
                                }
                                continue;
                            }
                            m.insert(f.name.clone(), self.genv(ch, &f.ty, omit_nullable, depth + 1));
                        }
                        Val::Obj(m)
                    }
                    _ => Val::Null,
                }
            }
        }
    }
}

fn gen_var_type(ch: &mut Choices, s: &Schema) -> MType {
    let inputs: Vec<String> = s.types.keys().filter(|n| s.is_input_type(n)).cloned().collect();
    let base = ch.pick(&inputs).clone();
    let n = MType::named(&base);
    match ch.below(8) {
        0 => n,
        1 => MType::non_null(n),
        2 => MType::list(n),
        3 => MType::non_null(MType::list(MType::non_null(MType::named(&base)))),
        4 => MType::list(MType::list(n)),
        5 => MType::list(MType::non_null(MType::named(&base))),
        6 => MType::non_null(MType::list(MType::list(MType::non_null(MType::named(&base))))),
        _ => MType::non_null(MType::list(n)),
    }
}

fn case_fn(case: &mut Case) -> CaseResult {
    let mut so = SchemaGenOpts::default();
    so.comment_close_in_text = case.allow("description_with_comment_close");
    let gs = gen_schema(&mut case.ch, &so);
    let s = &gs.schema;
    // a quarter of the cases take the introspection route (schema given as the JSON a server returns; no
    // directive applications exist there, so every scalar type comes from the configuration)
    let via_json = case.ch.chance(1, 4);
    let cfg = ScalarCfg::generate(&mut case.ch, s, !via_json);
    let allow_undefined = case.ch.flip();
    // operation with explicit variable definitions
    let nv = case.ch.range(1, 5);
    let mut vars = vec![];
    for i in 0..nv {
        let ty = gen_var_type(&mut case.ch, s);
        let default = if case.ch.chance(1, 4) && s.kind(ty.base()) != Some(Kind::Input) {
            Some(plain_const_value(&mut case.ch, &s.types, &ty, 0))
        } else {
            None
        };
        vars.push(MVarDef { name: format!("v{i}"), ty, default, directives: vec![] });
    }
    let op_name = case.ch.pick(&["Q", "getIt", "a"]).to_string();
    let doc: MOpDoc = vec![MExecDef::Op(MOperation {
        op: OpType::Query,
        name: Some(op_name.clone()),
        vars: vars.clone(),
        directives: vec![],
        sel: vec![MSelection::Field(MFieldSel { alias: None, name: "__typename".into(), args: vec![], directives: vec![], sel: None })],
        shorthand: false,
    })];
    let sdl_doc = sdl_with_scalar_directives(&gs.doc, &cfg);
    // half of the SDL schemas are written as definitions plus extensions over one to four files
    let schema_texts: Vec<String> = if !via_json && case.ch.flip() {
        case.label("schema-with-extensions");
        split_into_extensions(&mut case.ch, &sdl_doc).iter().filter(|f| !f.is_empty()).map(|f| canon_ts(f)).collect()
    } else {
        vec![canon_ts(&sdl_doc)]
    };
    let schema_sdl = schema_texts.join("\n# ---- next file\n");
    let op_text = canon_op(&doc);
    let detail0 = json!({"schema": schema_sdl, "operations": op_text});
    let sfiles: Vec<(PathBuf, String)> = schema_texts.iter().enumerate().map(|(i, t)| (PathBuf::from(format!("/p/schema{i}.graphql")), t.clone())).collect();
    let ofiles = vec![(PathBuf::from("/p/ops.graphql"), op_text.clone())];
    let ss = schema_stage(&sfiles, &detail0)?;
    if !ss.ok() {
        let d = ss.all_diags();
        return Err(Failure::new(format!("precondition:schema-rejected:{}", d[0].kind), format!("{:?}", d[0]), detail0));
    }
    let js;
    let mut js_text: Option<String> = None;
    let ischema;
    let iast;
    let mut sdoc = ss.doc.as_ref().unwrap();
    let mut svalue = None;
    if via_json {
        case.label("schema-via-introspection-json");
        let io = IntrospectOpts { meta_types: case.ch.flip(), absent_optionals: case.ch.flip(), shuffle: case.ch.flip() };
        js = introspect(s, &io, Some(&mut case.ch));
        js_text = Some(js.clone());
        ischema = schema_via_introspection(&js, &detail0)?;
        iast = guard(|| nitrogql_semantics::type_system_to_ast(&ischema)).map_err(|p| panic_failure("type_system_to_ast", &p, detail0.clone()))?;
        sdoc = &iast;
        svalue = Some(&ischema);
    }
    let os = op_stage_with(sdoc, svalue, sfiles.len(), &ofiles, &detail0)?;
    if let Some(d) = os.all_diags().first() {
        return Err(Failure::new(format!("precondition:document-rejected:{}", d.kind), format!("{:?}", d), detail0));
    }
    let scfg = SchemaGenConfig { scalar_types: cfg.to_nitrogql_map(), allow_undefined_as_optional_input: allow_undefined, emit_schema_runtime: false };
    let mut schema_dts = match gen_schema_dts(sdoc, &scfg, None, &detail0)? {
        Ok(b) => b.buffer,
        Err(e) => return Err(Failure::new("schema-printer-error", e, detail0)),
    };
    // (options from configuration text, as the CLI builds them: `generate.type.allowUndefinedAsOptionalInput`
    // must reach the operation printer too)
    let oopts = op_options_from(&scfg);
    let mut op_dts = gen_operation_dts_with(sdoc, svalue, &os.files[0].doc, oopts, None, &detail0)?.buffer;
    // one case in forty: the files are the ones the built CLI leaves in a directory in which `generate` already ran
    // with other options (users edit the configuration and run the command again)
    if std::path::Path::new(crate::cli::CLI_BIN).exists() && case.ch.chance(1, 40) {
        case.label("declarations-from-cli-after-config-change");
        let files: Vec<(String, String)> = if via_json {
            vec![("schema.json".to_string(), js_text.clone().unwrap_or_default())]
        } else {
            schema_texts.iter().enumerate().map(|(i, t)| (format!("s{i}.graphqls"), t.clone())).collect()
        };
        let (a, b, _) = cli_generate_after_earlier_run(&files, &op_text, &scfg, &other_schema_gen_config(&scfg), false, &detail0)?;
        schema_dts = a;
        op_dts = b;
    }
    let detail = json!({"schema": schema_sdl, "operations": op_text, "operation_dts": op_dts, "allowUndefinedAsOptionalInput": allow_undefined,
        "scalars": cfg.map.iter().map(|(k, v)| (k.clone(), format!("{v:?}"))).collect::<BTreeMap<_, _>>()});
    let mut program = Program::new();
    program.add_module("Schema", &schema_dts).map_err(|e| Failure::new("ts-parse-error:schema", format!("{} at {}:{}", e.msg, e.line, e.col), detail.clone()))?;
    program.add_module("ops", &op_dts).map_err(|e| Failure::new("ts-parse-error:operations", format!("{} at {}:{}", e.msg, e.line, e.col), detail.clone()))?;
    let tn = format!("{}Variables", capitalize(&op_name));
    let unsup = |e: tsmini::Unsupported| Failure::new("harness:unsupported-ts", e.0, detail.clone());
    let sem = program.alias("ops", &[&tn]).map_err(unsup)?;
    let co = Co { s, cfg: &cfg };

    // (⊆) inhabitants of the emitted type are coercible
    let mut budget = 80;
    for v in tsmini::inhabitants(&sem, &mut budget, 0).map_err(unsup)? {
        case.evals(1);
        if let Err(why) = co.vars_coercible(&v, &vars) {
            return Err(Failure::new(
                "admits-uncoercible-input",
                format!("{tn} admits an input the server's variable coercion rejects: {why}"),
                json!({"detail": detail, "value": v.to_json()}),
            ));
        }
    }
    // (⊇) explicit coercible assignments are admitted
    for _ in 0..20 {
        let mut m = BTreeMap::new();
        for vd in &vars {
            if allow_undefined && !vd.ty.is_non_null() && case.ch.chance(1, 4) {
                continue; // nullable variable omitted (option on)
            }
            m.insert(vd.name.clone(), co.genv(&mut case.ch, &vd.ty, allow_undefined, 0));
        }
        let v = Val::Obj(m);
        debug_assert!(co.vars_coercible(&v, &vars).is_ok());
        case.evals(1);
        if !tsmini::member(&v, &sem, 0).map_err(unsup)? {
            return Err(Failure::new(
                "rejects-explicit-input",
                format!("{tn} rejects an assignment that supplies every variable/field explicitly with coercible values"),
                json!({"detail": detail, "value": v.to_json()}),
            ));
        }
        // near misses built from this valid assignment
        if let Val::Obj(m) = &v {
            for vd in &vars {
                // null / omission
                for (nv, how) in [(Some(Val::Null), "null"), (None, "omit")] {
                    let mut m2 = m.clone();
                    match nv {
                        Some(x) => {
                            m2.insert(vd.name.clone(), x);
                        }
                        None => {
                            m2.remove(&vd.name);
                        }
                    }
                    let v2 = Val::Obj(m2);
                    let admitted = tsmini::member(&v2, &sem, 0).map_err(unsup)?;
                    let coercible = co.vars_coercible(&v2, &vars).is_ok();
                    case.evals(1);
                    if admitted && !coercible {
                        return Err(Failure::new(
                            format!("admits-uncoercible-input:{how}"),
                            format!("{tn} admits {how} for ${} of type {}", vd.name, vd.ty.show()),
                            json!({"detail": detail, "value": v2.to_json()}),
                        ));
                    }
                    // omission of a nullable variable is allowed exactly when the option is on
                    if how == "omit" && !vd.ty.is_non_null() && admitted != allow_undefined {
                        return Err(Failure::new(
                            "optional-omission-mismatch",
                            format!("omitting nullable ${} is {} although allowUndefinedAsOptionalInput={allow_undefined}", vd.name, if admitted { "admitted" } else { "rejected" }),
                            json!({"detail": detail, "value": v2.to_json()}),
                        ));
                    }
                }
                // omission of a nullable field of a (nested) input object inside this variable's value: admitted
                // exactly when the option is on (the statement's "nullable ones may be omitted exactly when ...")
                if let Some(cur) = m.get(&vd.name) {
                    for (path, v_omitted) in nested_omissions(&s, cur, &vd.ty, 0).into_iter().take(4) {
                        let mut m2 = m.clone();
                        m2.insert(vd.name.clone(), v_omitted);
                        let v2 = Val::Obj(m2);
                        let admitted = tsmini::member(&v2, &sem, 0).map_err(unsup)?;
                        let coercible = co.vars_coercible(&v2, &vars).is_ok();
                        case.evals(1);
                        case.label("nested-nullable-field-omitted");
                        if admitted && !coercible {
                            return Err(Failure::new(
                                "admits-uncoercible-input:nested-omit",
                                format!("{tn} admits ${} without {path}", vd.name),
                                json!({"detail": detail, "value": v2.to_json()}),
                            ));
                        }
                        if admitted != allow_undefined {
                            return Err(Failure::new(
                                "optional-omission-mismatch:nested-field",
                                format!("omitting the nullable input field {path} inside ${} is {} although allowUndefinedAsOptionalInput={allow_undefined}", vd.name, if admitted { "admitted" } else { "rejected" }),
                                json!({"detail": detail, "value": v2.to_json()}),
                            ));
                        }
                    }
                }
                // scalar atom of the *output* side where it differs from the input side
                if s.kind(vd.ty.base()) == Some(Kind::Scalar) && vd.ty.list_depth() == 0 {
                    let inp = cfg.ts(vd.ty.base(), Target::OperationInput).to_string();
                    let out = cfg.ts(vd.ty.base(), Target::OperationOutput).to_string();
                    if inp != out {
                        for ov in sem_inhabitants(&out) {
                            let mut m2 = m.clone();
                            m2.insert(vd.name.clone(), ov);
                            let v2 = Val::Obj(m2);
                            let admitted = tsmini::member(&v2, &sem, 0).map_err(unsup)?;
                            let coercible = co.vars_coercible(&v2, &vars).is_ok();
                            case.evals(1);
                            if admitted && !coercible {
                                return Err(Failure::new(
                                    "admits-uncoercible-input:output-side-scalar",
                                    format!("{tn} admits a value of the scalar's output type for ${}", vd.name),
                                    json!({"detail": detail, "value": v2.to_json()}),
                                ));
                            }
                        }
                    }
                }
            }
        }
    }
    let nontrivial = vars.iter().any(|v| {
        v.ty.list_depth() >= 2
            || (v.ty.list_depth() >= 1 && v.ty.show().contains("!]"))
            || s.types[v.ty.base()].input_fields.iter().any(|f| s.kind(f.ty.base()) == Some(Kind::Input))
            || cfg.map.get(v.ty.base()).map(|c| c.get(Target::OperationInput) != c.get(Target::OperationOutput)).unwrap_or(false)
    });
    if allow_undefined {
        case.label("option-on");
    } else {
        case.label("option-off");
    }
    if nontrivial {
        case.nontrivial(&(&schema_sdl, &op_text, allow_undefined));
    }
    case.sample(|| detail.clone());
    Ok(())
}

pub fn run(env: &Env) -> i32 {
    let mut rep = Report::new(
        env,
        "exploration",
        "generated schema (input objects referring to input objects, enums, custom scalars with Single/SendReceive/Separate/directive TypeScript mappings) and an accepted operation with 1-5 variable definitions over all input kinds and wrappers (T, T!, [T], [T!]!, [[T]], [[T!]]!), defaults; config: allowUndefinedAsOptionalInput on/off. Oracle over abstract values: (a) sampled inhabitants of the emitted <Op>Variables type (read with the emitted __OperationInput namespace) must be coercible per the spec's CoerceVariableValues; (b) 20 explicit coercible assignments per case must be members; (c) near-misses (null, omission, output-side scalar atoms) admitted => coercible, and omission of a nullable variable is admitted iff the option is on. Non-trivial: nested list / list of non-null / nested input object / scalar whose input and output types differ.",
    );
    rep.assume("list variables are supplied as arrays (the emitted type is an array type); extra object keys are outside the value domain");
    rep.campaign("variables", env.cases(15_000, 150_000), (300, 1400), case_fn);
    rep.finish()
}

/// variants of `v` (a value of type `ty`) in which exactly one present, nullable field of an input object
/// - at any depth, through lists - is removed; with the path of the removed field
fn nested_omissions(s: &Schema, v: &Val, ty: &MType, depth: usize) -> Vec<(String, Val)> {
    let mut out = vec![];
    if depth > 4 {
        return out;
    }
    match (v, ty.nullable()) {
        (Val::List(items), MType::List(inner)) => {
            if let Some(first) = items.first() {
                for (p, x) in nested_omissions(s, first, inner, depth + 1) {
                    let mut items2 = items.clone();
                    items2[0] = x;
                    out.push((format!("[0]{p}"), Val::List(items2)));
                }
            }
        }
        (Val::Obj(m), MType::Named(n)) if s.kind(n) == Some(Kind::Input) => {
            for f in &s.types[n.as_str()].input_fields {
                let Some(fv) = m.get(&f.name) else { continue };
                if !f.ty.is_non_null() {
                    let mut m2 = m.clone();
                    m2.remove(&f.name);
                    out.push((format!(".{}", f.name), Val::Obj(m2)));
                }
                for (p, x) in nested_omissions(s, fv, &f.ty, depth + 1) {
                    let mut m2 = m.clone();
                    m2.insert(f.name.clone(), x);
                    out.push((format!(".{}{p}", f.name), Val::Obj(m2)));
                }
            }
        }
        _ => {}
    }
    out
}
