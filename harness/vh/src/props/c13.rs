//! C13 — `#import` resolution brings in every requested fragment, transitively, once.

use crate::runner::*;
use nitrogql_ast::{operation::ExecutableDefinition, set_current_file_of_pos, OperationDocument};
use nitrogql_error::PositionedError;
use nitrogql_parser::parse_operation_document;
use nitrogql_semantics::{resolve_operation_extensions, resolve_operation_imports, OperationExtension, OperationResolver};
use serde_json::{json, Value};
use std::collections::{BTreeMap, BTreeSet, HashMap};
use std::path::{Path, PathBuf};
use std::sync::Mutex;

/// what file i imports from file j
#[derive(Clone, Copy, Debug, PartialEq, Eq, Hash, PartialOrd, Ord)]
pub enum Edge {
    None,
    Star,
    A,
    B,
    AB,
    Missing,
}

pub const FULL: [Edge; 6] = [Edge::None, Edge::Star, Edge::A, Edge::B, Edge::AB, Edge::Missing];
pub const REDUCED: [Edge; 4] = [Edge::None, Edge::Star, Edge::A, Edge::AB];

/// file layout: paths of the N files
pub fn file_paths(n: usize) -> Vec<PathBuf> {
    // base names repeat across directories, so that one specifier text ("./f.graphql", "../f.graphql")
    // denotes different files depending on the importing file
    ["/p/f.graphql", "/p/d/f.graphql", "/p/d/e/f.graphql", "/q/f.graphql", "/p/g.graphql", "/p/d/g.graphql", "/f.graphql", "/q/r/f.graphql"][..n]
        .iter()
        .map(PathBuf::from)
        .collect()
}

/// the second fragment of every file but the first is called `Shared`: fragments are identified by
/// (defining file, name), and equal names in different files must not be confused by the resolver
fn frag_names(i: usize) -> [String; 2] {
    // (file 0's second fragment starts with the letters of the `from` keyword of the import line; file 1's first one
    // starts with `import`)
    [if i == 1 { "importedF1a".to_string() } else { format!("F{i}a") }, if i == 0 { "fromRoot".to_string() } else { "Shared".to_string() }]
}

/// relative spelling of `to` seen from `from` (variant 0 = canonical)
fn spell(from: &Path, to: &Path, variant: usize) -> String {
    let rel = crate::props::c20::ref_relative(from, to);
    match variant {
        0 => rel,
        1 => {
            // ./x -> ./d/../x style detour through the own directory name is not always possible;
            // use a redundant "./" prefix segment instead
            if let Some(r) = rel.strip_prefix("./") { format!("./././{r}") } else { format!("./{rel}") }
        }
        2 => {
            // go up to the root and come back down: ../../<abs path without leading slash>
            let depth = from.parent().map(|p| p.components().count() - 1).unwrap_or(0);
            let ups = "../".repeat(depth);
            let abs = to.to_string_lossy();
            if depth == 0 { format!("./{}", &abs[1..]) } else { format!("{ups}{}", &abs[1..]) }
        }
        3 => {
            // bare path (no leading ./): relative to the importing file all the same
            match rel.strip_prefix("./") {
                Some(r) => r.to_string(),
                None => rel,
            }
        }
        4 => {
            // bare path with an interior detour: zz/../x
            match rel.strip_prefix("./") {
                Some(r) => format!("zz/../{r}"),
                None => format!("zz/../{rel}"),
            }
        }
        _ => {
            // ./zz/.././x
            match rel.strip_prefix("./") {
                Some(r) => format!("./zz/.././{r}"),
                None => format!("./zz/../{rel}"),
            }
        }
    }
}

#[derive(Clone, Debug, PartialEq, Eq, Hash, PartialOrd, Ord)]
pub struct ImportLine {
    pub target: usize,
    /// None = wildcard
    pub names: Option<Vec<String>>,
    pub spelling: usize,
    /// target file index >= n means "not among the configured documents"
    pub dangling: bool,
}

#[derive(Clone, Debug, PartialEq, Eq, Hash)]
pub struct FileSpec {
    pub imports: Vec<ImportLine>,
    pub n_frags: usize,
    pub has_op: bool,
}

/// the file an import line denotes (absolute, normalised)
pub fn import_target_path(l: &ImportLine, paths: &[PathBuf]) -> PathBuf {
    if l.dangling { PathBuf::from(format!("/p/missing{}.graphql", l.target)) } else { paths[l.target].clone() }
}

pub fn file_paths_of(paths: &[PathBuf], p: &str) -> Option<usize> {
    paths.iter().position(|x| x.to_string_lossy() == p)
}

pub fn edge_to_line(e: Edge, j: usize) -> Option<ImportLine> {
    let [a, b] = frag_names(j);
    let names = match e {
        Edge::None => return None,
        Edge::Star => None,
        Edge::A => Some(vec![a]),
        Edge::B => Some(vec![b]),
        Edge::AB => Some(vec![a, b]),
        Edge::Missing => Some(vec!["Missing".to_string()]),
    };
    Some(ImportLine { target: j, names, spelling: 0, dangling: false })
}

pub fn render_file(i: usize, spec: &FileSpec, paths: &[PathBuf]) -> String {
    let mut s = String::new();
    for l in &spec.imports {
        let target_path = if l.dangling { PathBuf::from(format!("/p/missing{}.graphql", l.target)) } else { paths[l.target].clone() };
        let lit = spell(&paths[i], &target_path, l.spelling);
        match &l.names {
            None => s.push_str(&format!("#import * from \"{lit}\"\n")),
            Some(ns) => s.push_str(&format!("#import {} from \"{lit}\"\n", ns.join(", "))),
        }
    }
    let names = frag_names(i);
    for k in 0..spec.n_frags {
        s.push_str(&format!("fragment {} on Query {{ __typename }}\n", names[k]));
    }
    if spec.has_op {
        s.push_str(&format!("query Op{i} {{ __typename }}\n"));
    }
    s
}

/// reference closure: Ok(set of (file, fragment)) in addition to the root's own definitions,
/// or Err(()) when some reachable import is dangling / names a missing fragment
pub fn ref_closure(specs: &[FileSpec], root: usize) -> Result<BTreeSet<(usize, String)>, ()> {
    let mut out = BTreeSet::new();
    let mut visited = BTreeSet::new();
    let mut stack = vec![root];
    visited.insert(root);
    while let Some(f) = stack.pop() {
        for l in &specs[f].imports {
            if l.dangling {
                return Err(());
            }
            let t = l.target;
            let defined: Vec<String> = frag_names(t)[..specs[t].n_frags].to_vec();
            match &l.names {
                None => {
                    for d in &defined {
                        out.insert((t, d.clone()));
                    }
                }
                Some(ns) => {
                    for n in ns {
                        if !defined.contains(n) {
                            return Err(());
                        }
                        out.insert((t, n.clone()));
                    }
                }
            }
            if visited.insert(t) {
                stack.push(t);
            }
        }
    }
    // the root's own fragments are already part of the document
    out.retain(|(f, _)| *f != root);
    Ok(out)
}

type Parsed = (&'static OperationDocument<'static>, &'static OperationExtension<'static>);

struct Res<'a> {
    by_path: HashMap<&'a Path, Parsed>,
}
impl<'a> OperationResolver<'static> for Res<'a> {
    fn resolve(&self, path: &Path) -> Option<(&OperationDocument<'static>, &OperationExtension<'static>)> {
        self.by_path.get(path).map(|p| (p.0, p.1))
    }
}

/// parse cache: file texts are few (they depend on the file's own outgoing edges only);
/// parsed documents are leaked so that they can be shared across cases and threads.
static CACHE: Mutex<Option<HashMap<(usize, String), Result<(usize, usize), String>>>> = Mutex::new(None);
static ARENA: Mutex<Vec<(usize, usize)>> = Mutex::new(Vec::new());

thread_local! {
    static LOCAL: std::cell::RefCell<HashMap<(usize, String), Result<(usize, usize), String>>> = std::cell::RefCell::new(HashMap::new());
}

fn parse_cached(i: usize, text: &str) -> Result<Parsed, String> {
    let key = (i, text.to_string());
    if let Some(r) = LOCAL.with(|l| l.borrow().get(&key).cloned()) {
        return r.map(|(d, e)| unsafe { (&*(d as *const OperationDocument<'static>), &*(e as *const OperationExtension<'static>)) });
    }
    let r = parse_cached_global(i, text, &key);
    LOCAL.with(|l| l.borrow_mut().insert(key, r.clone()));
    r.map(|(d, e)| unsafe { (&*(d as *const OperationDocument<'static>), &*(e as *const OperationExtension<'static>)) })
}

fn parse_cached_global(i: usize, text: &str, key: &(usize, String)) -> Result<(usize, usize), String> {
    {
        let c = CACHE.lock().unwrap();
        if let Some(m) = c.as_ref() {
            if let Some(r) = m.get(key) {
                return r.clone();
            }
        }
    }
    let leaked: &'static str = Box::leak(text.to_string().into_boxed_str());
    set_current_file_of_pos(i);
    let r: Result<(usize, usize), String> = match parse_operation_document(leaked) {
        Err(e) => Err(format!("parse: {}", e.into_message())),
        Ok(d) => match resolve_operation_extensions(d) {
            Err(e) => {
                let pe: PositionedError = e.into();
                Err(format!("extension: {}", pe.into_inner()))
            }
            Ok((d, e)) => {
                let d: &'static OperationDocument<'static> = Box::leak(Box::new(d));
                let e: &'static OperationExtension<'static> = Box::leak(Box::new(e));
                Ok((d as *const _ as usize, e as *const _ as usize))
            }
        },
    };
    let mut c = CACHE.lock().unwrap();
    c.get_or_insert_with(HashMap::new).insert(key.clone(), r.clone());
    let _ = &ARENA;
    r
}

pub struct GraphOutcome {
    pub nontrivial: bool,
}

pub fn check_graph(specs: &[FileSpec], paths: &[PathBuf], roots: &[usize]) -> Result<GraphOutcome, Failure> {
    let texts: Vec<String> = (0..specs.len()).map(|i| render_file(i, &specs[i], paths)).collect();
    let detail = json!({"files": texts.iter().enumerate().map(|(i, t)| json!({"path": paths[i], "text": t})).collect::<Vec<_>>()});
    let mut parsed: Vec<Parsed> = vec![];
    for (i, t) in texts.iter().enumerate() {
        match guard(|| parse_cached(i, t)).map_err(|p| panic_failure("parse/resolve_operation_extensions", &p, detail.clone()))? {
            Ok(p) => parsed.push(p),
            Err(e) => return Err(Failure::new("harness:file-unparsable", e, detail)),
        }
    }
    let res = Res { by_path: paths.iter().zip(parsed.iter()).map(|(p, d)| (p.as_path(), *d)).collect() };
    for &root in roots {
        let expected = ref_closure(specs, root);
        let got = guard(|| resolve_operation_imports((paths[root].as_path(), parsed[root].0, parsed[root].1), &res))
            .map_err(|p| panic_failure("resolve_operation_imports", &p, json!({"root": root, "detail": detail})))?;
        match (expected, got) {
            (Err(()), Ok(_)) => {
                return Err(Failure::new(
                    "missed-import-error",
                    format!("root {root}: resolution succeeded although a reachable import is dangling or names a missing fragment"),
                    json!({"root": root, "detail": detail}),
                ));
            }
            (Ok(_), Err(e)) => {
                let pe: PositionedError = e.into();
                return Err(Failure::new(
                    "spurious-import-error",
                    format!("root {root}: resolution failed on a resolvable graph: {}", pe.into_inner()),
                    json!({"root": root, "detail": detail}),
                ));
            }
            (Err(()), Err(e)) => {
                let pe: PositionedError = e.into();
                let Some(pos) = pe.position() else {
                    return Err(Failure::new("import-error-without-position", "error has no position", json!({"root": root, "detail": detail})));
                };
                // position must lie on an import line of the file that contains the bad import
                let f = pos.file;
                let ok = f < specs.len() && pos.line < specs[f].imports.len() && {
                    let l = &specs[f].imports[pos.line];
                    l.dangling
                        || match &l.names {
                            Some(ns) => ns.iter().any(|n| !frag_names(l.target)[..specs[l.target].n_frags].contains(n)),
                            None => false,
                        }
                };
                if !ok {
                    return Err(Failure::new(
                        "import-error-position",
                        format!("root {root}: error positioned at file {f} line {} which is not a faulty import line", pos.line),
                        json!({"root": root, "detail": detail, "message": pe.into_inner().to_string()}),
                    ));
                }
            }
            (Ok(exp), Ok(doc)) => {
                // own definitions first, unchanged
                let own = parsed[root].0.definitions.len();
                let mut got: Vec<(usize, String)> = vec![];
                for (k, d) in doc.definitions.iter().enumerate() {
                    match d {
                        ExecutableDefinition::FragmentDefinition(f) => {
                            if k >= own {
                                got.push((f.position.file, f.name.name.to_string()));
                            }
                        }
                        ExecutableDefinition::OperationDefinition(o) => {
                            if k >= own {
                                return Err(Failure::new(
                                    "imported-operation",
                                    format!("root {root}: an operation ({:?}) was imported", o.name.map(|n| n.name)),
                                    json!({"root": root, "detail": detail}),
                                ));
                            }
                        }
                    }
                }
                if doc.definitions.len() < own {
                    return Err(Failure::new("own-definitions-lost", format!("root {root}: own definitions missing"), json!({"root": root, "detail": detail})));
                }
                let mut counts: BTreeMap<(usize, String), usize> = BTreeMap::new();
                for g in &got {
                    *counts.entry(g.clone()).or_default() += 1;
                }
                if let Some((k, c)) = counts.iter().find(|(_, c)| **c > 1) {
                    return Err(Failure::new(
                        "definition-imported-twice",
                        format!("root {root}: fragment {} of file {} appears {c} times among the imported definitions", k.1, k.0),
                        json!({"root": root, "detail": detail}),
                    ));
                }
                if let Some(k) = counts.keys().find(|k| k.0 == root) {
                    return Err(Failure::new(
                        "own-fragment-duplicated",
                        format!("root {root}: own fragment {} was imported again (import cycle through the root)", k.1),
                        json!({"root": root, "detail": detail}),
                    ));
                }
                let gotset: BTreeSet<(usize, String)> = counts.into_keys().collect();
                if let Some(m) = exp.iter().find(|e| !gotset.contains(*e)) {
                    return Err(Failure::new(
                        "requested-fragment-lost",
                        format!("root {root}: fragment {} of file {} is requested by an import but missing from the result", m.1, m.0),
                        json!({"root": root, "detail": detail}),
                    ));
                }
                if let Some(m) = gotset.iter().find(|g| !exp.contains(*g)) {
                    return Err(Failure::new(
                        "unrequested-fragment-imported",
                        format!("root {root}: fragment {} of file {} is in the result but no reachable import names it", m.1, m.0),
                        json!({"root": root, "detail": detail}),
                    ));
                }
            }
        }
    }
    // classification: cycle / diamond / two spellings
    let n = specs.len();
    let mut indeg = vec![0usize; n];
    let mut has_cycle = false;
    for (i, s) in specs.iter().enumerate() {
        for l in &s.imports {
            if !l.dangling {
                indeg[l.target] += 1;
                if l.target == i {
                    has_cycle = true;
                }
            }
        }
    }
    // reachability for cycles
    for i in 0..n {
        let mut seen = BTreeSet::new();
        let mut st: Vec<usize> = specs[i].imports.iter().filter(|l| !l.dangling).map(|l| l.target).collect();
        while let Some(x) = st.pop() {
            if x == i {
                has_cycle = true;
            }
            if seen.insert(x) {
                st.extend(specs[x].imports.iter().filter(|l| !l.dangling).map(|l| l.target));
            }
        }
    }
    let diamond = indeg.iter().any(|d| *d >= 2);
    let spellings = specs.iter().any(|s| s.imports.iter().any(|l| l.spelling != 0));
    Ok(GraphOutcome { nontrivial: has_cycle || diamond || spellings })
}

fn specs_from_edges(n: usize, edges: &[Edge], self_imports: bool) -> Vec<FileSpec> {
    let mut specs: Vec<FileSpec> = (0..n).map(|i| FileSpec { imports: vec![], n_frags: 2, has_op: i == 0 }).collect();
    let mut k = 0;
    for i in 0..n {
        for j in 0..n {
            if i == j && !self_imports {
                continue;
            }
            if let Some(l) = edge_to_line(edges[k], j) {
                specs[i].imports.push(l);
            }
            k += 1;
        }
    }
    specs
}

struct GraphIter {
    n: usize,
    alphabet: &'static [Edge],
    slots: usize,
    counter: Vec<usize>,
    done: bool,
    self_imports: bool,
}

impl Iterator for GraphIter {
    type Item = Vec<FileSpec>;
    fn next(&mut self) -> Option<Vec<FileSpec>> {
        if self.done {
            return None;
        }
        let edges: Vec<Edge> = self.counter.iter().map(|c| self.alphabet[*c]).collect();
        let specs = specs_from_edges(self.n, &edges, self.self_imports);
        // increment
        let mut i = 0;
        loop {
            if i == self.slots {
                self.done = true;
                break;
            }
            self.counter[i] += 1;
            if self.counter[i] < self.alphabet.len() {
                break;
            }
            self.counter[i] = 0;
            i += 1;
        }
        Some(specs)
    }
}

fn graphs(n: usize, alphabet: &'static [Edge], self_imports: bool) -> GraphIter {
    let slots = if self_imports { n * n } else { n * (n - 1) };
    GraphIter { n, alphabet, slots, counter: vec![0; slots], done: false, self_imports }
}

fn random_case(case: &mut Case) -> CaseResult {
    let (specs, paths) = random_specs(case);
    let n = specs.len();
    random_case_on(case, specs, paths, n)
}

/// a random import graph over 2-8 files (C17 reuses it for its order-determinism campaign)
pub fn random_specs(case: &mut Case) -> (Vec<FileSpec>, Vec<PathBuf>) {
    let n = case.ch.range(2, 8);
    let paths = file_paths(n);
    let mut specs: Vec<FileSpec> = vec![];
    for i in 0..n {
        let n_frags = case.ch.range(0, 2);
        let has_op = i == 0 || case.ch.chance(1, 4);
        specs.push(FileSpec { imports: vec![], n_frags, has_op });
    }
    let allow_dup_names = case.allow("import_same_name_twice");
    for i in 0..n {
        // up to six lines; a third of them write the path of an earlier line of the file once more (same
        // spelling), so that lines for two paths interleave (x, y, x, y) and are merged per path
        let k = if case.ch.chance(1, 4) { 3 + case.ch.below(4) } else { case.ch.below(4) };
        for _ in 0..k {
            let mut dangling = case.ch.chance(1, 20);
            let mut target = case.ch.below(n);
            let mut again: Option<usize> = None;
            if !specs[i].imports.is_empty() && case.ch.chance(1, 3) {
                let e = &specs[i].imports[case.ch.below(specs[i].imports.len())];
                dangling = e.dangling;
                target = e.target;
                again = Some(e.spelling);
            }
            let [a, b] = frag_names(target);
            let names = match case.ch.below(6) {
                0 | 1 => None,
                2 => Some(vec![a]),
                3 => Some(vec![b]),
                4 => Some(if case.ch.flip() { vec![a, b] } else { vec![b, a] }),
                _ => {
                    if case.ch.chance(1, 3) {
                        Some(vec!["Missing".to_string()])
                    } else if allow_dup_names && case.ch.chance(1, 2) {
                        Some(vec![a.clone(), a])
                    } else {
                        Some(vec![a])
                    }
                }
            };
            let spelling = match again {
                Some(sp) => sp,
                None => case.ch.below(6),
            };
            // one literal path may not mix wildcard and specific imports (documented error of
            // resolve_operation_extensions), and a second wildcard for the same literal is an error
            let lit_of = |l: &ImportLine| -> String {
                let tp = if l.dangling { PathBuf::from(format!("/p/missing{}.graphql", l.target)) } else { paths[l.target].clone() };
                spell(&paths[i], &tp, l.spelling)
            };
            let cand = ImportLine { target, names: names.clone(), spelling, dangling };
            let cand_lit = lit_of(&cand);
            let conflict = specs[i].imports.iter().any(|l: &ImportLine| lit_of(l) == cand_lit && (l.names.is_none() || names.is_none()));
            if conflict {
                continue;
            }
            specs[i].imports.push(ImportLine { target, names, spelling, dangling });
        }
    }
    // a file must not be empty
    for s in specs.iter_mut() {
        if s.imports.is_empty() && s.n_frags == 0 && !s.has_op {
            s.n_frags = 1;
        }
    }
    // names absent from the target (n_frags < 2) are "missing fragment" errors: fine.
    (specs, paths)
}

/// resolves `root` and returns the (defining file, name) of every fragment definition of the result in
/// order (None when resolution reports an error)
pub fn resolved_order(specs: &[FileSpec], paths: &[PathBuf], root: usize) -> Result<Option<Vec<(usize, String)>>, Failure> {
    let texts: Vec<String> = (0..specs.len()).map(|i| render_file(i, &specs[i], paths)).collect();
    let detail = json!({"files": texts.iter().enumerate().map(|(i, t)| json!({"path": paths[i], "text": t})).collect::<Vec<_>>(), "root": root});
    let mut parsed: Vec<Parsed> = vec![];
    for (i, t) in texts.iter().enumerate() {
        match guard(|| parse_cached(i, t)).map_err(|p| panic_failure("parse/resolve_operation_extensions", &p, detail.clone()))? {
            Ok(p) => parsed.push(p),
            Err(e) => return Err(Failure::new("harness:file-unparsable", e, detail)),
        }
    }
    let res = Res { by_path: paths.iter().zip(parsed.iter()).map(|(p, d)| (p.as_path(), *d)).collect() };
    let got = guard(|| resolve_operation_imports((paths[root].as_path(), parsed[root].0, parsed[root].1), &res))
        .map_err(|p| panic_failure("resolve_operation_imports", &p, detail.clone()))?;
    Ok(got.ok().map(|doc| {
        doc.definitions
            .iter()
            .filter_map(|d| match d {
                ExecutableDefinition::FragmentDefinition(f) => Some((f.position.file, f.name.name.to_string())),
                _ => None,
            })
            .collect()
    }))
}

/// CLI route: the same random graphs as a project on disk; `nitrogql check` resolves the imports of every
/// document through cli/src/check.rs (its own index of documents). Exit 0 iff every file resolves and no
/// resolved document holds two fragments of one name; exit 1 otherwise; never a crash.
fn cli_case(case: &mut Case, base: &std::path::Path) -> CaseResult {
    // how the command is started (working directory, --config-file spelling): drawn first so that it varies
    let cli_style = case.ch.below(crate::cli::CLI_STYLES);
    case.label(&format!("cli-style-{cli_style}"));
    use crate::cli::{run_cli, Project};
    let (specs, paths) = random_specs(case);
    let n = specs.len();
    let proj = Project::new(base);
    proj.write("graphql.config.yaml", "schema: \"schema.graphql\"\ndocuments: \"docs/**/*.graphql\"\n");
    proj.write("schema.graphql", "type Query { a: Int }\n");
    for i in 0..n {
        proj.write(&format!("docs{}", paths[i].to_string_lossy()), &render_file(i, &specs[i], &paths));
    }
    let mut all_ok = true;
    let mut collision = false;
    for root in 0..n {
        match ref_closure(&specs, root) {
            Err(()) => all_ok = false,
            Ok(set) => {
                let mut names: Vec<String> = frag_names(root)[..specs[root].n_frags].to_vec();
                names.extend(set.iter().filter(|(f, _)| *f != root).map(|(_, n)| n.clone()));
                let mut seen = BTreeSet::new();
                if names.iter().any(|x| !seen.insert(x.clone())) {
                    collision = true;
                }
            }
        }
    }
    let run = crate::cli::run_cli_styled(&proj.dir, &["check", "--output-format", "json"], cli_style);
    let detail = json!({"files": files_json(&specs, &paths), "status": run.status, "stdout": run.stdout.chars().take(1200).collect::<String>(), "stderr": run.stderr.chars().take(400).collect::<String>()});
    proj.remove();
    case.evals(1);
    if run.crashed() {
        return Err(Failure::new("cli-crashed", format!("check crashed: {}", run.stderr.lines().find(|l| l.contains("panicked")).unwrap_or("signal")), detail));
    }
    let expect = if all_ok && !collision { 0 } else { 1 };
    if run.status != Some(expect) {
        let sig = if expect == 0 { "cli-spurious-import-error" } else { "cli-missed-import-error" };
        return Err(Failure::new(
            sig,
            format!("`nitrogql check` exits {:?}, expected {expect} (all imports resolvable: {all_ok}; equal fragment names meet in one document: {collision})", run.status),
            detail,
        ));
    }
    case.label(if expect == 0 { "accepted" } else if !all_ok { "import-error" } else { "duplicate-fragment-name" });
    if specs.iter().any(|s| s.n_frags == 0 && !s.has_op) {
        case.label("imports-only-file");
    }
    if n >= 3 {
        case.nontrivial(&specs);
    }
    case.sample(|| detail.clone());
    Ok(())
}

pub fn files_json(specs: &[FileSpec], paths: &[PathBuf]) -> serde_json::Value {
    json!((0..specs.len()).map(|i| json!({"path": paths[i], "text": render_file(i, &specs[i], paths)})).collect::<Vec<_>>())
}

fn random_case_on(case: &mut Case, specs: Vec<FileSpec>, paths: Vec<PathBuf>, n: usize) -> CaseResult {
    let roots: Vec<usize> = (0..n).collect();
    let out = check_graph(&specs, &paths, &roots)?;
    case.evals(n as u64);
    // metamorphic: permuting import lines leaves the definition set unchanged (verdict too)
    let mut specs2 = specs.clone();
    for s in specs2.iter_mut() {
        case.ch.shuffle(&mut s.imports);
    }
    check_graph(&specs2, &paths, &roots).map_err(|mut f| {
        f.signature = format!("permuted:{}", f.signature);
        f
    })?;
    case.evals(n as u64);
    if out.nontrivial {
        case.nontrivial(&specs);
    }
    if n > 4 {
        case.label("more-than-4-files");
    }
    case.sample(|| json!({"files": (0..n).map(|i| json!({"path": paths[i], "text": render_file(i, &specs[i], &paths)})).collect::<Vec<_>>()}));
    Ok(())
}

fn enum_case(case: &mut Case, specs: &Vec<FileSpec>) -> CaseResult {
    let n = specs.len();
    let paths = file_paths(n);
    let roots: Vec<usize> = (0..n).collect();
    let out = check_graph(specs, &paths, &roots)?;
    case.evals(n as u64);
    if out.nontrivial {
        case.nontrivial(specs);
    }
    case.sample(|| json!({"files": (0..n).map(|i| json!({"path": paths[i], "text": render_file(i, &specs[i], &paths)})).collect::<Vec<_>>()}));
    Ok(())
}

fn probe_files(files: Vec<(&'static str, &'static str)>, root: usize, expect_frags: Vec<&'static str>) -> impl FnOnce() -> CaseResult {
    move || {
        let detail: Value = json!({"files": files.iter().map(|(p, t)| json!({"path": p, "text": t})).collect::<Vec<_>>()});
        let mut parsed = vec![];
        for (i, (_, t)) in files.iter().enumerate() {
            let p = guard(|| parse_cached(100 + i, t)).map_err(|p| panic_failure("parse/resolve_operation_extensions", &p, detail.clone()))?;
            parsed.push(p.map_err(|e| Failure::new("rejected", e, detail.clone()))?);
        }
        let paths: Vec<PathBuf> = files.iter().map(|(p, _)| PathBuf::from(p)).collect();
        let res = Res { by_path: paths.iter().zip(parsed.iter()).map(|(p, d)| (p.as_path(), *d)).collect() };
        let got = guard(|| resolve_operation_imports((paths[root].as_path(), parsed[root].0, parsed[root].1), &res))
            .map_err(|p| panic_failure("resolve_operation_imports", &p, detail.clone()))?;
        let doc = got.map_err(|e| {
            let pe: PositionedError = e.into();
            Failure::new("spurious-import-error", pe.into_inner().to_string(), detail.clone())
        })?;
        let mut names: Vec<String> = doc
            .definitions
            .iter()
            .filter_map(|d| if let ExecutableDefinition::FragmentDefinition(f) = d { Some(f.name.name.to_string()) } else { None })
            .collect();
        names.sort();
        let mut exp: Vec<String> = expect_frags.iter().map(|s| s.to_string()).collect();
        exp.sort();
        if names != exp {
            return Err(Failure::new("wrong-fragment-set", format!("got {names:?}, expected {exp:?}"), detail));
        }
        Ok(())
    }
}

pub fn run(env: &Env) -> i32 {
    let mut rep = Report::new(
        env,
        "exploration",
        "import graphs: bounded-exhaustive over N=3 files x 2 fragments with per-pair edge alphabet {none, *, {A}, {B}, {A,B}, {Missing}} (no self-imports: 6^6 graphs, every file tried as root; quick and thorough); thorough adds N=3 with self-imports (6^9) and N=4 over {none,*,{A},{A,B}} (4^12); random graphs to N=8 with 0-2 fragments per file, dangling targets, six spellings of each relative path (canonical, redundant ./, via the root, bare, bare with an interior .., ./ with an interior ..), repeated import lines, permuted import lines (metamorphic). Oracle: reference closure as a set of (file, fragment) with each definition exactly once, own definitions kept; Err iff a reachable import is dangling or names a missing fragment, positioned on a faulty import line. Non-trivial: graph has a cycle, a node with in-degree >= 2 (diamond) or a non-canonical path spelling.",
    );
    rep.assume("mixing `*` and named imports for one literal path (a documented error of resolve_operation_extensions) is not generated");
    rep.assume("the definitions of each file are parsed once and shared (cached) across graphs; positions carry the file index");

    rep.probe(
        "C13-diamond-loses-fragment",
        probe_files(
            vec![
                ("/p/main.graphql", "#import F from \"./y.graphql\"\n#import A from \"./x.graphql\"\nquery Q { __typename }\n"),
                ("/p/x.graphql", "fragment A on Query { __typename }\nfragment B on Query { __typename }\n"),
                ("/p/y.graphql", "#import B from \"./x.graphql\"\nfragment F on Query { __typename }\n"),
            ],
            0,
            vec!["F", "A", "B"],
        ),
    );
    rep.probe(
        "C13-cycle-through-root-duplicates",
        probe_files(
            vec![
                ("/p/main.graphql", "#import X from \"./x.graphql\"\nfragment M on Query { __typename }\nquery Q { __typename }\n"),
                ("/p/x.graphql", "#import M from \"./main.graphql\"\nfragment X on Query { __typename }\n"),
            ],
            0,
            vec!["M", "X"],
        ),
    );
    rep.probe(
        "C13-import-same-name-twice",
        probe_files(
            vec![
                ("/p/main.graphql", "#import A, A from \"./x.graphql\"\nquery Q { __typename }\n"),
                ("/p/x.graphql", "fragment A on Query { __typename }\n"),
            ],
            0,
            vec!["A"],
        ),
    );

    let strict_all = env.strict;
    let open_graph_defect = !strict_all
        && env.known.findings.iter().any(|f| f.status == "open" && (f.id == "C13-diamond-loses-fragment" || f.id == "C13-cycle-through-root-duplicates"));
    if open_graph_defect {
        rep.note("exhaustive graph enumeration skipped: an open known finding (visited-set semantics) covers most graphs with in-degree >= 2 or a cycle through the root; only acyclic trees are enumerated");
    }
    rep.enumerate("exhaustive-n3", true, graphs(3, &FULL, false), |case, specs| {
        if open_graph_defect {
            // exclusion by construction: in-degree <= 1 and no edge back into an ancestor
            let mut indeg = [0usize; 3];
            for s in specs.iter() {
                for l in &s.imports {
                    indeg[l.target] += 1;
                }
            }
            if indeg.iter().any(|d| *d > 1) {
                case.label("excluded:target_reached_by_second_edge");
                return Ok(());
            }
        }
        enum_case(case, specs)
    });
    if env.is_thorough() {
        rep.enumerate("exhaustive-n3-self-imports", true, graphs(3, &FULL, true), |case, specs| {
            if open_graph_defect {
                case.label("excluded:target_reached_by_second_edge");
                return Ok(());
            }
            enum_case(case, specs)
        });
        rep.enumerate("exhaustive-n4-reduced", true, graphs(4, &REDUCED, false), |case, specs| {
            if open_graph_defect {
                case.label("excluded:target_reached_by_second_edge");
                return Ok(());
            }
            enum_case(case, specs)
        });
    }
    if !open_graph_defect {
        rep.campaign("random-graphs", env.cases(80_000, 800_000), (10, 300), random_case);
    }
    rep.note("campaign cli-graphs (built CLI): the random graphs written as a project; `nitrogql check` must exit 0 iff every document's imports resolve and no resolved document holds two fragments of one name, 1 otherwise (import resolution through cli/src/check.rs' own document index)");
    rep.shrink_iters = Some(200);
    let base = work_dir("c13");
    let b2 = base.clone();
    rep.campaign("cli-graphs", env.cases(5_000, 60_000), (20, 400), move |case| cli_case(case, &b2));
    let _ = std::fs::remove_dir_all(&base);
    rep.merge_extra_evidence("loader_abi", "loader route (vh-loader C13)");
    rep.finish()
}
