//! C04 — `check` raises no diagnostic on spec-valid operation documents.

use crate::gen_ops::*;
use crate::gen_schema::*;
use crate::pipeline::*;
use crate::refvalid;
use crate::render::*;
use crate::runner::*;
use serde_json::json;
use std::path::PathBuf;

pub fn doc_opts_from_flags(case: &mut Case) -> DocGenOpts {
    let mut o = DocGenOpts::default();
    o.int_for_float = case.allow("int_literal_for_float");
    o.int_for_id = case.allow("int_literal_for_id");
    o.single_for_list = case.allow("single_value_for_list");
    o.nullable_var_default_in_nonnull = case.allow("nullable_var_default_in_nonnull");
    o.null_for_list = case.allow("null_literal_for_list");
    o
}

pub fn schema_opts_from_flags(case: &mut Case) -> SchemaGenOpts {
    let mut o = SchemaGenOpts::default();
    if false {
        // C05 finding: FIELD_DEFINITION directives on interface fields are rejected
        o.deprecations = false;
        o.custom_directives = false;
    }
    o
}

fn case_fn(case: &mut Case) -> CaseResult {
    let so = schema_opts_from_flags(case);
    let gs = gen_schema(&mut case.ch, &so);
    let mut dopts = doc_opts_from_flags(case);
    dopts.all_fragments_used = true;
    let (gd, _) = gen_doc(&mut case.ch, &gs.schema, &dopts);
    // reference validator must agree that the document is valid (confirmation, not filter)
    let labels = refvalid::validate(&gs.schema, &gd.doc);
    if !labels.is_empty() {
        panic!(
            "harness: generated document is not valid per the reference validator: {labels:?}\nschema:\n{}\ndoc:\n{}",
            canon_ts(&gs.doc),
            canon_op(&gd.doc)
        );
    }
    let schema_text = canon_ts(&gs.doc);
    let op_text = if case.ch.chance(1, 3) {
        let mut ro = RenderOpts::wild();
        ro.allow_shorthand = false;
        ro.allow_eof_comment_no_newline = false;
        ro.allow_surrogate_escape = false;
        ro.allow_cooked_block = false;
        ro.allow_block = false;
        render_op_doc(&gd.doc, ro, Some(&mut case.ch)).text
    } else {
        canon_op(&gd.doc)
    };
    let detail = json!({"schema": schema_text, "operations": op_text});
    let sfiles = vec![(PathBuf::from("/p/schema.graphql"), schema_text.clone())];
    let ofiles = vec![(PathBuf::from("/p/ops.graphql"), op_text.clone())];
    let ss = schema_stage(&sfiles, &detail)?;
    if !ss.ok() {
        // a schema diagnostic on a valid schema is C05's business; C04 needs a checked schema
        let d = ss.all_diags();
        return Err(Failure::new(
            format!("schema-rejected:{}", d[0].kind),
            format!("valid schema rejected: {:?}", d[0]),
            detail,
        ));
    }
    // a fifth of the cases check against the schema as an introspection result gives it (`.json` schema file)
    let js;
    let ischema;
    let mut svalue = None;
    if case.ch.chance(1, 5) {
        case.label("schema-via-introspection-json");
        let io = crate::introspect::IntrospectOpts { meta_types: case.ch.flip(), absent_optionals: case.ch.flip(), shuffle: case.ch.flip() };
        js = crate::introspect::introspect(&gs.schema, &io, Some(&mut case.ch));
        ischema = schema_via_introspection(&js, &detail)?;
        svalue = Some(&ischema);
    }
    let os = op_stage_with(ss.doc.as_ref().unwrap(), svalue, 1, &ofiles, &detail)?;
    let diags = os.all_diags();
    if let Some(d) = diags.first() {
        return Err(Failure::new(
            format!("false-diagnostic:{}", d.kind),
            format!("valid document rejected: {} at {}:{}", d.message, d.line, d.col),
            json!({"schema": schema_text, "operations": op_text, "diagnostics": diags.iter().map(|d| d.to_json()).collect::<Vec<_>>()}),
        ));
    }
    for l in &gd.labels {
        case.label(l);
    }
    for l in &gs.labels {
        case.label(l);
    }
    if gd.labels.len() >= 3 {
        case.nontrivial(&(&schema_text, &op_text));
    }
    case.sample(|| json!({"schema": schema_text, "operations": op_text, "features": gd.labels}));
    Ok(())
}

/// the same valid documents distributed over several files connected by #import lines (chains,
/// diamonds, cycles between files, files in different directories): still no diagnostic
fn multi_file_case(case: &mut Case) -> CaseResult {
    let so = schema_opts_from_flags(case);
    let gs = gen_schema(&mut case.ch, &so);
    let mut dopts = doc_opts_from_flags(case);
    dopts.all_fragments_used = true;
    dopts.max_frags = 5;
    let (gd, _) = gen_doc(&mut case.ch, &gs.schema, &dopts);
    let labels = refvalid::validate(&gs.schema, &gd.doc);
    if !labels.is_empty() {
        panic!("harness: generated document is not valid per the reference validator: {labels:?}");
    }
    let split = crate::split::split_into_files(&mut case.ch, &gd.doc);
    let schema_text = canon_ts(&gs.doc);
    let sfiles = vec![(PathBuf::from("/p/schema.graphql"), schema_text.clone())];
    let ofiles: Vec<(PathBuf, String)> = split.files.iter().map(|(rel, m)| (PathBuf::from(format!("/p/ops/{rel}")), canon_op(m))).collect();
    let detail = json!({"schema": schema_text, "operation_files": ofiles.iter().map(|(p, t)| json!({"path": p, "text": t})).collect::<Vec<_>>()});
    let ss = schema_stage(&sfiles, &detail)?;
    if !ss.ok() {
        let d = ss.all_diags();
        return Err(Failure::new(format!("schema-rejected:{}", d[0].kind), format!("valid schema rejected: {:?}", d[0]), detail));
    }
    let os = op_stage(ss.doc.as_ref().unwrap(), 1, &ofiles, &detail)?;
    let diags = os.all_diags();
    if let Some(d) = diags.first() {
        return Err(Failure::new(
            format!("false-diagnostic:multi-file:{}", d.kind),
            format!("valid multi-file project rejected: {} (file index {} at {}:{})", d.message, d.file, d.line, d.col),
            json!({"schema": schema_text, "operation_files": detail["operation_files"], "diagnostics": diags.iter().map(|d| d.to_json()).collect::<Vec<_>>()}),
        ));
    }
    case.label(&format!("files-{}", ofiles.len()));
    if split.max_chain >= 2 {
        case.label("import-chain>=2");
    }
    if split.diamond {
        case.label("import-diamond");
    }
    if split.specific_imports {
        case.label("specific-imports");
    }
    if split.wildcard_imports {
        case.label("wildcard-imports");
    }
    if split.max_chain >= 2 || split.diamond {
        case.nontrivial(&detail.to_string());
    }
    case.sample(|| detail.clone());
    Ok(())
}

pub fn run(env: &Env) -> i32 {
    let mut rep = Report::new(
        env,
        "exploration",
        "valid-by-construction schema (global field dictionary, all kinds, custom directives, renamed roots) and operation document (aliases, every argument form, variables with/without defaults, spec input coercions, enum/object/list literals, custom scalars, named/inline fragments over object/interface/union in every applicable pair, built-in and custom directives at every executable location, __typename, anonymous op); confirmed valid by the reference validator; oracle: zero diagnostics from the in-process check pipeline. Non-trivial: >=3 distinct feature labels; distinct = (schema text, document text).",
    );
    rep.assume("documents are strictly spec-valid: every fragment is used, every variable is used, same response key => same field and arguments (generator discipline)");
    let probe = |schema: &'static str, ops: &'static str| {
        move || -> CaseResult {
            let detail = json!({"schema": schema, "operations": ops});
            let sfiles = vec![(PathBuf::from("/p/schema.graphql"), schema.to_string())];
            let ofiles = vec![(PathBuf::from("/p/ops.graphql"), ops.to_string())];
            let ss = schema_stage(&sfiles, &detail)?;
            if !ss.ok() {
                return Err(Failure::new("schema-rejected", format!("{:?}", ss.all_diags()), detail));
            }
            let os = op_stage(ss.doc.as_ref().unwrap(), 1, &ofiles, &detail)?;
            if let Some(d) = os.all_diags().first() {
                return Err(Failure::new(format!("false-diagnostic:{}", d.kind), d.message.clone(), detail));
            }
            Ok(())
        }
    };
    let sch = "type Query { f(x: Float, id: ID, ids: [Int], deep: [[Int]]): Int g(s: String!, d: Int! = 1): Int }";
    rep.probe("C04-int-literal-for-float", probe(sch, "query Q { f(x: 1) }"));
    rep.probe("C04-int-literal-for-id", probe(sch, "query Q { f(id: 1) }"));
    rep.probe("C04-single-value-for-list", probe(sch, "query Q { f(ids: 1, deep: 2) }"));
    rep.probe("C04-null-for-list", probe(sch, "query Q { f(ids: null, deep: [null]) }"));
    rep.probe("C04-nullable-var-with-default", probe(sch, "query Q($v: String = \"x\", $w: Int) { g(s: $v, d: $w) }"));

    rep.campaign("valid-docs", env.cases(80_000, 800_000), (100, 1200), case_fn);
    rep.note("campaign multi-file: the same generated valid documents (up to 5 fragments) distributed over 1-4 files in different directories, each importing by name or wildcard what it spreads (chains, diamonds, cycles between files, bare and detour path spellings); oracle: zero diagnostics for every file. Non-trivial there: an import chain of length >= 2 or a diamond");
    rep.campaign("multi-file", env.cases(30_000, 300_000), (150, 1400), multi_file_case);
    rep.finish()
}
