pub mod c01;
pub mod c03;
pub mod c04;
pub mod c05;
pub mod c07;
pub mod c11;
pub mod c16;
pub mod c20;
