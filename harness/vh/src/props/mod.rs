pub mod c11;
pub mod c20;
