//! C05 — schema `check` verdict is exact on the implemented type-system rules.

use crate::choices::Choices;
use crate::gen_schema::*;
use crate::model::*;
use crate::pipeline::*;
use crate::props::c11::render_ts_file;
use crate::render::*;
use crate::runner::*;
use crate::schema::Schema;
use serde_json::json;
use std::path::PathBuf;

pub struct TsFault {
    pub label: &'static str,
    pub cell: String,
}

fn type_indices(doc: &[MTsDef], pred: impl Fn(&MTypeDef) -> bool) -> Vec<usize> {
    doc.iter()
        .enumerate()
        .filter(|(_, d)| matches!(d, MTsDef::Type(t) if pred(t)))
        .map(|(i, _)| i)
        .collect()
}

fn tdef(doc: &mut [MTsDef], i: usize) -> &mut MTypeDef {
    match &mut doc[i] {
        MTsDef::Type(t) => t,
        _ => unreachable!(),
    }
}

fn loc_of_kind(k: Kind) -> &'static str {
    match k {
        Kind::Scalar => "SCALAR",
        Kind::Object => "OBJECT",
        Kind::Interface => "INTERFACE",
        Kind::Union => "UNION",
        Kind::Enum => "ENUM",
        Kind::Input => "INPUT_OBJECT",
    }
}

/// make positives richer: covariant field types and extra optional arguments in implementers
fn enrich_positive(ch: &mut Choices, doc: &mut Vec<MTsDef>) -> bool {
    let s = Schema::from_doc(doc);
    let mut changed = false;
    let objs = type_indices(doc, |t| t.kind == Kind::Object && !t.implements.is_empty());
    for i in objs {
        if !ch.chance(1, 2) {
            continue;
        }
        let t = tdef(doc, i);
        let imps = t.implements.clone();
        for f in t.fields.iter_mut() {
            // is this field required by an interface?
            let from_intf = imps.iter().any(|im| s.field(im, &f.name).is_some());
            if !from_intf {
                continue;
            }
            match ch.below(4) {
                0 => {
                    // T -> T!
                    if !f.ty.is_non_null() {
                        f.ty = MType::non_null(f.ty.clone());
                        changed = true;
                    }
                }
                1 => {
                    // interface/union-typed field -> a possible object type
                    let base = f.ty.base().to_string();
                    if matches!(s.kind(&base), Some(Kind::Interface | Kind::Union)) {
                        let poss = s.possible(&base);
                        if !poss.is_empty() {
                            let o = ch.pick(&poss).clone();
                            fn rebase(t: &MType, n: &str) -> MType {
                                match t {
                                    MType::Named(_) => MType::named(n),
                                    MType::List(t) => MType::list(rebase(t, n)),
                                    MType::NonNull(t) => MType::non_null(rebase(t, n)),
                                }
                            }
                            f.ty = rebase(&f.ty, &o);
                            changed = true;
                        }
                    }
                }
                2 => {
                    // extra nullable argument
                    if !f.args.iter().any(|a| a.name == "extraOpt") {
                        f.args.push(MInputValue { desc: None, name: "extraOpt".into(), ty: MType::named("Int"), default: None, directives: vec![] });
                        changed = true;
                    }
                }
                _ => {}
            }
        }
    }
    changed
}

pub fn inject(ch: &mut Choices, doc: &mut Vec<MTsDef>) -> Option<TsFault> {
    let s = Schema::from_doc(doc);
    let which = ch.below(24);
    let user_types = |doc: &[MTsDef]| type_indices(doc, |_| true);
    match which {
        0 => {
            // reserved name
            match ch.below(5) {
                0 => {
                    let idx = user_types(doc);
                    let i = *ch.pick(&idx);
                    let k = tdef(doc, i).kind;
                    let mut t = MTypeDef::new(k, "__Reserved");
                    match k {
                        Kind::Object | Kind::Interface => t.fields.push(MField { desc: None, name: "a".into(), args: vec![], ty: MType::named("Int"), directives: vec![] }),
                        Kind::Union => {
                            let o = s.objects().first().map(|o| o.name.clone())?;
                            t.members.push(o)
                        }
                        Kind::Enum => t.values.push(MEnumValue { desc: None, name: "A".into(), directives: vec![] }),
                        Kind::Input => t.input_fields.push(MInputValue { desc: None, name: "a".into(), ty: MType::named("Int"), default: None, directives: vec![] }),
                        Kind::Scalar => {}
                    }
                    doc.push(MTsDef::Type(t));
                    Some(TsFault { label: "reserved-name", cell: format!("type:{:?}", k) })
                }
                1 => {
                    let idx = type_indices(doc, |t| matches!(t.kind, Kind::Object | Kind::Interface));
                    let i = *ch.pick(&idx);
                    let t = tdef(doc, i);
                    let cell = format!("field:{:?}", t.kind);
                    t.fields.push(MField { desc: None, name: "__reserved".into(), args: vec![], ty: MType::named("Int"), directives: vec![] });
                    Some(TsFault { label: "reserved-name", cell })
                }
                2 => {
                    let idx = type_indices(doc, |t| matches!(t.kind, Kind::Object | Kind::Interface));
                    let i = *ch.pick(&idx);
                    let t = tdef(doc, i);
                    let cell = format!("argument:{:?}", t.kind);
                    t.fields.push(MField {
                        desc: None,
                        name: "withReservedArg".into(),
                        args: vec![MInputValue { desc: None, name: "__arg".into(), ty: MType::named("Int"), default: None, directives: vec![] }],
                        ty: MType::named("Int"),
                        directives: vec![],
                    });
                    Some(TsFault { label: "reserved-name", cell })
                }
                3 => {
                    let idx = type_indices(doc, |t| t.kind == Kind::Input);
                    if idx.is_empty() {
                        return None;
                    }
                    let i = *ch.pick(&idx);
                    tdef(doc, i).input_fields.push(MInputValue { desc: None, name: "__in".into(), ty: MType::named("Int"), default: None, directives: vec![] });
                    Some(TsFault { label: "reserved-name", cell: "input-field".into() })
                }
                _ => {
                    doc.push(MTsDef::Directive(MDirectiveDef { desc: None, name: "__dir".into(), args: vec![], repeatable: false, locations: vec!["FIELD".into()] }));
                    Some(TsFault { label: "reserved-name", cell: "directive".into() })
                }
            }
        }
        1 => {
            // duplicate field
            let idx = type_indices(doc, |t| matches!(t.kind, Kind::Object | Kind::Interface) && !t.fields.is_empty());
            let i = *ch.pick(&idx);
            let t = tdef(doc, i);
            let f = t.fields[ch.below(t.fields.len())].clone();
            let at = ch.below(t.fields.len() + 1);
            t.fields.insert(at, f);
            Some(TsFault { label: "duplicate-field", cell: format!("{:?}", t.kind) })
        }
        2 => {
            // duplicate argument (field or directive definition)
            let idx = type_indices(doc, |t| matches!(t.kind, Kind::Object | Kind::Interface));
            let i = *ch.pick(&idx);
            let t = tdef(doc, i);
            let a = MInputValue { desc: None, name: "dupArg".into(), ty: MType::named("Int"), default: None, directives: vec![] };
            t.fields.push(MField { desc: None, name: "fieldWithDupArgs".into(), args: vec![a.clone(), a], ty: MType::named("Int"), directives: vec![] });
            Some(TsFault { label: "duplicate-argument", cell: format!("{:?}", t.kind) })
        }
        3 => {
            let idx = type_indices(doc, |t| t.kind == Kind::Enum && !t.values.is_empty());
            if idx.is_empty() {
                return None;
            }
            let i = *ch.pick(&idx);
            let t = tdef(doc, i);
            let v = t.values[ch.below(t.values.len())].clone();
            t.values.push(v);
            Some(TsFault { label: "duplicate-enum-value", cell: "Enum".into() })
        }
        4 => {
            let idx = type_indices(doc, |t| t.kind == Kind::Union && !t.members.is_empty());
            if idx.is_empty() {
                return None;
            }
            let i = *ch.pick(&idx);
            let t = tdef(doc, i);
            let v = t.members[ch.below(t.members.len())].clone();
            t.members.push(v);
            Some(TsFault { label: "duplicate-union-member", cell: "Union".into() })
        }
        5 => {
            // same-kind duplicate type definition
            let idx = user_types(doc);
            let i = *ch.pick(&idx);
            let t = tdef(doc, i).clone();
            let cell = format!("{:?}", t.kind);
            let at = ch.below(doc.len() + 1);
            doc.insert(at, MTsDef::Type(t));
            Some(TsFault { label: "duplicate-type", cell })
        }
        6 => {
            // unknown type in object / interface field
            let idx = type_indices(doc, |t| matches!(t.kind, Kind::Object | Kind::Interface));
            let i = *ch.pick(&idx);
            let t = tdef(doc, i);
            let ty = match ch.below(3) {
                0 => MType::named("NoSuchType"),
                1 => MType::non_null(MType::list(MType::named("NoSuchType"))),
                _ => MType::list(MType::non_null(MType::named("NoSuchType"))),
            };
            t.fields.push(MField { desc: None, name: "unknownTyped".into(), args: vec![], ty, directives: vec![] });
            Some(TsFault { label: "unknown-type", cell: format!("field:{:?}", t.kind) })
        }
        7 => {
            // unknown type: argument / input field / union member / implements
            match ch.below(4) {
                0 => {
                    let idx = type_indices(doc, |t| matches!(t.kind, Kind::Object | Kind::Interface));
                    let i = *ch.pick(&idx);
                    let t = tdef(doc, i);
                    t.fields.push(MField {
                        desc: None,
                        name: "argOfUnknownType".into(),
                        args: vec![MInputValue { desc: None, name: "x".into(), ty: MType::named("NoSuchType"), default: None, directives: vec![] }],
                        ty: MType::named("Int"),
                        directives: vec![],
                    });
                    Some(TsFault { label: "unknown-type", cell: format!("argument:{:?}", t.kind) })
                }
                1 => {
                    let idx = type_indices(doc, |t| t.kind == Kind::Input);
                    if idx.is_empty() {
                        return None;
                    }
                    let i = *ch.pick(&idx);
                    tdef(doc, i).input_fields.push(MInputValue { desc: None, name: "unknownTyped".into(), ty: MType::list(MType::named("NoSuchType")), default: None, directives: vec![] });
                    Some(TsFault { label: "unknown-type", cell: "input-field".into() })
                }
                2 => {
                    let idx = type_indices(doc, |t| t.kind == Kind::Union);
                    if idx.is_empty() {
                        return None;
                    }
                    let i = *ch.pick(&idx);
                    tdef(doc, i).members.push("NoSuchType".into());
                    Some(TsFault { label: "unknown-type", cell: "union-member".into() })
                }
                _ => {
                    let idx = type_indices(doc, |t| matches!(t.kind, Kind::Object | Kind::Interface));
                    let i = *ch.pick(&idx);
                    let t = tdef(doc, i);
                    t.implements.push("NoSuchInterface".into());
                    Some(TsFault { label: "unknown-type", cell: format!("implements:{:?}", t.kind) })
                }
            }
        }
        8 => {
            // input type in output position
            let inputs: Vec<String> = s.of_kind(Kind::Input).iter().map(|t| t.name.clone()).collect();
            if inputs.is_empty() {
                return None;
            }
            let idx = type_indices(doc, |t| matches!(t.kind, Kind::Object | Kind::Interface));
            let i = *ch.pick(&idx);
            let t = tdef(doc, i);
            let base = ch.pick(&inputs).clone();
            let ty = if ch.flip() { MType::named(&base) } else { MType::list(MType::non_null(MType::named(&base))) };
            t.fields.push(MField { desc: None, name: "inputInOutput".into(), args: vec![], ty, directives: vec![] });
            Some(TsFault { label: "input-type-in-output-position", cell: format!("{:?}", t.kind) })
        }
        9 => {
            // output type in input position (argument or input field)
            let outs: Vec<String> = s.order.iter().filter(|n| s.is_composite(n)).cloned().collect();
            let base = ch.pick(&outs).clone();
            if ch.flip() {
                let idx = type_indices(doc, |t| matches!(t.kind, Kind::Object | Kind::Interface));
                let i = *ch.pick(&idx);
                let t = tdef(doc, i);
                t.fields.push(MField {
                    desc: None,
                    name: "outputAsArg".into(),
                    args: vec![MInputValue { desc: None, name: "x".into(), ty: MType::named(&base), default: None, directives: vec![] }],
                    ty: MType::named("Int"),
                    directives: vec![],
                });
                Some(TsFault { label: "output-type-in-input-position", cell: format!("argument:{:?}", t.kind) })
            } else {
                let idx = type_indices(doc, |t| t.kind == Kind::Input);
                if idx.is_empty() {
                    return None;
                }
                let i = *ch.pick(&idx);
                tdef(doc, i).input_fields.push(MInputValue { desc: None, name: "outputTyped".into(), ty: MType::list(MType::named(&base)), default: None, directives: vec![] });
                Some(TsFault { label: "output-type-in-input-position", cell: "input-field".into() })
            }
        }
        10 => {
            // implements a non-interface
            let non: Vec<String> = s.order.iter().filter(|n| !matches!(s.kind(n), Some(Kind::Interface))).cloned().collect();
            let idx = type_indices(doc, |t| matches!(t.kind, Kind::Object | Kind::Interface));
            let i = *ch.pick(&idx);
            let t = tdef(doc, i);
            let mut n = ch.pick(&non).clone();
            if n == t.name {
                n = "Int".into();
            }
            t.implements.push(n);
            Some(TsFault { label: "implements-non-interface", cell: format!("{:?}", t.kind) })
        }
        11 => {
            if ch.chance(1, 3) {
                // interfaces implementing each other in a cycle of length 2 or 3 (each would have to implement itself):
                // fresh interfaces with equal fields, so that nothing else is wrong
                let n = 2 + ch.below(2);
                let names: Vec<String> = (0..n).map(|i| format!("Cyc{}", (b'A' + i as u8) as char)).collect();
                for i in 0..n {
                    let mut t = MTypeDef::new(Kind::Interface, &names[i]);
                    t.fields.push(MField { desc: None, name: "x".into(), args: vec![], ty: MType::named("Int"), directives: vec![] });
                    // each lists all the others (so no transitive interface is missing except the type itself)
                    for j in 1..n {
                        t.implements.push(names[(i + j) % n].clone());
                    }
                    doc.push(MTsDef::Type(t));
                }
                return Some(TsFault { label: "implements-cycle", cell: format!("length-{n}") });
            }
            let idx = type_indices(doc, |t| t.kind == Kind::Interface);
            if idx.is_empty() {
                return None;
            }
            let i = *ch.pick(&idx);
            let t = tdef(doc, i);
            let n = t.name.clone();
            t.implements.push(n);
            Some(TsFault { label: "implements-self", cell: "Interface".into() })
        }
        12 => {
            // missing transitive interface
            let idx = type_indices(doc, |t| {
                matches!(t.kind, Kind::Object | Kind::Interface)
                    && t.implements.iter().any(|im| s.types.get(im).map(|d| !d.implements.is_empty()).unwrap_or(false))
            });
            if idx.is_empty() {
                return None;
            }
            let i = *ch.pick(&idx);
            let t = tdef(doc, i);
            let child = t.implements.iter().find(|im| s.types.get(*im).map(|d| !d.implements.is_empty()).unwrap_or(false)).cloned()?;
            let parent = s.types[&child].implements[0].clone();
            t.implements.retain(|x| x != &parent);
            Some(TsFault { label: "missing-transitive-interface", cell: format!("{:?}", t.kind) })
        }
        13 | 14 | 15 | 16 | 17 => {
            // interface field: missing / non-covariant / arg missing / arg type differs / extra required arg
            let idx = type_indices(doc, |t| {
                matches!(t.kind, Kind::Object | Kind::Interface)
                    && t.implements.iter().any(|im| s.types.get(im).map(|d| d.kind == Kind::Interface && !d.fields.is_empty()).unwrap_or(false))
            });
            if idx.is_empty() {
                return None;
            }
            let i = *ch.pick(&idx);
            let t = tdef(doc, i);
            let kind = t.kind;
            let im = t.implements.iter().find(|im| s.types.get(*im).map(|d| d.kind == Kind::Interface && !d.fields.is_empty()).unwrap_or(false)).cloned()?;
            let ifields = s.types[&im].fields.clone();
            match which {
                13 => {
                    let f = ch.pick(&ifields).name.clone();
                    t.fields.retain(|x| x.name != f);
                    if t.fields.is_empty() {
                        t.fields.push(MField { desc: None, name: "placeholderField".into(), args: vec![], ty: MType::named("Int"), directives: vec![] });
                    }
                    Some(TsFault { label: "interface-field-missing", cell: format!("{kind:?}") })
                }
                14 => {
                    let f = ch.pick(&ifields).clone();
                    let tf = t.fields.iter_mut().find(|x| x.name == f.name)?;
                    // non-covariant: different leaf, dropped non-null, or changed list structure
                    let new_ty = match ch.below(3) {
                        0 => {
                            if f.ty.is_non_null() {
                                f.ty.nullable().clone()
                            } else {
                                MType::list(f.ty.clone())
                            }
                        }
                        1 => {
                            let other = if f.ty.base() == "Int" { "String" } else { "Int" };
                            fn rebase(t: &MType, n: &str) -> MType {
                                match t {
                                    MType::Named(_) => MType::named(n),
                                    MType::List(t) => MType::list(rebase(t, n)),
                                    MType::NonNull(t) => MType::non_null(rebase(t, n)),
                                }
                            }
                            rebase(&f.ty, other)
                        }
                        _ => MType::list(f.ty.clone()),
                    };
                    tf.ty = new_ty;
                    Some(TsFault { label: "interface-field-not-covariant", cell: format!("{kind:?}") })
                }
                15 => {
                    let f = ifields.iter().find(|f| !f.args.is_empty())?.clone();
                    let tf = t.fields.iter_mut().find(|x| x.name == f.name)?;
                    let a = f.args[0].name.clone();
                    tf.args.retain(|x| x.name != a);
                    Some(TsFault { label: "interface-argument-missing", cell: format!("{kind:?}") })
                }
                16 => {
                    let f = ifields.iter().find(|f| !f.args.is_empty())?.clone();
                    let tf = t.fields.iter_mut().find(|x| x.name == f.name)?;
                    let a = tf.args.iter_mut().find(|x| x.name == f.args[0].name)?;
                    // argument types are invariant: flip the non-null marker at the outside or at any list level,
                    // or change the list structure
                    fn toggle_at(t: &MType, lvl: usize) -> MType {
                        let (nn, core) = match t {
                            MType::NonNull(i) => (true, (**i).clone()),
                            o => (false, o.clone()),
                        };
                        if lvl == 0 {
                            return if nn { core } else { MType::non_null(core) };
                        }
                        let inner = match &core {
                            MType::List(i) => MType::list(toggle_at(i, lvl - 1)),
                            _ => return if nn { core } else { MType::non_null(core) },
                        };
                        if nn { MType::non_null(inner) } else { inner }
                    }
                    let depth = a.ty.list_depth();
                    a.ty = match ch.below(4) {
                        0 => MType::list(a.ty.clone()),
                        _ => toggle_at(&a.ty, if depth == 0 { 0 } else { ch.below(depth + 1) }),
                    };
                    a.default = None;
                    Some(TsFault { label: "interface-argument-type-differs", cell: format!("{kind:?}") })
                }
                _ => {
                    let f = ch.pick(&ifields).clone();
                    let tf = t.fields.iter_mut().find(|x| x.name == f.name)?;
                    tf.args.push(MInputValue { desc: None, name: "extraRequired".into(), ty: MType::non_null(MType::named("Int")), default: None, directives: vec![] });
                    Some(TsFault { label: "interface-extra-required-argument", cell: format!("{kind:?}") })
                }
            }
        }
        18 => {
            let idx = type_indices(doc, |t| t.kind == Kind::Union);
            if idx.is_empty() {
                return None;
            }
            let non: Vec<String> = s.types.keys().filter(|n| !matches!(s.kind(n), Some(Kind::Object))).cloned().collect();
            let i = *ch.pick(&idx);
            let m = ch.pick(&non).clone();
            let cell = format!("{:?}", s.kind(&m).unwrap());
            tdef(doc, i).members.push(m);
            Some(TsFault { label: "non-object-union-member", cell })
        }
        19 | 20 | 21 | 22 => {
            // directive application faults at a type-system location
            // choose location target
            let locs = [
                "SCHEMA", "SCALAR", "OBJECT", "FIELD_DEFINITION", "ARGUMENT_DEFINITION", "INTERFACE", "UNION", "ENUM", "ENUM_VALUE",
                "INPUT_OBJECT", "INPUT_FIELD_DEFINITION",
            ];
            let loc = *ch.pick(&locs);
            let (label, dirs): (&'static str, Vec<MDirective>) = match which {
                19 => ("unknown-directive", vec![MDirective { name: "noSuchDirective".into(), args: vec![] }]),
                20 => {
                    // misplaced: @skip is executable-only; @specifiedBy is SCALAR-only
                    if loc == "SCALAR" {
                        ("directive-misplaced", vec![MDirective { name: "deprecated".into(), args: vec![] }])
                    } else {
                        ("directive-misplaced", vec![MDirective { name: "specifiedBy".into(), args: vec![("url".into(), MValue::Str("u".into()))] }])
                    }
                }
                21 => {
                    // repeated non-repeatable: needs a directive allowed at loc: @deprecated or @specifiedBy, else custom
                    let name = match loc {
                        "FIELD_DEFINITION" | "ARGUMENT_DEFINITION" | "INPUT_FIELD_DEFINITION" | "ENUM_VALUE" => "deprecated",
                        "SCALAR" => "specifiedBy",
                        _ => "onceOnly",
                    };
                    let args = if name == "specifiedBy" { vec![("url".to_string(), MValue::Str("u".into()))] } else { vec![] };
                    if name == "onceOnly" && !doc.iter().any(|d| matches!(d, MTsDef::Directive(x) if x.name == "onceOnly")) {
                        doc.push(MTsDef::Directive(MDirectiveDef {
                            desc: None,
                            name: "onceOnly".into(),
                            args: vec![],
                            repeatable: false,
                            locations: locs.iter().map(|s| s.to_string()).collect(),
                        }));
                    }
                    ("directive-repeated", vec![MDirective { name: name.into(), args: args.clone() }, MDirective { name: name.into(), args }])
                }
                _ => {
                    // ill-typed argument
                    if loc == "SCALAR" {
                        ("directive-argument-ill-typed", vec![MDirective { name: "specifiedBy".into(), args: vec![("url".into(), MValue::Int("1".into()))] }])
                    } else if matches!(loc, "FIELD_DEFINITION" | "ARGUMENT_DEFINITION" | "INPUT_FIELD_DEFINITION" | "ENUM_VALUE") {
                        ("directive-argument-ill-typed", vec![MDirective { name: "deprecated".into(), args: vec![("reason".into(), MValue::Int("1".into()))] }])
                    } else {
                        if !doc.iter().any(|d| matches!(d, MTsDef::Directive(x) if x.name == "typedArg")) {
                            doc.push(MTsDef::Directive(MDirectiveDef {
                                desc: None,
                                name: "typedArg".into(),
                                args: vec![MInputValue { desc: None, name: "n".into(), ty: MType::non_null(MType::named("Int")), default: None, directives: vec![] }],
                                repeatable: false,
                                locations: locs.iter().map(|s| s.to_string()).collect(),
                            }));
                        }
                        let v = match ch.below(3) {
                            0 => vec![("n".to_string(), MValue::Str("x".into()))],
                            1 => vec![],
                            _ => vec![("n".to_string(), MValue::Int("1".into())), ("zzz".to_string(), MValue::Int("1".into()))],
                        };
                        ("directive-argument-ill-typed", vec![MDirective { name: "typedArg".into(), args: v }])
                    }
                }
            };
            // attach
            let attached = match loc {
                "SCHEMA" => {
                    let mut done = false;
                    for d in doc.iter_mut() {
                        if let MTsDef::Schema(sd) = d {
                            sd.directives.extend(dirs.clone());
                            done = true;
                            break;
                        }
                    }
                    if !done {
                        // add an explicit schema definition naming the existing roots
                        let mut roots = vec![];
                        for (op, n) in [(OpType::Query, "Query"), (OpType::Mutation, "Mutation"), (OpType::Subscription, "Subscription")] {
                            if matches!(s.kind(n), Some(Kind::Object)) {
                                roots.push((op, n.to_string()));
                            }
                        }
                        if roots.is_empty() {
                            return None;
                        }
                        doc.push(MTsDef::Schema(MSchemaDef { desc: None, directives: dirs.clone(), roots }));
                    }
                    true
                }
                "FIELD_DEFINITION" | "ARGUMENT_DEFINITION" => {
                    let idx = type_indices(doc, |t| matches!(t.kind, Kind::Object | Kind::Interface) && !t.fields.is_empty());
                    let i = *ch.pick(&idx);
                    let t = tdef(doc, i);
                    let k = ch.below(t.fields.len());
                    if loc == "FIELD_DEFINITION" {
                        t.fields[k].directives.extend(dirs.clone());
                    } else {
                        // with and without a default value and a description (the directives come last in the grammar)
                        let default = if ch.flip() { Some(MValue::Int("10".into())) } else { None };
                        let desc = if ch.chance(1, 3) { Some("an argument".to_string()) } else { None };
                        t.fields[k].args.push(MInputValue { desc, name: "argWithDirective".into(), ty: MType::named("Int"), default, directives: dirs.clone() });
                        // keep interface conformance: add the same optional argument nowhere else is fine
                    }
                    true
                }
                "ENUM_VALUE" => {
                    let idx = type_indices(doc, |t| t.kind == Kind::Enum && !t.values.is_empty());
                    if idx.is_empty() {
                        return None;
                    }
                    let i = *ch.pick(&idx);
                    let t = tdef(doc, i);
                    let k = ch.below(t.values.len());
                    t.values[k].directives.extend(dirs.clone());
                    true
                }
                "INPUT_FIELD_DEFINITION" => {
                    let idx = type_indices(doc, |t| t.kind == Kind::Input && !t.input_fields.is_empty());
                    if idx.is_empty() {
                        return None;
                    }
                    let i = *ch.pick(&idx);
                    let t = tdef(doc, i);
                    let k = ch.below(t.input_fields.len());
                    t.input_fields[k].directives.extend(dirs.clone());
                    if t.input_fields[k].default.is_none() && !t.input_fields[k].ty.is_non_null() && ch.flip() {
                        t.input_fields[k].default = Some(MValue::Null);
                    }
                    true
                }
                l => {
                    let idx = type_indices(doc, |t| loc_of_kind(t.kind) == l);
                    if idx.is_empty() {
                        return None;
                    }
                    let i = *ch.pick(&idx);
                    tdef(doc, i).directives.extend(dirs.clone());
                    true
                }
            };
            if !attached {
                return None;
            }
            Some(TsFault { label, cell: loc.to_string() })
        }
        _ => {
            // recursive directive definition
            match ch.below(4) {
                3 => {
                    // a cycle cycA -> cycB -> cycA that is only entered from a third directive, in a
                    // generated definition order (the cycle must be found wherever the walk starts)
                    let mk = |name: &str, arg: &str, refers: &str| {
                        MTsDef::Directive(MDirectiveDef {
                            desc: None,
                            name: name.into(),
                            args: vec![MInputValue { desc: None, name: arg.into(), ty: MType::named("Int"), default: None, directives: vec![MDirective { name: refers.into(), args: vec![] }] }],
                            repeatable: false,
                            locations: vec!["ARGUMENT_DEFINITION".into()],
                        })
                    };
                    let mut defs = vec![mk("cycEntry", "e", "cycA"), mk("cycA", "x", "cycB"), mk("cycB", "y", "cycA")];
                    let perm = ch.permutation(3);
                    let ordered: Vec<MTsDef> = perm.iter().map(|&i| defs[i].clone()).collect();
                    defs.clear();
                    // at the front or at the back of the document
                    if ch.flip() {
                        for (k, d) in ordered.into_iter().enumerate() {
                            doc.insert(k, d);
                        }
                    } else {
                        doc.extend(ordered);
                    }
                    Some(TsFault { label: "directive-recursion", cell: format!("cycle-with-entry/order-{}{}{}", perm[0], perm[1], perm[2]) })
                }
                0 => {
                    doc.push(MTsDef::Directive(MDirectiveDef {
                        desc: None,
                        name: "selfRef".into(),
                        args: vec![MInputValue {
                            desc: None,
                            name: "x".into(),
                            ty: MType::named("Int"),
                            default: None,
                            directives: vec![MDirective { name: "selfRef".into(), args: vec![] }],
                        }],
                        repeatable: false,
                        locations: vec!["ARGUMENT_DEFINITION".into()],
                    }));
                    Some(TsFault { label: "directive-recursion", cell: "direct".into() })
                }
                1 => {
                    // a -> b -> a through argument directives
                    doc.push(MTsDef::Directive(MDirectiveDef {
                        desc: None,
                        name: "recA".into(),
                        args: vec![MInputValue { desc: None, name: "x".into(), ty: MType::named("Int"), default: None, directives: vec![MDirective { name: "recB".into(), args: vec![] }] }],
                        repeatable: false,
                        locations: vec!["ARGUMENT_DEFINITION".into()],
                    }));
                    doc.push(MTsDef::Directive(MDirectiveDef {
                        desc: None,
                        name: "recB".into(),
                        args: vec![MInputValue { desc: None, name: "y".into(), ty: MType::named("Int"), default: None, directives: vec![MDirective { name: "recA".into(), args: vec![] }] }],
                        repeatable: false,
                        locations: vec!["ARGUMENT_DEFINITION".into()],
                    }));
                    Some(TsFault { label: "directive-recursion", cell: "indirect-through-directive".into() })
                }
                _ => {
                    // through an input type whose field carries the directive
                    doc.push(MTsDef::Type(MTypeDef {
                        input_fields: vec![MInputValue {
                            desc: None,
                            name: "f".into(),
                            ty: MType::named("Int"),
                            default: None,
                            directives: vec![MDirective { name: "viaInput".into(), args: vec![] }],
                        }],
                        ..MTypeDef::new(Kind::Input, "RecursiveCarrier")
                    }));
                    doc.push(MTsDef::Directive(MDirectiveDef {
                        desc: None,
                        name: "viaInput".into(),
                        args: vec![MInputValue { desc: None, name: "x".into(), ty: MType::named("RecursiveCarrier"), default: None, directives: vec![] }],
                        repeatable: false,
                        locations: vec!["INPUT_FIELD_DEFINITION".into()],
                    }));
                    Some(TsFault { label: "directive-recursion", cell: "indirect-through-input-type".into() })
                }
            }
        }
    }
}

fn render_files(case: &mut Case, files: &[Vec<MTsDef>]) -> Vec<(PathBuf, String)> {
    let wild = case.ch.chance(1, 4);
    files
        .iter()
        .enumerate()
        .map(|(i, f)| {
            let text = if wild {
                let mut ro = RenderOpts::wild();
                ro.allow_eof_comment_no_newline = false;
                ro.allow_surrogate_escape = false;
                ro.allow_cooked_block = false;
                ro.allow_block = false;
                ro.allow_lone_cr = false;
                render_ts_file(f, ro, Some(&mut case.ch)).text
            } else {
                render_ts_file(f, RenderOpts::canonical(), None).text
            };
            (PathBuf::from(format!("/p/schema{i}.graphql")), text)
        })
        .collect()
}

fn positive_case(case: &mut Case) -> CaseResult {
    let mut so = SchemaGenOpts::default();
    so.covariant_fields = true;
    let gs = gen_schema(&mut case.ch, &so);
    let mut doc = gs.doc.clone();
    let enriched = enrich_positive(&mut case.ch, &mut doc);
    let files = split_into_extensions(&mut case.ch, &doc);
    let rendered = render_files(case, &files);
    let detail = json!({"files": rendered.iter().map(|(_, t)| t.clone()).collect::<Vec<_>>()});
    let ss = schema_stage(&rendered, &detail)?;
    if let Some(d) = ss.all_diags().first() {
        return Err(Failure::new(
            format!("false-diagnostic:{}", d.kind),
            format!("valid schema rejected: {} (file {} {}:{})", d.message, d.file, d.line, d.col),
            json!({"files": detail["files"], "diagnostics": ss.all_diags().iter().map(|d| d.to_json()).collect::<Vec<_>>()}),
        ));
    }
    let kinds: std::collections::BTreeSet<Kind> = doc.iter().filter_map(|d| if let MTsDef::Type(t) = d { Some(t.kind) } else { None }).collect();
    let has_ext = files.iter().flatten().any(|d| matches!(d, MTsDef::TypeExt(_)));
    let has_dir = doc.iter().any(|d| match d {
        MTsDef::Type(t) => !t.directives.is_empty() || t.fields.iter().any(|f| !f.directives.is_empty()),
        _ => false,
    });
    for l in &gs.labels {
        case.label(l);
    }
    if enriched {
        case.label("covariant-or-extra-arg-implementer");
    }
    if has_ext {
        case.label("has-extension");
    }
    if files.len() > 1 {
        case.label("multi-file");
    }
    if kinds.len() >= 4 && has_ext && has_dir {
        case.nontrivial(&detail.to_string());
    }
    case.sample(|| detail.clone());
    Ok(())
}

fn negative_case(case: &mut Case) -> CaseResult {
    let so = SchemaGenOpts::default();
    let gs = gen_schema(&mut case.ch, &so);
    let mut doc = gs.doc.clone();
    let Some(fault) = inject(&mut case.ch, &mut doc) else {
        case.discard("fault-not-applicable");
        return Ok(());
    };
    let files = if case.ch.chance(1, 3) { split_into_extensions(&mut case.ch, &doc) } else { vec![doc.clone()] };
    let rendered = render_files(case, &files);
    let detail = json!({"files": rendered.iter().map(|(_, t)| t.clone()).collect::<Vec<_>>(), "fault": {"rule": fault.label, "where": fault.cell}});
    let ss = schema_stage(&rendered, &detail)?;
    let diags = ss.all_diags();
    if diags.is_empty() {
        return Err(Failure::new(
            format!("miss:{}@{}", fault.label, fault.cell),
            format!("schema violating '{}' ({}) is accepted", fault.label, fault.cell),
            detail,
        ));
    }
    case.label(&format!("{}@{}", fault.label, fault.cell));
    case.label(&format!("kind:{}", diags[0].kind));
    case.nontrivial(&(fault.label, fault.cell.clone()));
    case.sample(|| detail.clone());
    Ok(())
}

pub fn run(env: &Env) -> i32 {
    let mut rep = Report::new(
        env,
        "exploration",
        "positive: valid schema models (all kinds, interface hierarchies, custom and built-in directives at every location they declare, covariant/extra-argument implementers) split into definitions + extensions over 1-3 files, canonical or random trivia; oracle: zero diagnostics. negative: the same with exactly one labelled fault out of 25 operators (reserved names, duplicates, unknown types, in/out position, implements rules, interface conformance, union members, directive application faults at each of the 11 type-system locations, recursive directive definitions); oracle: >=1 diagnostic. Non-trivial: positive = >=4 kinds + extension + directive application; negative = distinct (rule, cell).",
    );
    rep.assume("built-in scalars and directives are never redefined in the SDL (the spec says they are omitted)");
    let probe_ok = |schema: &'static str| {
        move || -> CaseResult {
            let detail = json!({"schema": schema});
            let f = vec![(PathBuf::from("/p/schema.graphql"), schema.to_string())];
            let ss = schema_stage(&f, &detail)?;
            match ss.all_diags().first() {
                None => Ok(()),
                Some(d) => Err(Failure::new(format!("false-diagnostic:{}", d.kind), d.message.clone(), detail)),
            }
        }
    };
    let probe_bad = |schema: &'static str| {
        move || -> CaseResult {
            let detail = json!({"schema": schema});
            let f = vec![(PathBuf::from("/p/schema.graphql"), schema.to_string())];
            let ss = schema_stage(&f, &detail)?;
            if ss.all_diags().is_empty() { Err(Failure::new("miss", "accepted", detail)) } else { Ok(()) }
        }
    };
    rep.probe("C05-interface-field-directive-location", probe_ok("interface I { a: Int @deprecated }\ntype Query implements I { a: Int }"));
    rep.probe("C05-interface-field-unknown-type", probe_bad("interface I { a: Nope }\ntype Query { b: Int }"));
    rep.probe("C05-directive-recursion-false-positive", probe_ok("enum E { A @deprecated B @deprecated }\ndirective @d(x: E) on FIELD\ntype Query { a: Int }"));
    rep.campaign("valid-schemas", env.cases(30_000, 300_000), (250, 1200), positive_case);
    rep.campaign("single-fault", env.cases(80_000, 800_000), (300, 1200), negative_case);
    rep.finish()
}
