use vh::props;
use vh::runner::{install_panic_hook, start_watchdog, Env, Tier};

fn main() {
    let args: Vec<String> = std::env::args().collect();
    if args.len() < 2 {
        eprintln!("usage: vh <Cxx> [--tier quick|thorough] [--replay FILE] [--strict]");
        std::process::exit(2);
    }
    let prop = args[1].to_uppercase();
    let env = Env::from_args(&prop, &args[2..]);
    install_panic_hook();
    start_watchdog(if env.tier == Tier::Quick { 900 } else { 7200 }, &prop);
    println!(
        "== {} tier={:?} seed={} threads={} ==",
        prop, env.tier, env.seed, env.threads
    );
    let code = match prop.as_str() {
        "C04" => props::c04::run(&env),
        "C07" => props::c07::run(&env),
        "C11" => props::c11::run(&env),
        "C16" => props::c16::run(&env),
        "C20" => props::c20::run(&env),
        _ => {
            eprintln!("unknown property {prop}");
            2
        }
    };
    std::process::exit(code);
}
