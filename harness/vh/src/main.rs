use vh::props;
use vh::runner::{install_panic_hook, start_watchdog, Env, Tier};

fn main() {
    let args: Vec<String> = std::env::args().collect();
    if args.len() < 2 {
        eprintln!("usage: vh <Cxx> [--tier quick|thorough] [--replay FILE] [--strict]");
        std::process::exit(2);
    }
    if args[1] == "debug-check" {
        // vh debug-check <schema file> <operation file>...
        let sfiles = vec![(std::path::PathBuf::from(&args[2]), std::fs::read_to_string(&args[2]).unwrap())];
        let ofiles: Vec<_> = args[3..].iter().map(|p| (std::path::PathBuf::from(p), std::fs::read_to_string(p).unwrap())).collect();
        let detail = serde_json::json!(null);
        install_panic_hook();
        let ss = vh::pipeline::schema_stage(&sfiles, &detail).unwrap();
        println!("schema diagnostics: {:?}", ss.all_diags());
        if let Some(doc) = &ss.doc {
            match vh::pipeline::op_stage(doc, 1, &ofiles, &detail) {
                Ok(os) => println!("operation diagnostics: {:#?}", os.all_diags()),
                Err(f) => println!("operation stage failed: {} {}", f.signature, f.message),
            }
        }
        return;
    }
    if args[1] == "fuzz-replay" {
        // vh fuzz-replay <structured|pipeline|parse_op|parse_schema> <artifact>: runs one libFuzzer input
        // through the same glue in this (release, non-sanitized) binary, strict mode, with timing
        unsafe { std::env::set_var("VH_FUZZ_STRICT", "1") };
        let data = std::fs::read(&args[3]).unwrap();
        let t0 = std::time::Instant::now();
        let r = match args[2].as_str() {
            "structured" => vh::fuzzglue::structured_verbose(&data),
            "pipeline" => {
                let text = String::from_utf8_lossy(&data).to_string();
                match text.split_once("\n#####\n") {
                    Some((a, b)) => vh::fuzzglue::project(a, b),
                    None => Ok(()),
                }
            }
            "parse_schema" => vh::fuzzglue::project(&String::from_utf8_lossy(&data), "query Q { __typename }\n"),
            _ => vh::fuzzglue::parsers_only(&String::from_utf8_lossy(&data)),
        };
        println!("result: {:?} in {:?}", r.map_err(|f| (f.signature, f.message)), t0.elapsed());
        return;
    }
    if args[1] == "fuzz-seeds-json" {
        // vh fuzz-seeds-json <dir>: only the corpus of the json_schema target (the other directories hold
        // hand-kept regression inputs as well and are not rewritten)
        vh::props::c08::write_json_seeds(std::path::Path::new(&args[2]));
        return;
    }
    if args[1] == "fuzz-seeds" {
        // vh fuzz-seeds <dir>: writes the tracked starting corpus of the cargo-fuzz targets
        vh::props::c08::write_fuzz_seeds(std::path::Path::new(&args[2]));
        return;
    }
    let prop = args[1].to_uppercase();
    if !args.iter().any(|a| a == "--worker") && !args.iter().any(|a| a == "--replay") && std::env::var("VH_NO_WORKER").is_err() {
        // parent: the campaigns run in a worker process so that an abort inside nitrogql (stack overflow,
        // a panic in a destructor, a sanitizer report) is observed instead of taking the check down
        let status = std::process::Command::new(std::env::current_exe().unwrap()).args(&args[1..]).arg("--worker").status().expect("spawn worker");
        match status.code() {
            Some(c) if c == 0 || c == 1 || c == 2 => std::process::exit(c),
            _ => {
                println!("  worker died abnormally ({status}); re-running single-threaded with in-flight tracing");
                let inflight = format!("{}/work/inflight-{}.json", vh::runner::VERIF, std::process::id());
                let _ = std::fs::create_dir_all(format!("{}/work", vh::runner::VERIF));
                let _ = std::fs::remove_file(&inflight);
                let st2 = std::process::Command::new(std::env::current_exe().unwrap())
                    .args(&args[1..])
                    .arg("--worker")
                    .env("VH_INFLIGHT", &inflight)
                    .env("VERIF_THREADS", "1")
                    .status()
                    .expect("spawn worker");
                let dir = format!("{}/replays/{prop}", vh::runner::VERIF);
                let _ = std::fs::create_dir_all(&dir);
                let replay = format!("{dir}/abort-{}.json", std::process::id());
                let reproduced = !matches!(st2.code(), Some(0) | Some(1) | Some(2));
                if reproduced && std::path::Path::new(&inflight).exists() {
                    let _ = std::fs::copy(&inflight, &replay);
                } else {
                    let _ = std::fs::write(&replay, "{\"note\": \"worker aborted; not reproduced single-threaded\"}");
                }
                let _ = std::fs::remove_file(&inflight);
                if prop == "C08" {
                    println!("  failure[abort] nitrogql aborted the process (stack overflow or abort; not a catchable panic) on a generated input");
                    println!("VIOLATION property={prop} replay={replay}");
                    std::process::exit(1);
                }
                println!("INCONCLUSIVE property={prop} the code under test aborted the worker process on a generated input (a C08 matter; replay={replay})");
                std::process::exit(2);
            }
        }
    }
    let wargs: Vec<String> = args[2..].iter().filter(|a| *a != "--worker").cloned().collect();
    let env = Env::from_args(&prop, &wargs);
    install_panic_hook();
    start_watchdog(if env.tier == Tier::Quick { 900 } else { 7200 }, &prop);
    println!(
        "== {} tier={:?} seed={} threads={} ==",
        prop, env.tier, env.seed, env.threads
    );
    let code = match prop.as_str() {
        "C01" => props::c01::run_c01(&env),
        "C02" => props::c01::run_c02(&env),
        "C03" => props::c03::run(&env),
        "C04" => props::c04::run(&env),
        "C05" => props::c05::run(&env),
        "C06" => props::c06::run(&env),
        "C07" => props::c07::run(&env),
        "C08" => props::c08::run(&env),
        "C09" => props::c09::run(&env),
        "C10" => props::c10::run(&env),
        "C11" => props::c11::run(&env),
        "C12" => props::c12::run(&env),
        "C13" => props::c13::run(&env),
        "C15" => props::c15::run(&env),
        "C16" => props::c16::run(&env),
        "C17" => props::c17::run(&env),
        "C18" => props::c18::run(&env),
        "C20" => props::c20::run(&env),
        _ => {
            eprintln!("unknown property {prop}");
            2
        }
    };
    std::process::exit(code);
}
